"""Native twins for C18 (logic blocks)."""
from .native_common import Template, EventManager, DelayManager, delay_state, n_posts, posts


def native_stubs():
    return {"Template": Template, "EventManager": EventManager, "DelayManager": DelayManager}


def native_helpers(LOG, params, spec):
    this = params.get("self")
    symbols = spec.get("symbols", {})

    def post_kw(name, key):
        for c in posts(LOG):
            if c["args"][0] == name:
                return c["kwargs"].get(key)
        return None

    def completions():
        evs = this.config["events_when_complete"]
        k = n_posts(LOG, evs[0])
        return k // 2 if len(evs) > 1 and evs[0] == evs[1] else k

    def delay_adds():
        return [c for c in LOG if c.get("cls") == "DelayManager" and c["method"] in ("add", "reset", "add_if_doesnt_exist")]

    return {
        "delayed_call_is_new": lambda: len(delay_adds()) == 1 and delay_adds()[0]["method"] == "add" and
        delay_adds()[0]["args"][2] is None and not any(c.get("cls") == "DelayManager" and c["method"] in ("remove", "clear") for c in LOG),
        "delayed_call_args": lambda cb, ms: len(delay_adds()) == 1 and delay_adds()[0]["args"][0] == ms and
        delay_adds()[0]["args"][1] is cb,
        "n_posts": lambda name: n_posts(LOG, name),
        "n_posts_total": lambda: len(posts(LOG)),
        "post_kw": post_kw,
        "completions": completions,
        "timeout_pending": lambda: delay_state(LOG, symbols, "timeout")[0],
        "window_pending": lambda: delay_state(LOG, symbols, "ignore_hits_within_window")[0],
    }
