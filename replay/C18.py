"""Native twins for C18 (logic blocks)."""
from .native_common import Template, EventManager, DelayManager, delay_state, n_posts, posts


def native_stubs():
    return {"Template": Template, "EventManager": EventManager, "DelayManager": DelayManager}


def native_helpers(LOG, params, spec):
    this = params.get("self")
    symbols = spec.get("symbols", {})

    def post_kw(name, key):
        for c in posts(LOG):
            if c["args"][0] == name:
                return c["kwargs"].get(key)
        return None

    def completions():
        evs = this.config["events_when_complete"]
        k = n_posts(LOG, evs[0])
        return k // 2 if len(evs) > 1 and evs[0] == evs[1] else k

    return {
        "n_posts": lambda name: n_posts(LOG, name),
        "n_posts_total": lambda: len(posts(LOG)),
        "post_kw": post_kw,
        "completions": completions,
        "timeout_pending": lambda: delay_state(LOG, symbols, "timeout")[0],
        "window_pending": lambda: delay_state(LOG, symbols, "ignore_hits_within_window")[0],
    }
