"""Native twins of the C08 spec helpers (evaluated on the recorded calls of the stub collaborators)."""


def native_helpers(LOG, params, spec):
    symbols = spec.get("symbols", {})

    def delay_state(name):
        """(pending?, ms, callback) from the recorded DelayManager calls, else the model's initial flag"""
        state = None
        for c in LOG:
            if c.get("cls") != "DelayManager":
                continue
            a, k = c["args"], c["kwargs"]
            m = c["method"]
            nm = k.get("name", a[2] if len(a) > 2 else (a[0] if m in ("remove", "check") and a else None))
            if m == "remove":
                nm = k.get("name", a[0] if a else None)
            if nm != name:
                continue
            if m in ("add", "reset") or (m == "add_if_doesnt_exist" and (state is None or not state[0])):
                state = (True, k.get("ms", a[0] if a else None), k.get("callback", a[1] if len(a) > 1 else None))
            elif m == "remove":
                state = (False, None, None)
        if state is None:
            init = [v for s, v in symbols.items() if s.endswith("pending0[%s]" % name)]
            return (bool(init and init[0] == "True"), None, None)
        return state

    def sw_timed_pulse():
        pend, ms, cb = delay_state("timed_disable")
        return bool(pend and ms is not None and ms >= 0 and getattr(cb, "__name__", "") in ("bound", "disable"))

    return {
        "sw_timed_pulse": sw_timed_pulse,
        "limit_delay_pending": lambda: delay_state("enable_limit_reached")[0],
        "limit_delay_untouched": lambda: not any(
            c.get("cls") == "DelayManager" and c["method"] in ("add", "reset", "remove") and
            (c["kwargs"].get("name", c["args"][2] if len(c["args"]) > 2 else (c["args"][0] if c["method"] == "remove" and c["args"] else None))
             == "enable_limit_reached") for c in LOG),
        "timed_disable_pending": lambda: delay_state("timed_disable")[0],
        "postponed_enable_pending": lambda: delay_state("postponed_enable")[0],
        "timed_disable_ms": lambda: delay_state("timed_disable")[1],
        "issued_hw_enable": lambda: any(c["cls"] == "DriverPlatformInterface" and c["method"] == "enable" for c in LOG),
        "issued_hw_disable": lambda: any(c["cls"] == "DriverPlatformInterface" and c["method"] == "disable" for c in LOG),
    }
