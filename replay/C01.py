"""Native twins of the C01 spec helpers (event string parsing)."""


def native_helpers(LOG, params, spec):
    def ok(s):
        try:
            int(s)
            return True
        except (ValueError, TypeError):
            return False
    return {"int_ok": ok, "int_of": lambda s: int(s) if ok(s) else None}
