"""Native replay harness (runs under /venv/bin/python with the real mpf).

Input (JSON on stdin): {file, qualname, params, predicted, ext_returns, clauses, pid}
It rebuilds the concrete situation described by a solver model with stub
collaborators, runs the REAL function from /repo on it, records what it did,
and evaluates the violated clause natively where a native reading exists.
Output: JSON on stdout.
"""
import ast
import fractions
import importlib
import inspect
import json
import os
import sys
import types

REPO = os.environ.get("PYVC_REPO", "/repo")
sys.path.insert(0, REPO)

LOG = []          # recorded calls on collaborator stubs: {"path":..., "args":..., "kwargs":...}
RETURNS = {}      # method name -> list of queued return values
OBJS = {}


class Rec:
    """recording stand-in for an external collaborator"""

    def __init__(self, path, fields=None, cls=None):
        object.__setattr__(self, "_path", path)
        object.__setattr__(self, "_fields", dict(fields or {}))
        object.__setattr__(self, "_cls", cls)

    def __getattr__(self, name):
        f = object.__getattribute__(self, "_fields")
        if name in f:
            return f[name]
        if name.startswith("__") and name.endswith("__"):
            raise AttributeError(name)
        child = Rec(object.__getattribute__(self, "_path") + "." + name)
        object.__setattr__(child, "_owner_cls", object.__getattribute__(self, "_cls"))
        f[name] = child
        return child

    def __setattr__(self, name, value):
        object.__getattribute__(self, "_fields")[name] = value

    def __call__(self, *args, **kwargs):
        path = object.__getattribute__(self, "_path")
        meth = path.split(".")[-1]
        try:
            ocls = object.__getattribute__(self, "_owner_cls")
        except AttributeError:
            ocls = None
        entry = {"path": path, "cls": ocls, "method": meth, "args": args, "kwargs": kwargs}
        check_requires("%s.%s" % (ocls, meth), None, args, kwargs)
        LOG.append(entry)
        q = RETURNS.get(meth)
        if q:
            return q.pop(0)
        return None

    def __bool__(self):
        return True

    def __repr__(self):
        return "<Rec %s>" % object.__getattribute__(self, "_path")


class Proxy:
    """an object whose data comes from the model and whose behaviour is the real class's code"""

    def __init__(self, real_cls, fields, name):
        object.__setattr__(self, "_real", real_cls)
        object.__setattr__(self, "_name", name)
        object.__setattr__(self, "_data", dict(fields))

    def __getattr__(self, name):
        data = object.__getattribute__(self, "_data")
        if name in data:
            return data[name]
        real = object.__getattribute__(self, "_real")
        if name in ("debug_log", "info_log", "warning_log", "error_log"):
            return lambda *a, **k: None          # logging is dropped by the verifier (A-DROP)
        try:
            attr = inspect.getattr_static(real, name)
            if type(attr).__name__ in ("member_descriptor", "getset_descriptor"):
                raise AttributeError(name)       # an unset __slots__ field
        except AttributeError:
            if name.startswith("__") and name.endswith("__"):
                raise
            child = Rec(object.__getattribute__(self, "_name") + "." + name)
            data[name] = child
            return child
        if isinstance(attr, property):
            return attr.fget(self)
        if isinstance(attr, staticmethod):
            return attr.__func__
        if isinstance(attr, classmethod):
            return types.MethodType(attr.__func__, real)
        if inspect.isfunction(attr):
            fn = attr
            key = "%s.%s" % (real.__name__, name)

            def bound(*a, **k):
                if key in REQUIRES:
                    check_requires(key, self, a, k)
                return fn(self, *a, **k)
            return bound
        return attr

    def __setattr__(self, name, value):
        real = object.__getattribute__(self, "_real")
        if name in ("debug_log", "info_log", "warning_log", "error_log"):
            return lambda *a, **k: None          # logging is dropped by the verifier (A-DROP)
        try:
            attr = inspect.getattr_static(real, name)
            if type(attr).__name__ in ("member_descriptor", "getset_descriptor"):
                raise AttributeError(name)       # an unset __slots__ field
        except AttributeError:
            attr = None
        if isinstance(attr, property) and attr.fset is not None:
            attr.fset(self, value)
            return
        object.__getattribute__(self, "_data")[name] = value

    def __repr__(self):
        return "<Proxy %s %s>" % (object.__getattribute__(self, "_real").__name__,
                                  object.__getattribute__(self, "_name"))


CALL_HOOKS = {}
REAL_CLASSES = {}
STUBS = {}          # class name -> native stand-in with behaviour (from replay/<pid>.py)
REQUIRES = {}      # contract key -> {"params": [...], "requires": [{label,text}], "lets": {...}}
VIOLATIONS = []
NATIVE_ENV = {}


def check_requires(key, recv, args, kwargs):
    spec = REQUIRES.get(key)
    if not spec:
        return
    env = dict(NATIVE_ENV)
    names = spec["params"]
    for i, a in enumerate(args):
        if i < len(names):
            env[names[i]] = a
    for k, v in kwargs.items():
        env[k] = v
    for nm in names:
        env.setdefault(nm, spec.get("defaults", {}).get(nm))
    if recv is not None:
        env["self"] = recv
    for cl in spec["requires"]:
        try:
            ok = bool(native_eval(cl["text"], env))
            err = None
        except TypeError as e:      # an unordered comparison (e.g. None <= 1): the value is not within limits
            ok, err = False, "TypeError: %s" % e
        except Exception as e:      # noqa
            ok, err = None, "%s: %s" % (type(e).__name__, e)
        if ok is not True:
            VIOLATIONS.append({"callee": key, "label": cl["label"], "text": cl["text"], "value": ok, "error": err,
                               "args": jsonable(args), "kwargs": jsonable(kwargs)})


def build(v, path="?"):
    if isinstance(v, list):
        return [build(x, path + "[]") for x in v]
    if not isinstance(v, dict):
        return v
    if "$float" in v:
        n, d = v["$float"]
        return float(fractions.Fraction(n, d))
    if "$float_approx" in v:
        return float(v["$float_approx"].rstrip("?"))
    if "$bytes" in v:
        return bytes(v["$bytes"])
    if "$tuple" in v:
        items = [build(x, path) for x in v["$tuple"]]
        if v.get("$nt"):
            import collections
            return collections.namedtuple(v["$nt"], v["$fields"])(*items)
        return tuple(items)
    if "$dict" in v:
        out = {}
        for k, x in v["$dict"]:
            kk = build(k, path) if isinstance(k, dict) else (tuple(k) if isinstance(k, list) else k)
            out[kk] = build(x, path)
        return out
    if "$set" in v:
        return set(build(x, path) for x in v["$set"])
    if "$kwargs" in v:
        return {k: build(x, path) for k, x in v["$kwargs"].items()}
    if "$ref" in v:
        return OBJS.get(v["$ref"])
    if "$obj" in v:
        name = v.get("$name", path)
        if v.get("$kind") == "rec":
            d = {}
            OBJS[v["$id"]] = d
            for k, x in v["fields"].items():
                d[k] = build(x, name + "." + k)
            return d
        cls = REAL_CLASSES.get(v["$obj"])
        if v["$obj"] in STUBS:
            o = STUBS[v["$obj"]](name, LOG)
            OBJS[v["$id"]] = o
            for k, x in v["fields"].items():
                if k in ("pending", "epoch") and v["$obj"] == "DelayManager":
                    continue
                setattr(o, k, build(x, name + "." + k))
            return o
        if cls is not None:
            o = Proxy(cls, {}, name)
            OBJS[v["$id"]] = o
            data = object.__getattribute__(o, "_data")
        else:
            o = Rec(name, cls=v["$obj"])
            OBJS[v["$id"]] = o
            data = object.__getattribute__(o, "_fields")
        for k, x in v["fields"].items():
            if k in ("pending", "epoch") and v["$obj"] == "DelayManager":
                continue
            data[k] = build(x, name + "." + k)
        return o
    if "$opaque" in v:
        if v["$opaque"] in STUBS:
            key = (v["$opaque"], v["id"])
            if key not in OBJS:
                OBJS[key] = STUBS[v["$opaque"]](v["id"], LOG, {k: build(x, path) for k, x in (v.get("ghost") or {}).items()})
            return OBJS[key]
        if v["$opaque"] == "Kwargs":
            if (v.get("ghost") or {}).get("empty"):
                return {}
            return {"__kw__": v["id"]}
        return OpaqueVal(v["$opaque"], v["id"])
    if "$method" in v:
        return ("$method", v["$method"], v.get("of"))
    if "$cls" in v or "$fn" in v or "$exc" in v or "$unknown" in v or "$partial" in v or "$map" in v:
        return Rec(path)
    return v


class OpaqueVal:
    _cb_log = []

    def __init__(self, sort, ident):
        self.sort = sort
        self.ident = ident

    def __call__(self, *a, **k):
        ent = {"path": "callback:%s" % self.ident, "cls": None, "method": "__call__", "fn": self, "args": a,
               "kwargs": k}
        hook = NATIVE_ENV.get("__state_hook__")
        if hook is not None:
            try:
                ent["state"] = hook()
            except Exception:       # noqa
                pass
        LOG.append(ent)
        return None

    def __eq__(self, o):
        return isinstance(o, OpaqueVal) and o.sort == self.sort and o.ident == self.ident

    def __hash__(self):
        return hash((self.sort, self.ident))

    def __repr__(self):
        return "<%s %s>" % (self.sort, self.ident)


def jsonable(v, depth=0):
    if depth > 6:
        return "..."
    if isinstance(v, (str, int, bool, type(None))):
        return v
    if isinstance(v, float):
        return v
    if isinstance(v, bytes):
        return {"$bytes": list(v)}
    if isinstance(v, tuple) and hasattr(v, "_fields"):
        return {"$nt": type(v).__name__, **{f: jsonable(getattr(v, f), depth + 1) for f in v._fields}}
    if isinstance(v, (list, tuple, set)):
        return [jsonable(x, depth + 1) for x in v]
    if isinstance(v, dict):
        return {str(k): jsonable(x, depth + 1) for k, x in v.items()}
    return repr(v)


# ------------------------------------------------------------------ native clause evaluation
class _Rewrite(ast.NodeTransformer):
    def __init__(self, olds):
        self.olds = olds

    def visit_Call(self, n):
        self.generic_visit(n)
        if isinstance(n.func, ast.Name):
            if n.func.id == "implies" and len(n.args) == 2:
                return ast.BoolOp(op=ast.Or(), values=[ast.UnaryOp(op=ast.Not(), operand=n.args[0]), n.args[1]])
            if n.func.id == "ite" and len(n.args) == 3:
                return ast.IfExp(test=n.args[0], body=n.args[1], orelse=n.args[2])
            if n.func.id == "old":
                key = ast.unparse(n.args[0])
                return ast.Subscript(value=ast.Name(id="__old__", ctx=ast.Load()),
                                     slice=ast.Constant(value=key), ctx=ast.Load())
        return n


def old_exprs(clause):
    out = []
    for n in ast.walk(ast.parse(clause, mode="eval")):
        if isinstance(n, ast.Call) and isinstance(n.func, ast.Name) and n.func.id == "old":
            out.append(ast.unparse(n.args[0]))
    return out


def native_eval(clause, env, olds=None):
    tree = ast.parse(clause.strip(), mode="eval")
    tree = ast.fix_missing_locations(_Rewrite(olds or {}).visit(tree))
    e = dict(env)
    e["__old__"] = olds or {}
    return eval(compile(tree, "<clause>", "eval"), e)


def main():
    spec = json.load(sys.stdin)
    out = {"ok": False}
    try:
        modname = spec["file"][:-3].replace("/", ".")
        mod = importlib.import_module(modname)
        parts = spec["qualname"].split(".")
        is_setter = parts[-1].endswith("@setter")
        if is_setter:
            parts[-1] = parts[-1][:-len("@setter")]
        for cname, cfile in spec.get("real_classes", {}).items():
            try:
                m2 = importlib.import_module(cfile[:-3].replace("/", "."))
                REAL_CLASSES[cname] = getattr(m2, cname)
            except Exception as e:      # noqa
                out.setdefault("warnings", []).append("class %s: %s" % (cname, e))
        target = mod
        owner = None
        for p in parts:
            owner = target
            target = inspect.getattr_static(target, p) if inspect.isclass(target) else getattr(target, p)
        if isinstance(target, property):
            target = target.fset if is_setter else target.fget
        if isinstance(target, (staticmethod, classmethod)):
            target = target.__func__
        if hasattr(target, "cache_info") and hasattr(target, "__wrapped__"):
            target = target.__wrapped__         # functools.lru_cache: run the function itself
        for r in spec.get("ext_returns", []):
            RETURNS.setdefault(r["callee"].split(".")[-1], []).append(build(r["value"]))
        helpers = {}
        pid = spec.get("pid")
        hm = None
        if pid:
            try:
                sys.path.insert(0, os.path.dirname(os.path.dirname(os.path.abspath(__file__))))
                hm = importlib.import_module("replay.%s" % pid)
                if hasattr(hm, "native_stubs"):
                    STUBS.update(hm.native_stubs())
            except ModuleNotFoundError:
                hm = None
        params = {k: build(v, k) for k, v in spec["params"].items()}
        # native helper twins for the property, if any
        if hm is not None:
            helpers = hm.native_helpers(LOG, params, spec)
        fn_args = inspect.getfullargspec(target)
        call_args = []
        call_kwargs = {}
        for nm in fn_args.args:
            if nm in params:
                call_args.append(params[nm])
        for nm in fn_args.kwonlyargs:
            if nm in params:
                call_kwargs[nm] = params[nm]
        if fn_args.varkw and fn_args.varkw in params and isinstance(params[fn_args.varkw], dict):
            call_kwargs.update(params[fn_args.varkw])
        env0 = dict(params)
        env0.update(helpers)
        env0["this"] = params.get("self")
        NATIVE_ENV.update(helpers)
        NATIVE_ENV["this"] = params.get("self")
        REQUIRES.update(spec.get("requires_of", {}))
        olds = {}
        for cl in spec.get("clauses", []):
            for oe in old_exprs(cl["text"]):
                try:
                    olds[oe] = eval(oe, dict(env0))
                except Exception as e:      # noqa
                    olds[oe] = None
        lets = {}
        for nm, text in (spec.get("lets") or {}).items():
            try:
                lets[nm] = native_eval(text, env0)
            except Exception as e:      # noqa
                out.setdefault("warnings", []).append("let %s: %s" % (nm, e))
        env0.update(lets)
        pre_evals = {}
        for cl in spec.get("clauses", []):
            if cl.get("when") == "raise-pre":
                try:
                    pre_evals[cl["label"]] = bool(native_eval(cl["text"], env0))
                except Exception as e:      # noqa
                    pre_evals[cl["label"]] = "error: %s" % e
        observed = {}
        try:
            if inspect.iscoroutinefunction(target):
                import asyncio
                res = asyncio.new_event_loop().run_until_complete(target(*call_args, **call_kwargs))
            else:
                res = target(*call_args, **call_kwargs)
            observed["outcome"] = "return"
            observed["value"] = jsonable(res)
            env0["result"] = res
        except BaseException as e:      # noqa
            observed["outcome"] = "raise"
            observed["exception"] = type(e).__name__
            observed["mro"] = [c.__name__ for c in type(e).__mro__]
            observed["message"] = str(e)[:300]
            env0["result"] = None
        observed["calls"] = [{"path": c["path"], "args": jsonable(c["args"]), "kwargs": jsonable(c["kwargs"])}
                             for c in LOG]
        out["observed"] = observed
        evals = []
        for cl in spec.get("clauses", []):
            r = {"label": cl["label"], "text": cl["text"]}
            if cl.get("when") == "raise-pre":
                if isinstance(pre_evals.get(cl["label"]), bool):
                    r["value"] = pre_evals[cl["label"]]
                else:
                    r["error"] = str(pre_evals.get(cl["label"]))
            if cl.get("when") == "post" and observed.get("outcome") == "return":
                try:
                    r["value"] = bool(native_eval(cl["text"], env0, olds))
                except Exception as e:      # noqa
                    r["error"] = "%s: %s" % (type(e).__name__, e)
            evals.append(r)
        out["clauses"] = evals
        out["violations"] = VIOLATIONS
        out["ok"] = True
    except BaseException as e:      # noqa
        import traceback
        out["error"] = "%s: %s" % (type(e).__name__, e)
        out["traceback"] = traceback.format_exc()[-2000:]
    json.dump(out, sys.stdout, default=repr)


if __name__ == "__main__":
    main()
