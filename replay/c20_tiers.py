"""C20, bounded native check of Credits._calculate_pricing_tiers (the pricing table is an ASSUMED input of the deductive
contracts on _add_credit_units): for every small tier configuration the table, summed up, gives at each tier point exactly
the credits that tier promises, never a negative step, and nothing for money below the first tier beyond the plain price.

Run with /venv/bin/python and PYTHONPATH=<tree>.  Exit 0 = holds for every configuration enumerated; prints the first
failing configuration otherwise.  BOUNDED: credit_unit 0.25; 1-2 games per price unit; up to 2 tiers with prices up to
12 credit units; each tier gives at least what the plain price gives and a
higher tier is at least as good a rate as the one below it (a config where paying more buys a worse rate lowers the balance at
the tier point - configuration error, not decided here)."""
import itertools
import sys
import types


class T:
    def __init__(self, v):
        self.v = v

    def evaluate(self, _):
        return self.v


def main():
    from mpf.modes.credits.code.credits import Credits
    unit = 0.25
    n = 0
    for upg in (1, 2, 4):                        # credit units per game
        base_price_units = upg                   # one game costs upg units
        tiers_space = []
        for pu in range(base_price_units, 13):   # tier price in units
            for extra in range(0, 3):            # bonus credits on top of what the plain price gives
                plain = pu // upg
                if plain < 1 or (plain + extra) * upg < pu:
                    continue                     # a tier never buys less than the money is worth at the plain price
                tiers_space.append((pu, plain + extra))
        configs = [[t] for t in tiers_space] + [[a, b] for a, b in itertools.product(tiers_space, repeat=2)
                                                 if b[0] > a[0] and b[1] * a[0] >= a[1] * b[0]]     # a higher tier is at
        #                                                                 least as good a rate as the one below it
        for tiers in configs:
            sets = {}
            fake = types.SimpleNamespace(
                credits_config={"pricing_tiers": [{"price": T(pu * unit), "credits": T(cr)} for pu, cr in tiers],
                                "price_tier_template": "{price} {credits}"},
                credit_unit=unit, credit_units_per_game=upg, pricing_table=None, pricing_tiers_wrap_around=None,
                machine=types.SimpleNamespace(variables=types.SimpleNamespace(
                    set_machine_var=lambda k, v: sets.__setitem__(k, v))),
                warning_log=lambda *a, **k: None, debug_log=lambda *a, **k: None)
            Credits._calculate_pricing_tiers(fake)
            n += 1
            table, wrap = fake.pricing_table, fake.pricing_tiers_wrap_around
            what = "units/game=%d tiers(price units, credits)=%s" % (upg, tiers)
            if wrap != tiers[-1][0]:
                print("FAIL wrap-around %s is not the highest tier price: %s" % (wrap, what))
                return 1
            if sorted(table) != list(range(0, wrap + 1)):
                print("FAIL the table does not cover 0..wrap: %s %s" % (sorted(table), what))
                return 1
            total = 0
            cum = {}
            for u in range(0, wrap + 1):
                total += table[u]
                cum[u] = total
            # the highest tier, paid in full from zero, yields exactly its credits
            pu, cr = tiers[-1]
            if pu + cum[pu] != cr * upg:
                print("FAIL paying tier %s in full yields %s units instead of %s: %s" % ((pu, cr), pu + cum[pu], cr * upg, what))
                return 1
            # a lower tier, paid in full from zero, yields at least its credits (the greedy split never loses a bonus)
            for pu, cr in tiers[:-1]:
                if pu + cum[pu] < cr * upg:
                    print("FAIL paying tier %s in full yields %s units, less than %s: %s" % ((pu, cr), pu + cum[pu], cr * upg,
                                                                                              what))
                    return 1
            for u in range(1, wrap + 1):
                if u + cum[u] < (u - 1) + cum[u - 1]:
                    print("FAIL inserting the %dth unit LOWERS the balance (%s -> %s): %s" % (u, u - 1 + cum[u - 1], u + cum[u],
                                                                                             what))
                    return 1
            if cum[0] != 0:
                print("FAIL bonus for no money: %s" % what)
                return 1
    print("ok: %d tier configurations" % n)
    return 0


if __name__ == "__main__":
    sys.exit(main())
