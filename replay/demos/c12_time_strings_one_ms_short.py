"""C12 finding 1: time strings are truncated, not evaluated to value * unit.

Util.string_to_ms() computes int(float(value) * factor). The binary floating
point product is frequently a hair below the exact result and int() truncates,
so e.g. "2.01s" becomes 2009 ms instead of 2010 ms, "0.03m" becomes 1799 ms and
"0.7d" loses a millisecond as well. string_to_secs() inherits the error
("1.001" secs -> 1.0).  The same happens through the ms/secs validators.
"""
import unittest
from decimal import Decimal

from mpf.core.config_validator import ValidationPath
from mpf.core.utility_functions import Util
from mpf.tests.MpfTestCase import MpfTestCase


class TimeStringDemo(MpfTestCase):

    def get_config_file(self):
        return 'test_config_interface.yaml'

    def get_machine_path(self):
        return 'tests/machine_files/config_interface/'

    def setUp(self):
        self.machine_spec_patches['test_section'] = dict(__valid_in__='machine')
        super().setUp()

    def _validate(self, spec, item):
        vfi = ValidationPath(ValidationPath(ValidationPath(None, "section"), "entry"), "key")
        return self.machine.config_validator.validate_config_item(spec.split("|"), vfi, item)

    def test_util_value_times_unit(self):
        # value * unit, all of these products are exact integers of ms
        self.assertEqual(2010, Util.string_to_ms("2.01s"))          # 2009
        self.assertEqual(2010, Util.string_to_ms("2.01sec"))        # 2009
        self.assertEqual(1001, Util.string_to_ms("1.001s"))         # 1000
        self.assertEqual(1800, Util.string_to_ms("0.03m"))          # 1799
        self.assertEqual(4068000, Util.string_to_ms("1.13h"))       # 4067999
        self.assertEqual(60480000, Util.string_to_ms("0.7d"))       # 60479999

    def test_secs(self):
        self.assertEqual(1.001, Util.string_to_secs("1.001"))       # 1.0
        self.assertEqual(2.01, Util.string_to_secs("2.01s"))        # 2.009

    def test_through_validator(self):
        self.assertEqual(2010, self._validate("single|ms|0", "2.01s"))
        self.assertEqual(2.01, self._validate("single|secs|0", "2.01s"))
        self.assertEqual([1800], self._validate("list|ms|None", "0.03m"))

    def test_sweep(self):
        """Every value with <= 3 decimals and every accepted unit suffix."""
        units = {"s": 1000, "sec": 1000, "m": 60000, "h": 3600000, "d": 86400000}
        wrong = []
        for i in range(0, 5000):
            value = Decimal(i) / Decimal(1000)
            for suffix, factor in units.items():
                expected = value * factor
                if expected != int(expected):
                    continue
                got = Util.string_to_ms("{}{}".format(value, suffix))
                if got != int(expected):
                    wrong.append(("{}{}".format(value, suffix), got, int(expected)))
        self.assertEqual([], wrong[:10], "{} time strings evaluate to the wrong number of ms".format(len(wrong)))


if __name__ == "__main__":
    unittest.main()
