"""C17 finding 3: a show whose step uses two tokens in ONE key (e.g. the light name `led_(row)_(col)`) cannot
be played: token substitution raises KeyError, so none of its steps is ever executed.

Show._replace_token_keys() remembers replaced keys in `keys_replaced` so that the second token can find the key
that the first token already renamed ("check if key has been replaced before"), but it stores the entry under
`token_str` (the path prefix, e.g. "0-lights-") and looks it up under the original key text
(`keys_replaced.get(final_key, final_key)`).  The lookup therefore never hits, the second token looks for the
original key `led_(row)_(col)` which has already been renamed to `led_1_(col)`, and
    KeyError: Could not find token led_(row)_(col) ((col)) in {'led_1_(col)': ...}
is raised from RunningShow.__init__.

Two tokens in one VALUE (`color: (c1)(c2)`-style) and a single token in a key (`led_(num)`, used by MPF's own
tests) both work; only the multi token key is broken.
"""
import os
import shutil
import tempfile
import unittest

from mpf.tests.MpfTestCase import MpfTestCase

CONFIG = """\
#config_version=6
lights:
  led_1_2:
    number: 1
  led_7:
    number: 2
shows:
  one_token_key:
    - duration: 1
      lights:
        led_(num): red
    - duration: 1
  two_token_key:
    - duration: 1
      lights:
        led_(row)_(col): red
    - duration: 1
show_player:
  play_one:
    one_token_key:
      loops: 0
      show_tokens:
        num: 7
  play_two:
    two_token_key:
      loops: 0
      show_tokens:
        row: 1
        col: 2
      events_when_played: two_played
      events_when_completed: two_completed
"""


class Demo(MpfTestCase):

    def setUp(self):
        self._tmp = tempfile.mkdtemp(prefix="c17_f3_")
        os.makedirs(os.path.join(self._tmp, "config"))
        with open(os.path.join(self._tmp, "config", "config.yaml"), "w") as f:
            f.write(CONFIG)
        super().setUp()

    def tearDown(self):
        try:
            super().tearDown()
        finally:
            shutil.rmtree(self._tmp, ignore_errors=True)

    def get_config_file(self):
        return "config.yaml"

    def get_machine_path(self):
        return self._tmp

    def test_two_tokens_in_one_key(self):
        self.mock_event("two_played")
        self.mock_event("two_completed")

        # reference: one token in the key works
        self.post_event("play_one")
        self.advance_time_and_run(.5)
        self.assertLightColor("led_7", "red")

        # two tokens in the key: step 1 must run at t, the show must complete at t + 2
        self.post_event("play_two")
        self.advance_time_and_run(.5)          # <- KeyError from Show._replace_token_keys surfaces here
        self.assertEventCalled("two_played")
        self.assertLightColor("led_1_2", "red")
        self.advance_time_and_run(2)
        self.assertEventCalled("two_completed")
        self.assertLightColor("led_1_2", "black")


if __name__ == "__main__":
    unittest.main()
