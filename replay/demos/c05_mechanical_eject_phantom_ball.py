"""C05 finding 2: a ball was requested for a mechanical plunger (request_ball) and rests there, device idle.
The player plunges it onto the playfield ("mechanical eject during idle",
BallDevice.handle_mechanical_eject_during_idle). The ball is booked as available on the playfield, but it
is NOT removed from the plunger's own available_balls: the empty, idle plunger keeps available_balls == 1.
The next ball requested for the playfield is "served" by this phantom ball: only the empty plunger gets an
eject queued (state waiting_for_ball for ever); the trough, which has an available ball on the path
trough -> plunger -> playfield, is never asked."""
import unittest
from unittest.mock import MagicMock

from mpf.tests.MpfTestCase import MpfTestCase


class TestIdleManualPlungeLeavesPhantomBall(MpfTestCase):

    def get_config_file(self):
        return 'test_ball_device_manual_with_target.yaml'

    def get_machine_path(self):
        return 'tests/machine_files/ball_device/'

    def test_request_after_manual_plunge_of_idle_ball(self):
        coil1 = self.machine.coils['eject_coil1']
        trough = self.machine.ball_devices['test_trough']
        launcher = self.machine.ball_devices['test_launcher']
        playfield = self.machine.ball_devices['playfield']

        # two balls in the trough
        self.hit_switch_and_run("s_ball_switch1", 0)
        self.hit_switch_and_run("s_ball_switch2", 1)
        self.assertEqual(2, trough.balls)

        # manual request: one ball for the launcher (it keeps it)
        launcher.request_ball()
        self.advance_time_and_run(1)
        self.release_switch_and_run("s_ball_switch1", 1)
        self.hit_switch_and_run("s_ball_switch_launcher", 1)
        self.advance_time_and_run(10)
        self.assertEqual(1, launcher.balls)
        self.assertEqual("idle", launcher.state)

        # the player plunges the ball; it reaches the playfield
        self.release_switch_and_run("s_ball_switch_launcher", 1)
        self.hit_and_release_switch("s_playfield")
        self.advance_time_and_run(100)
        self.assertEqual(1, playfield.balls)
        self.assertEqual(0, launcher.balls)
        self.assertEqual("idle", launcher.state)
        self.assertEqual("idle", trough.state)
        self.assertEqual(1, trough.balls)
        self.assertEqual(1, trough.available_balls)

        # another ball is requested for the playfield (e.g. multiball add / ball save). The trough has an
        # available ball on the path, so it must be delivered. We move the ball when the trough coil fires.
        coil1.pulse = MagicMock()
        playfield.add_ball(1, player_controlled=False)
        self.advance_time_and_run(5)
        if coil1.pulse.call_count:
            self.release_switch_and_run("s_ball_switch2", 1)
            self.hit_switch_and_run("s_ball_switch_launcher", 1)
            self.release_switch_and_run("s_ball_switch_launcher", 1)
            self.hit_and_release_switch("s_playfield")
        self.advance_time_and_run(200)

        self.assertEqual(
            2, playfield.balls,
            "requested ball was never delivered: trough pulses={} trough.available_balls={} "
            "launcher.state={} launcher.balls={} launcher.requested_balls={}".format(
                coil1.pulse.call_count, trough.available_balls, launcher.state, launcher.balls,
                launcher.requested_balls))


if __name__ == '__main__':
    unittest.main()
