"""C02 finding 3: queue_event_player with `args` and `events_when_finished`: the queue event is posted with
**args and callback=partial(self._callback, events_when_finished, args). The event manager calls the
completion callback with the event's kwargs (callback(**kwargs)), but QueueEventPlayer._callback(self, event, s)
accepts no keyword arguments -> TypeError inside the queue task, events_when_finished is never posted.

Run: cd /tmp/hunt_C02 && PYTHONPATH=/tmp/hunt_C02 /venv/bin/python -W ignore demo.py
"""
import os
import tempfile
import unittest

from mpf.tests.MpfTestCase import MpfTestCase

CONFIG = """#config_version=6
queue_event_player:
    play_with_args:
      queue_event: queue_event_c
      events_when_finished: queue_event_c_finished
      args:
        foo: bar
"""


class TestQueueEventPlayerArgs(MpfTestCase):

    def get_config_file(self):
        return 'config.yaml'

    def get_machine_path(self):
        d = tempfile.mkdtemp()
        os.makedirs(os.path.join(d, 'config'))
        with open(os.path.join(d, 'config', 'config.yaml'), 'w') as f:
            f.write(CONFIG)
        return d

    def _handler(self, queue, **kwargs):
        del queue
        self.ran.append(kwargs)

    def test_finished_event_is_posted(self):
        self.ran = []
        self.mock_event("queue_event_c_finished")
        self.machine.events.add_handler("queue_event_c", self._handler)
        self.post_event("play_with_args")
        self.advance_time_and_run()
        # the handler ran with the configured args
        self.assertEqual([{"foo": "bar"}], self.ran)
        # all handlers ran, no waits -> the completion callback must fire and post events_when_finished
        self.assertEventCalledWith("queue_event_c_finished", foo="bar")


if __name__ == '__main__':
    unittest.main()
