"""C06 finding 2: an end-game request which arrives inside the game_starting queue event (before the first player has
been added) dead-locks the game mode. end_game() sets ending=True, _start_game() then calls request_player_add(),
which refuses because the game is ending, and afterwards waits for ever on _at_least_one_player_event. The game never
posts game_started/game_ended, the game mode stays active, attract is not restarted and no new game can be started.
"""
import os
import tempfile
import unittest

from mpf.tests.MpfFakeGameTestCase import MpfFakeGameTestCase

CONFIG = """#config_version=6
game:
    balls_per_game: 3
playfields:
    playfield:
        default_source_device: None
        tags: default
"""


class TestEndGameDuringGameStarting(MpfFakeGameTestCase):

    def get_config_file(self):
        return 'config.yaml'

    def get_machine_path(self):
        path = tempfile.mkdtemp(prefix="c06_f2_")
        os.makedirs(os.path.join(path, "config"))
        with open(os.path.join(path, "config", "config.yaml"), "w") as f:
            f.write(CONFIG)
        return path

    def _rec(self, ev, **kwargs):
        self.events.append(ev)

    def _game_starting(self, **kwargs):
        if self.end_in_game_starting:
            self.end_in_game_starting = False
            # the documented end_game_event of the game config (default: end_game). game.end_game() (as called by
            # ball search) or a slam tilt + end behave the same
            self.machine.events.post("end_game")

    def test_end_game_inside_game_starting(self):
        self.events = []
        for ev in ("game_will_start", "game_starting", "game_started", "game_will_end", "game_ending", "game_ended"):
            self.machine.events.add_handler(ev, self._rec, ev=ev)
        self.end_in_game_starting = True
        self.machine.events.add_handler("game_starting", self._game_starting)

        self.machine.playfield.add_ball = lambda **kwargs: None
        self.machine.ball_controller.num_balls_known = 3

        self.assertModeRunning("attract")
        self.hit_and_release_switch("s_start")
        self.advance_time_and_run(60)
        print("events after one minute:", self.events)

        # "... then end; after the game has ended no game is active and a new one can start"
        # the end was requested, so one minute later the game must be over
        self.assertIsNone(self.machine.game, "game is still active one minute after end_game was requested: {}".format(
            self.events))
        self.assertModeNotRunning("game")
        self.assertModeRunning("attract")

        # and a new game can start
        self.hit_and_release_switch("s_start")
        self.advance_time_and_run(5)
        self.assertIsNotNone(self.machine.game)
        self.assertEqual(1, self.machine.game.num_players)


if __name__ == '__main__':
    unittest.main()
