"""C13 finding 4: Timer._setup_control_events leaks the kwargs of a previous
control_events entry (`kwargs = {}` is initialised once, outside the loop) into the
following start/stop/reset/restart entries. A `reset` or `restart` control event that is
listed after any valued entry (add/subtract/jump/pause/set_tick_interval/...) is registered
with timer_value=<that value>; when it is posted, reset(timer_value=..) ->
jump(self.start_value, timer_value=..) raises TypeError inside the event handler: the
timer is not reset and MPF goes down with an EventHandlerException.

Run: cd /tmp/hunt_C13 && PYTHONPATH=/tmp/hunt_C13 /venv/bin/python -W ignore demo.py
"""
import atexit
import os
import shutil
import tempfile
import unittest

from mpf.tests.MpfTestCase import MpfTestCase

MACHINE = tempfile.mkdtemp(prefix="c13_f4_")
atexit.register(shutil.rmtree, MACHINE, True)
os.makedirs(os.path.join(MACHINE, "config"))
os.makedirs(os.path.join(MACHINE, "modes", "m1", "config"))
with open(os.path.join(MACHINE, "config", "config.yaml"), "w") as f:
    f.write("#config_version=6\nmodes:\n  - m1\n")
with open(os.path.join(MACHINE, "modes", "m1", "config", "m1.yaml"), "w") as f:
    f.write("""#config_version=6
mode:
    start_events: hello
    stop_events: bye
    game_mode: false
timers:
    t1:
        start_value: 0
        end_value: 10
        tick_interval: 1s
        control_events:
            - event: t1_start
              action: start
            - event: t1_jump
              action: jump
              value: 5
            - event: t1_reset
              action: reset
""")


class ResetAfterValuedControlEvent(MpfTestCase):

    def get_config_file(self):
        return "config.yaml"

    def get_machine_path(self):
        return MACHINE

    def test_reset_control_event(self):
        self.post_event("hello")
        self.advance_time_and_run(.1)
        timer = self.machine.timers["t1"]

        self.post_event("t1_start")
        self.advance_time_and_run(3.5)
        self.assertTrue(timer.running)
        self.assertEqual(3, timer.ticks)

        # reset = jump to start_value, keeps running
        self.post_event("t1_reset")
        self.advance_time_and_run(.1)
        self.assertEqual(0, timer.ticks)
        self.assertTrue(timer.running)

        # and keeps ticking once per interval, counted from the reset
        self.advance_time_and_run(2)
        self.assertEqual(2, timer.ticks)


if __name__ == "__main__":
    unittest.main()
