"""C16 finding 1: tuple expressions do not evaluate to the Python tuple.

BasePlaceholderManager._eval_tuple returns ``tuple([self._eval(x) ...])``, i.e. a
tuple of (value, subscriptions) PAIRS, instead of the (value, subscriptions) pair
every other _eval_* method returns.  evaluate_template() then takes element [0]
of that, so "(1, 2)" evaluates to ``(1, [])``; evaluate_and_subscribe unpacks the
pairs as value/subscriptions and crashes (AttributeError / "too many values to
unpack").

Run: cd /tmp/hunt_C16 && PYTHONPATH=/tmp/hunt_C16 /venv/bin/python -W ignore demo.py
"""
import unittest

from mpf.tests.MpfTestCase import MpfTestCase


class TupleTemplateDemo(MpfTestCase):

    def get_config_file(self):
        return 'null.yaml'

    def get_machine_path(self):
        return 'tests/machine_files/null/'

    def test_tuple_evaluates_like_python(self):
        pm = self.machine.placeholder_manager
        for expr, params in [
            ("(1, 2)", {}),
            ("(1, 2, 3)", {}),
            ("(a, b)", {"a": 1, "b": 2}),
            ("(a + 1, b * 2, a < b)", {"a": 1, "b": 2}),
            ("(a,)", {"a": "x"}),
            ("(a, b) if a else (b, a)", {"a": 0, "b": 2}),
        ]:
            expected = eval(expr, {}, dict(params))     # Python's own semantics
            template = pm.build_raw_template(expr, "DEFAULT")
            self.assertEqual(expected, template.evaluate(params),
                             "template {!r} over {!r}".format(expr, params))

    def test_tuple_of_machine_vars(self):
        pm = self.machine.placeholder_manager
        self.machine.variables.set_machine_var("a", 1)
        self.machine.variables.set_machine_var("b", 2)
        self.advance_time_and_run(.1)
        template = pm.build_raw_template("(machine.a, machine.b)", "DEFAULT")
        self.assertEqual((1, 2), template.evaluate({}))

    def test_tuple_with_subscription(self):
        pm = self.machine.placeholder_manager
        self.machine.variables.set_machine_var("a", 1)
        self.machine.variables.set_machine_var("b", 2)
        self.advance_time_and_run(.1)
        template = pm.build_raw_template("(machine.a, machine.b)", "DEFAULT")
        # crashes on the unmodified tree
        value, future = template.evaluate_and_subscribe({})
        self.assertEqual((1, 2), value)
        self.assertFalse(future.done())
        # the second element was read, so a change of it has to notify
        self.machine.variables.set_machine_var("b", 7)
        self.advance_time_and_run(.1)
        self.assertTrue(future.done())
        value, future = template.evaluate_and_subscribe({})
        self.assertEqual((1, 7), value)


if __name__ == "__main__":
    unittest.main()
