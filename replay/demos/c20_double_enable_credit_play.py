from mpf.tests.MpfTestCase import MpfTestCase
import unittest

class T(MpfTestCase):
    def get_config_file(self):
        return 'config.yaml'
    def get_machine_path(self):
        return 'tests/machine_files/credits/'
    def test_double_enable(self):
        self.assertEqual("CREDITS 0", self.machine.variables.get_machine_var('credits_string'))
        self.post_event("enable_credit_play")
        self.advance_time_and_run()
        self.hit_and_release_switch("s_left_coin")
        self.advance_time_and_run()
        assert self.machine.variables.get_machine_var("credit_units") == 1, self.machine.variables.get_machine_var("credit_units")
        print("after ONE quarter:", self.machine.variables.get_machine_var('credits_string'), self.machine.variables.get_machine_var('credit_units'))
        print("earnings:", self.machine.modes["credits"].earnings)
unittest.main()
