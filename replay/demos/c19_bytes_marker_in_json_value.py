"""C19 finding 3: the '&bytes=' payload marker is not escaped in JSON-mode lines (nor reserved as a parameter name),
so read_message() mis-frames ordinary commands.

As soon as one parameter is a list or dict, encode_command_string() emits `cmd?json=<json.dumps(kwargs)>` and the
JSON text is NOT percent-encoded.  json.dumps() leaves '&' and '=' alone, so a string value that contains
"&bytes=" appears literally in the line.  BCPClientSocket.read_message() (and AsyncioBcpClientSocket.read_message())
decide on `BYTE_MARKER in message` whether a binary payload follows: they cut the line at the marker and call
int() on the rest -> ValueError inside the receive loop (the command is never dispatched, the exception escapes
BcpTransportManager._receive_loop which only catches OSError).

The same collision exists in the non-JSON form for a parameter that is simply *named* "bytes" (and is not the
first parameter): `trigger?name=x&bytes=7` is an ordinary command with two string parameters, but the receiver
takes the next 7 bytes of the stream (the beginning of the NEXT command) as a binary payload.
"""
import asyncio
import unittest

from mpf.core.bcp.bcp_socket_client import decode_command_string, encode_command_string, AsyncioBcpClientSocket
from mpf.tests.MpfTestCase import MpfTestCase
from mpf.tests.loop import MockQueueSocket


class MockBcpQueueSocket(MockQueueSocket):

    def send(self, data):
        if data == b'reset\n':
            self.recv_queue.append(b'reset_complete\n')
            return len(data)
        return super().send(data)


class TestEndToEnd(MpfTestCase):

    def __init__(self, methodName='runTest'):
        super().__init__(methodName)
        self.machine_config_patches['bcp'] = {}
        self.machine_config_patches['bcp']['servers'] = []

    def get_use_bcp(self):
        return True

    def _mock_loop(self):
        self.client_socket = MockBcpQueueSocket(self.loop)
        self.clock.mock_socket("localhost", 5050, self.client_socket)

    def _send_and_collect(self, sent, chunk):
        received = []

        async def callback(client, **kwargs):
            del client
            received.append(kwargs)

        self.machine.bcp.interface.register_command_callback("my_cmd", callback)
        stream = b''
        for kwargs in sent:
            line = encode_command_string("my_cmd", **kwargs)
            self.assertNotIn("\n", line)
            # sanity: the line itself decodes fine - it is the FRAMING which breaks
            self.assertEqual(("my_cmd", kwargs), decode_command_string(line))
            stream += (line + "\n").encode()

        for i in range(0, len(stream), chunk):
            self.client_socket.recv_queue.append(stream[i:i + chunk])
        error = None
        try:
            self.advance_time_and_run(1)
        except Exception as e:      # pylint: disable-msg=broad-except
            error = e
        return received, error

    def test_json_mode_string_containing_marker(self):
        sent = [{"items": [1, 2], "text": "first"},
                {"items": [1, 2], "text": "a&bytes=3"},       # no payload attached: just a string
                {"items": [], "text": "last"}]
        received, error = self._send_and_collect(sent, 11)
        self.assertEqual(sent, received, "receive loop died with {!r}".format(error))

    def test_parameter_named_bytes(self):
        sent = [{"name": "first", "bytes": "7"},        # two ordinary string parameters
                {"name": "second"},
                {"name": "third"}]
        received, error = self._send_and_collect(sent, 9)
        self.assertEqual(sent, received, "receive loop error: {!r}".format(error))


class TestAsyncioClient(unittest.TestCase):

    """Same with the stand-alone AsyncioBcpClientSocket (the class used by MPF's own tools to talk to MPF)."""

    def test_json_mode_string_containing_marker(self):
        sent = ("my_cmd", {"items": [1, 2], "text": "a&bytes=3"})

        async def run():
            reader = asyncio.StreamReader()
            client = AsyncioBcpClientSocket(None, reader)
            data = (encode_command_string(sent[0], **sent[1]) + "\n").encode()
            for i in range(0, len(data), 4):
                reader.feed_data(data[i:i + 4])
            reader.feed_eof()
            return await client.read_message()

        try:
            result = asyncio.run(run())
        except Exception as e:      # pylint: disable-msg=broad-except
            result = e
        self.assertEqual(sent, result)


if __name__ == '__main__':
    unittest.main()
