"""C11 finding 1: a variable_player entry addressed to a player who does not exist changes the CURRENT player.

variable_player entries may carry ``player: N``.  When player N is not part of the game (e.g. a
``player: 2`` entry in a one player game, or ``player: 3`` in a two player game) the code logs
"Failed to set player var ..." - and then carries on and applies the add/set to the player whose turn it is.
"""
import os
import tempfile
import textwrap
import unittest

from mpf.tests.MpfFakeGameTestCase import MpfFakeGameTestCase

MACHINE = tempfile.mkdtemp(prefix="c11_f1_")
os.makedirs(os.path.join(MACHINE, "config"))
os.makedirs(os.path.join(MACHINE, "modes", "mode1", "config"))
with open(os.path.join(MACHINE, "config", "config.yaml"), "w") as f:
    f.write(textwrap.dedent("""\
        #config_version=6
        game:
          balls_per_game: 3
        switches:
          s_start:
            number:
            tags: start
        modes:
          - mode1
        """))
with open(os.path.join(MACHINE, "modes", "mode1", "config", "mode1.yaml"), "w") as f:
    f.write(textwrap.dedent("""\
        #config_version=6
        mode:
          start_events: ball_starting
        variable_player:
          bonus_for_player3:
            score:
              int: 1000
              player: 3
          set_for_player3:
            progress:
              int: 7
              player: 3
              action: set
        """))


class Demo(MpfFakeGameTestCase):

    def get_config_file(self):
        return "config.yaml"

    def get_machine_path(self):
        return MACHINE

    def test_entry_for_missing_player_changes_nobody(self):
        events = []
        self.machine.events.add_handler("player_score", lambda **kwargs: events.append(kwargs))
        self.start_game()
        self.add_player()            # two players, there is no player 3
        self.assertEqual(2, self.machine.game.num_players)
        self.assertPlayerNumber(1)
        p1, p2 = self.machine.game.player_list
        p1.score = 50
        p1.progress = 1
        self.advance_time_and_run()
        events.clear()

        self.post_event("bonus_for_player3")
        self.post_event("set_for_player3")
        self.advance_time_and_run()

        # nothing of player 1 (or 2) may change: the entries belong to player 3
        self.assertEqual([], [(e["player_num"], e["value"]) for e in events],
                         "a player_score event was posted for a player the entry was not addressed to")
        self.assertEqual(0, p2.score)
        self.assertEqual(50, p1.score, "player 1 received the score that was addressed to player 3")
        self.assertEqual(1, p1.progress, "player 1's variable was overwritten by an entry addressed to player 3")


if __name__ == "__main__":
    unittest.main()
