"""C01 finding 1: the completion callback of a queue event runs BEFORE the events its handlers posted are dispatched."""
import unittest
from mpf.tests.MpfTestCase import MpfTestCase


class QueueCallbackBeforeTransitivePosts(MpfTestCase):

    def get_config_file(self):
        return 'test_event_manager.yaml'

    def get_machine_path(self):
        return 'tests/machine_files/event_manager/'

    def test_plain_event_reference(self):
        """Reference: for a plain event the callback runs after the transitively posted event (passes)."""
        log = []
        ev = self.machine.events

        def h_e(**kwargs):
            log.append("handler_E")
            ev.post("X")

        ev.add_handler("E", h_e)
        ev.add_handler("X", lambda **kwargs: log.append("handler_X"))
        ev.post("E", callback=lambda **kwargs: log.append("callback_E"))
        self.advance_time_and_run(1)
        self.assertEqual(["handler_E", "handler_X", "callback_E"], log)

    def test_queue_event(self):
        """Same program with a queue event (no handler even registers a wait)."""
        log = []
        ev = self.machine.events

        def h_q(**kwargs):
            log.append("handler_Q")
            ev.post("X")

        ev.add_handler("Q", h_q)
        ev.add_handler("X", lambda **kwargs: log.append("handler_X"))
        ev.post_queue("Q", callback=lambda **kwargs: log.append("callback_Q"))
        self.advance_time_and_run(1)
        # everything was delivered exactly once ...
        self.assertEqual(["callback_Q", "handler_Q", "handler_X"], sorted(log))
        # ... but the callback must run only after everything the handlers of Q posted has been dispatched
        self.assertEqual(["handler_Q", "handler_X", "callback_Q"], log)


if __name__ == '__main__':
    unittest.main()
