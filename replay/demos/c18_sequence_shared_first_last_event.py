"""C18 finding 1: a Sequence whose last step uses the same event as its first step advances TWO
steps on ONE event when it completes with reset_on_complete=true / disable_on_complete=false.

Sequence.setup_event_handlers registers one handler per (step, event) with priority=step, so for one
posted event the handler of the highest step runs first.  When that handler completes the sequence,
complete() -> reset() puts value back to 0 *synchronously*, and the still pending step-0 handler of the
very same event then sees value == 0 and advances again.
"""
import os
import tempfile
import unittest

from mpf.tests.MpfTestCase import MpfTestCase

CONFIG = """#config_version=6
sequences:
  seq:
    events:
      - ev_a
      - ev_b
      - ev_a
    reset_on_complete: true
    disable_on_complete: false
"""


class TestSequenceWrap(MpfTestCase):

    def get_config_file(self):
        return "config.yaml"

    def get_machine_path(self):
        d = tempfile.mkdtemp(prefix="c18_f1_")
        os.makedirs(os.path.join(d, "config"))
        with open(os.path.join(d, "config", "config.yaml"), "w") as f:
            f.write(CONFIG)
        return d

    def get_platform(self):
        return "virtual"

    def test_one_event_is_one_step(self):
        self.mock_event("logicblock_seq_hit")
        self.mock_event("logicblock_seq_complete")
        seq = self.machine.sequences["seq"]
        self.assertTrue(seq.enabled)

        self.post_event("ev_a")
        self.post_event("ev_b")
        self.assertEqual(2, seq.value)
        self.assertEqual(2, self._events["logicblock_seq_hit"])

        # third event completes the sequence; it resets (reset_on_complete) and stays enabled
        self.post_event("ev_a")
        self.assertEqual(1, self._events["logicblock_seq_complete"])

        # three events were posted -> three accepted hits, and the freshly reset sequence is at step 0
        self.assertEqual(3, self._events["logicblock_seq_hit"],
                         "one ev_a was counted as two hits")
        self.assertEqual(0, seq.value,
                         "sequence advanced into the next round on the event which completed it")

        # strict order: the next round needs ev_a, ev_b, ev_a again. ev_b, ev_a alone must not complete it
        self.post_event("ev_b")
        self.post_event("ev_a")
        self.assertEqual(1, self._events["logicblock_seq_complete"],
                         "second completion after only A,B,A,B,A (5 events for 2x3 steps)")


if __name__ == "__main__":
    unittest.main()
