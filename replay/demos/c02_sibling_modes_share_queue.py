"""C02 finding 2: Mode.start() keeps the QueuedEvent of the queue event which started the mode in
start_event_kwargs and posts it on mode_<name>_started. Every mode that is started by mode_<name>_started
re-posts that same object as `queue` on its own mode_<name>_starting queue event, and
_run_handlers_sequential re-uses a `queue` kwarg instead of creating a QueuedEvent of its own. Two sibling
modes therefore run their mode_<x>_starting queue events concurrently on ONE shared QueuedEvent:
 - child_a's starting event (no waits at all) is blocked by the wait of child_b's handler, and overwrites
   queue.event,
 - when child_b's handler clears its wait only child_a's task is woken; child_b's mode_child_b_starting never
   completes (its _started callback never fires) - the mode is stuck in "starting" forever.
(If a handler of child_a's starting event also calls queue.wait() the machine crashes with "Double lock".)

Run: cd /tmp/hunt_C02 && PYTHONPATH=/tmp/hunt_C02 /venv/bin/python -W ignore demo.py
"""
import os
import tempfile
import unittest

from mpf.tests.MpfTestCase import MpfTestCase

CHILD = "#config_version=6\nmode:\n  game_mode: false\n  start_events: mode_base_started\n  priority: {}\n"


class TestSharedQueue(MpfTestCase):

    def get_config_file(self):
        return 'config.yaml'

    def get_machine_path(self):
        d = tempfile.mkdtemp()
        os.makedirs(os.path.join(d, 'config'))
        with open(os.path.join(d, 'config', 'config.yaml'), 'w') as f:
            f.write("#config_version=6\nmodes:\n  - base\n  - child_a\n  - child_b\n")
        modes = {
            # a plain mode which is started by a queue event (like a base mode on ball_starting)
            "base": "#config_version=6\nmode:\n  game_mode: false\n  start_events: outer_queue_event\n",
            "child_a": CHILD.format(100),
            "child_b": CHILD.format(200),     # higher priority: starts first
        }
        for name, content in modes.items():
            os.makedirs(os.path.join(d, 'modes', name, 'config'))
            with open(os.path.join(d, 'modes', name, 'config', name + '.yaml'), 'w') as f:
                f.write(content)
        return d

    def _outer_done(self, **kwargs):
        del kwargs

    def _child_b_starting(self, queue, **kwargs):
        """Waiting handler (e.g. what a queue_relay_player does to play an intro)."""
        del kwargs
        queue.wait()
        self.held = queue

    def _child_a_starting(self, **kwargs):
        """Handler without any wait."""
        del kwargs

    def test_sibling_mode_starts_do_not_share_waits(self):
        self.held = None
        self.machine.events.add_handler("mode_child_b_starting", self._child_b_starting)
        self.machine.events.add_handler("mode_child_a_starting", self._child_a_starting)

        self.machine.events.post_queue("outer_queue_event", callback=self._outer_done)
        self.advance_time_and_run(1)
        modes = self.machine.modes
        self.assertTrue(modes["base"].active)
        self.assertIsNotNone(self.held)
        self.assertTrue(modes["child_b"].starting)

        problems = []
        # mode_child_a_starting: all its handlers ran and none registered a wait -> callback must have fired
        if not modes["child_a"].active:
            problems.append("mode_child_a_starting is blocked by the wait of a handler of ANOTHER queue event")

        # clear the only wait of mode_child_b_starting -> its callback (Mode._started) must fire
        self.held.clear()
        self.advance_time_and_run(5)
        if not modes["child_b"].active:
            problems.append("mode_child_b_starting never completed although its only wait was cleared "
                            "(child_b.starting={}, tasks={})".format(modes["child_b"].starting,
                                                                     self.machine.events._queue_tasks))
        self.assertEqual([], problems)


if __name__ == '__main__':
    unittest.main()
