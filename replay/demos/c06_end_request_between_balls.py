"""C06 finding 3: an end-game request (end_game event / Game.end_game() as used by ball search / slam tilt) which
arrives between two balls - inside player_turn_will_start, the player_turn_starting queue event or player_turn_started -
is forgotten: end_game() sets ending=True and the end-ball flag, but the game loop does not look at `ending` before
it starts the ball and _run_ball() clears the end-ball flag. The next ball is started and played in full; the game only
ends when that ball drains.
"""
import os
import tempfile
import unittest

from mpf.tests.MpfFakeGameTestCase import MpfFakeGameTestCase

CONFIG = """#config_version=6
game:
    balls_per_game: 3
playfields:
    playfield:
        default_source_device: None
        tags: default
"""


class TestEndGameBetweenBalls(MpfFakeGameTestCase):

    def get_config_file(self):
        return 'config.yaml'

    def get_machine_path(self):
        path = tempfile.mkdtemp(prefix="c06_f3_")
        os.makedirs(os.path.join(path, "config"))
        with open(os.path.join(path, "config", "config.yaml"), "w") as f:
            f.write(CONFIG)
        return path

    def _rec(self, ev, **kwargs):
        self.events.append(ev)

    def _turn_starting(self, queue, **kwargs):
        queue.wait()
        self.pending_queue = queue

    def test_end_game_inside_player_turn_starting(self):
        self.events = []
        self.pending_queue = None
        for ev in ("ball_started", "ball_ended", "game_ended"):
            self.machine.events.add_handler(ev, self._rec, ev=ev)

        self.start_game()
        self.assertEqual(["ball_started"], self.events)

        # the player_turn_starting queue event of the next turn is delayed by a handler
        self.machine.events.add_handler('player_turn_starting', self._turn_starting)
        self.drain_all_balls()
        self.assertIsNotNone(self.pending_queue)
        self.assertEqual(["ball_started", "ball_ended"], self.events)

        # the end of the game is requested while the queue event is pending (default end_game_event)
        self.post_event("end_game")
        self.advance_time_and_run(1)
        self.assertTrue(self.machine.game.ending)

        # handler is done
        self.pending_queue.clear()
        self.advance_time_and_run(30)
        print("events 30s after the end-game request:", self.events,
              "balls in play:", self.machine.game.balls_in_play if self.machine.game else None)

        # "A ball ends exactly when balls in play reaches zero or an end is requested ... then end"
        # The end was requested 30s ago and nothing delays it: the game must be over and in particular there must not
        # be a running ball of a game which was told to end.
        self.assertEqual("game_ended", self.events[-1],
                         "game did not end on request. A new ball was started instead: {}".format(self.events))
        self.assertIsNone(self.machine.game)


if __name__ == '__main__':
    unittest.main()
