"""C09 finding 2: a colour command is silently dropped while a fade-out of the same key is pending.

remove_from_stack_by_key(key, fade_ms>0) replaces the entry by a transparent "fade-out" entry which keeps the
key and the priority of the removed entry. _add_to_stack() refuses any command whose priority is lower than
the priority of "an existing stack item with the same key" - and it counts that transparent leftover. So after
a key has been removed, a new command under the same key with a lower priority is lost for the duration of
the fade-out, and once the fade-out expires the light is off although a key is (from the caller's view) set.
"""
import unittest

from mpf.core.rgb_color import RGBColor
from mpf.tests.MpfTestCase import MpfTestCase


class TestCommandDuringFadeOut(MpfTestCase):

    def get_config_file(self):
        return 'light.yaml'

    def get_machine_path(self):
        return 'tests/machine_files/light/'

    def _hw(self, led):
        return tuple(round(led.hw_drivers[c][0].current_brightness * 255) for c in ("red", "green", "blue"))

    def test_control_without_fade_out(self):
        """Control: passes. Remove without fade, then set the key again with a lower priority."""
        led = self.machine.lights["led1"]
        led.color("red", key="show", priority=10, fade_ms=0)
        self.advance_time_and_run(1)
        led.remove_from_stack_by_key("show", fade_ms=0)
        self.advance_time_and_run(.5)
        led.color("blue", key="show", priority=5, fade_ms=0)
        self.advance_time_and_run(2)
        self.assertEqual(RGBColor("blue"), led.get_color())
        self.assertEqual((0, 0, 255), self._hw(led))

    def test_command_while_fade_out_is_running(self):
        """Fails: same history but the remove fades out over 1s."""
        led = self.machine.lights["led1"]
        led.color("red", key="show", priority=10, fade_ms=0)
        self.advance_time_and_run(1)
        # the key is removed. the light fades to what is beneath (nothing -> off) within 1s
        led.remove_from_stack_by_key("show", fade_ms=1000)
        self.advance_time_and_run(.5)
        # 0.5s later the same key is used again, with a lower priority. it is the only key of the light
        led.color("blue", key="show", priority=5, fade_ms=0)
        self.advance_time_and_run(2)
        # all fades have finished. The only key ever set and not removed is show -> blue
        self.assertEqual(RGBColor("blue"), led.get_color(),
                         "the command issued during the fade-out was lost. stack: {}".format(led.stack))
        self.assertEqual((0, 0, 255), self._hw(led))


if __name__ == "__main__":
    unittest.main()
