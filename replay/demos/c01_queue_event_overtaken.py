"""C01 finding 2: a queue event posted while an event is handled is dispatched AFTER events that were already waiting,
and after the completion callback of the event whose handler posted it."""
import unittest
from mpf.tests.MpfTestCase import MpfTestCase


class QueueEventOvertaken(MpfTestCase):

    def get_config_file(self):
        return 'test_event_manager.yaml'

    def get_machine_path(self):
        return 'tests/machine_files/event_manager/'

    def _run(self, post_child):
        log = []
        ev = self.machine.events

        def h_e(**kwargs):
            log.append("handler_E")
            post_child(ev, log)

        ev.add_handler("E", h_e)
        ev.add_handler("CHILD", lambda **kwargs: log.append("handler_CHILD"))
        ev.add_handler("W", lambda **kwargs: log.append("handler_W"))
        ev.post("E", callback=lambda **kwargs: log.append("callback_E"))
        ev.post("W")        # W is already waiting when E's handler posts CHILD
        self.advance_time_and_run(1)
        return log

    def test_plain_child_reference(self):
        """Reference: CHILD posted as plain event is dispatched before W and before callback_E (passes)."""
        log = self._run(lambda ev, log: ev.post("CHILD", callback=lambda **kwargs: log.append("callback_CHILD")))
        self.assertLess(log.index("handler_CHILD"), log.index("handler_W"), log)
        self.assertLess(log.index("handler_CHILD"), log.index("callback_E"), log)

    def test_queue_child_before_waiting_event(self):
        """CHILD posted as queue event (its handler never waits) must still be dispatched before W."""
        log = self._run(lambda ev, log: ev.post_queue("CHILD", callback=lambda **kwargs: log.append("callback_CHILD")))
        self.assertEqual(1, log.count("handler_CHILD"), log)
        self.assertLess(log.index("handler_CHILD"), log.index("handler_W"), log)

    def test_parent_callback_after_queue_child(self):
        """callback_E must run only after everything E's handlers posted (CHILD) has been dispatched."""
        log = self._run(lambda ev, log: ev.post_queue("CHILD", callback=lambda **kwargs: log.append("callback_CHILD")))
        self.assertEqual(1, log.count("handler_CHILD"), log)
        self.assertLess(log.index("handler_CHILD"), log.index("callback_E"), log)


if __name__ == '__main__':
    unittest.main()
