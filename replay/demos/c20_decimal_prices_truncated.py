"""C20 finding 1: float truncation in Credits._calculate_credit_units.

price 0.60, coins 0.10 / 0.20 / 0.50.  0.60 / 0.10 == 5.999999999999999 in IEEE
doubles and the code does int(price_per_game / credit_unit) -> 5 credit units
per game instead of 6.  A single 0.50 coin (5 units) therefore buys a 0.60
game.
"""
import os
import shutil
import tempfile
import unittest
from unittest.mock import MagicMock

from mpf.tests.MpfTestCase import MpfTestCase

CONFIG = """#config_version=6

modes:
    - credits

machine:
    min_balls: 0

switches:
    s_coin_10:
        number:
    s_coin_20:
        number:
    s_coin_50:
        number:
    s_start:
        number:
        tags: start

credits:
  max_credits: 12
  free_play: no
  switches:
    - switch: s_coin_10
      type: money
      value: 0.10
    - switch: s_coin_20
      type: money
      value: 0.20
    - switch: s_coin_50
      type: money
      value: 0.50
  pricing_tiers:
    - price: 0.60
      credits: 1
  persist_credits_while_off_time: 0
"""


class Demo(MpfTestCase):

    _tmp = None

    def get_config_file(self):
        return 'config.yaml'

    def get_machine_path(self):
        if not Demo._tmp:
            Demo._tmp = tempfile.mkdtemp(prefix="c20_f1_")
            os.makedirs(os.path.join(Demo._tmp, "config"))
            with open(os.path.join(Demo._tmp, "config", "config.yaml"), "w") as f:
                f.write(CONFIG)
        return Demo._tmp

    @classmethod
    def tearDownClass(cls):
        if Demo._tmp:
            shutil.rmtree(Demo._tmp, ignore_errors=True)

    def test_half_euro_must_not_buy_a_60ct_game(self):
        credits_mode = self.machine.modes["credits"]
        self.assertFalse(self.machine.settings.get_setting_value("free_play"))

        # insert one 0.50 coin: that is less than the 0.60 price of a game
        self.hit_and_release_switch("s_coin_50")
        self.advance_time_and_run()
        print("credit_unit =", credits_mode.credit_unit,
              "credit_units_per_game =", credits_mode.credit_units_per_game,
              "credit_units =", self.machine.variables.get_machine_var("credit_units"),
              "credits_string =", self.machine.variables.get_machine_var("credits_string"))

        # try to start a game
        self.machine.playfield.add_ball = MagicMock()
        self.machine.ball_controller.num_balls_known = 3
        self.hit_and_release_switch("s_start")
        self.advance_time_and_run()

        money_in = 0.50
        price = 0.60
        self.assertLess(money_in, price)
        # the property: a game starts only when a full game price is available
        self.assertIsNone(self.machine.game,
                          "a game was started for 0.50 although the price of a game is 0.60")

    def test_units_per_game(self):
        credits_mode = self.machine.modes["credits"]
        # six 0.10 coins are one game, so a game is six units of 0.10
        self.assertEqual(6, credits_mode.credit_units_per_game)


if __name__ == "__main__":
    unittest.main()
