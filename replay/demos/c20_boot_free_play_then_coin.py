import sys
from mpf.tests.MpfTestCase import MpfTestCase, test_config
import unittest

class T(MpfTestCase):
    def get_config_file(self):
        return 'config_freeplay.yaml'
    def get_machine_path(self):
        return 'tests/machine_files/credits/'
    def test_boot_free_then_credit_then_coin(self):
        self.assertEqual("FREE PLAY", self.machine.variables.get_machine_var('credits_string'))
        self.post_event("toggle_credit_play")
        self.advance_time_and_run()
        print("after toggle:", self.machine.variables.get_machine_var('credits_string'),
              "unit", self.machine.modes["credits"].credit_unit, "per game", self.machine.modes["credits"].credit_units_per_game)
        self.hit_and_release_switch("s_left_coin")
        self.advance_time_and_run()
        print("after coin:", self.machine.variables.get_machine_var('credits_string'), self.machine.variables.get_machine_var('credit_units'))
        # 4 quarters = price of one game in the test config?
        for _ in range(3):
            self.hit_and_release_switch("s_left_coin")
            self.advance_time_and_run()
        print("after 4 coins:", self.machine.variables.get_machine_var('credits_string'), self.machine.variables.get_machine_var('credit_units'))
        self.machine.playfield.add_ball = lambda *a, **k: None
        self.machine.ball_controller.num_balls_known = 3
        self.hit_and_release_switch("s_start")
        self.advance_time_and_run()
        print("game:", self.machine.game, "credits:", self.machine.variables.get_machine_var('credits_string'))
unittest.main()
