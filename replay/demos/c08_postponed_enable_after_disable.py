"""C08 finding 3: an enable delayed by the PSU is not cancelled by disable() -> coil left on.

Driver.enable(max_wait_ms=...) may be postponed by the power supply unit:
`self.delay.add(wait_ms, self._enable_now, ...)` (anonymous delay).
Driver.disable() only removes 'enable_limit_reached'; the pending enable stays
scheduled.  So the history  enable (pending) -> disable -> [timer fires]  ends
with the coil ON and nobody left who will switch it off.

The enable-coil ejector of a ball device runs exactly this schedule: it calls
eject_coil.enable(max_wait_ms=eject_coil_max_wait_ms (default 200ms)) and starts
its own software timer `disable` for eject_coil_enable_time *from now*.  With
eject_coil_enable_time: 100ms and another coil on the same PSU having just
fired a 150ms pulse, the enable is postponed by 160ms, the ejector's disable
arrives after 100ms (coil still off) and 60ms later the coil is switched on and
is held forever (here: a coil meant to be on for 100ms).
"""
import os
import shutil
import tempfile
import unittest

from mpf.tests.MpfTestCase import MpfTestCase

CONFIG = """#config_version=6

playfields:
    playfield:
        default_source_device: test
        tags: default

coils:
    eject_coil:
        default_hold_power: 0.25
        default_pulse_ms: 20
        number:
    other_coil:
        default_pulse_ms: 150
        number:

switches:
    s_ball1:
        number:
    s_ball2:
        number:

ball_devices:
    test:
        eject_coil: eject_coil
        eject_coil_enable_time: 100ms
        ball_switches: s_ball1, s_ball2
        tags: home, trough
"""

_HERE = os.path.dirname(os.path.abspath(__file__))
_MACHINE = tempfile.mkdtemp(prefix="c08_f3_")
os.makedirs(os.path.join(_MACHINE, "config"))
with open(os.path.join(_MACHINE, "config", "config.yaml"), "w") as f:
    f.write(CONFIG)


def tearDownModule():
    shutil.rmtree(_MACHINE, ignore_errors=True)


class DelayedEnableSurvivesDisable(MpfTestCase):

    def get_config_file(self):
        return 'config.yaml'

    def get_machine_path(self):
        return _MACHINE

    def get_platform(self):
        return 'virtual'

    def _log_commands(self, coil):
        log = []
        hw = coil.hw_driver
        orig_enable, orig_disable = hw.enable, hw.disable

        def enable(pulse_settings, hold_settings):
            log.append(("enable", round(self.machine.clock.get_time(), 3)))
            return orig_enable(pulse_settings, hold_settings)

        def disable():
            log.append(("disable", round(self.machine.clock.get_time(), 3)))
            return orig_disable()

        hw.enable = enable
        hw.disable = disable
        return log

    def test_driver_level(self):
        """enable (postponed by PSU) -> disable -> coil must stay off."""
        coil = self.machine.coils["eject_coil"]
        log = self._log_commands(coil)
        self.machine.coils["other_coil"].pulse()    # PSU busy for 150ms + 10ms
        coil.enable(max_wait_ms=500)                # postponed by 160ms
        self.assertEqual("disabled", coil.hw_driver.state)
        self.advance_time_and_run(.05)
        coil.disable()                              # the last request is "off"
        self.advance_time_and_run(5)
        self.assertEqual("disabled", coil.hw_driver.state,
                         "coil is on although disable() was the last request; commands: {}".format(log))

    def test_enable_coil_ejector(self):
        """The ejector's 100ms enable must end; it never does."""
        self.hit_switch_and_run("s_ball1", 0)
        self.hit_switch_and_run("s_ball2", 5)
        self.assertEqual("idle", self.machine.ball_devices["test"].state)
        coil = self.machine.coils["eject_coil"]
        log = self._log_commands(coil)

        self.machine.coils["other_coil"].pulse()    # e.g. a slow kicker on the same PSU
        self.machine.playfield.add_ball()           # -> eject
        self.advance_time_and_run(1)
        # the ball leaves the device
        self.release_switch_and_run("s_ball2", 1)
        self.advance_time_and_run(60)
        self.assertEqual(1, self.machine.ball_devices["test"].balls)
        self.assertEqual("disabled", coil.hw_driver.state,
                         "eject coil (eject_coil_enable_time 100ms) is still held on a minute after the eject; "
                         "commands: {}".format(log))


if __name__ == '__main__':
    unittest.main()
