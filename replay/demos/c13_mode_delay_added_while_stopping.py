"""C13 finding 1: a delay added to a mode's DelayManager while the mode is stopping
(after Mode.stop() has already run self.delay.clear(), but before the mode has
actually stopped) survives the stop and fires on the stopped mode.

Run: cd /tmp/hunt_C13 && PYTHONPATH=/tmp/hunt_C13 /venv/bin/python -W ignore demo.py
"""
import atexit
import os
import shutil
import tempfile
import unittest
from unittest.mock import MagicMock

from mpf.tests.MpfTestCase import MpfTestCase

MACHINE = tempfile.mkdtemp(prefix="c13_f1_")
atexit.register(shutil.rmtree, MACHINE, True)
os.makedirs(os.path.join(MACHINE, "config"))
os.makedirs(os.path.join(MACHINE, "modes", "m1", "config"))
with open(os.path.join(MACHINE, "config", "config.yaml"), "w") as f:
    f.write("#config_version=6\nmodes:\n  - m1\n")
with open(os.path.join(MACHINE, "modes", "m1", "config", "m1.yaml"), "w") as f:
    # plain config, no custom code: the event that stops the mode is also a
    # delayed (1s) control event of a device of that mode.
    f.write("""#config_version=6
mode:
    start_events: hello
    stop_events: bye
    game_mode: false
sequence_shots:
    seq1:
        event_sequence: e1, e2
        cancel_events:
            bye: 1s
""")


class ModeDelaySurvivesStop(MpfTestCase):

    def get_config_file(self):
        return "config.yaml"

    def get_machine_path(self):
        return MACHINE

    def test_config_only_delayed_control_event_on_stop_event(self):
        """Mode._control_event_handler adds to mode.delay after mode.delay.clear()."""
        from mpf.devices.sequence_shot import SequenceShot
        spy = MagicMock()
        orig = SequenceShot.event_cancel

        def wrapper(self_, **kwargs):
            spy(**kwargs)
            return orig(self_, **kwargs)

        SequenceShot.event_cancel = wrapper
        self.addCleanup(setattr, SequenceShot, "event_cancel", orig)

        mode = self.machine.modes["m1"]
        self.post_event("hello")
        self.advance_time_and_run(.1)
        self.assertTrue(mode.active)

        # stop handler (priority +1) runs first and clears mode.delay, then the
        # delayed control event handler of the same mode adds a 1s delay.
        self.post_event("bye")
        self.advance_time_and_run(.1)
        self.assertFalse(mode.active, "mode has stopped")

        problems = []
        if mode.delay.delays:
            problems.append("stopped mode still owns pending delays: {}".format(list(mode.delay.delays)))
        self.advance_time_and_run(3)
        if spy.call_count:
            problems.append("mode-owned delay fired {} time(s) after its mode stopped: {}".format(
                spy.call_count, spy.call_args_list))
        self.assertEqual([], problems)

    def test_direct_add_while_mode_is_stopping(self):
        """Same hole through the public API: add() at an instant when the mode is still active (stopping)."""
        mode = self.machine.modes["m1"]
        cb = MagicMock()
        self.post_event("hello")
        self.advance_time_and_run(.1)
        self.assertTrue(mode.active)

        state_at_add = {}

        def on_stopping(**kwargs):
            del kwargs
            state_at_add["active"] = mode.active
            mode.delay.add(ms=500, callback=cb, name="late", x=1)

        self.machine.events.add_handler("mode_m1_stopping", on_stopping)
        mode.stop()
        self.advance_time_and_run(.1)
        self.assertTrue(state_at_add["active"], "delay was added while the mode was still active")
        self.assertFalse(mode.active, "mode has stopped afterwards")
        self.advance_time_and_run(2)
        # property: owning mode stopped first -> the delay never fires
        self.assertEqual(0, cb.call_count,
                         "delay 'late' of mode m1 fired after m1 stopped: {}".format(cb.call_args_list))


if __name__ == "__main__":
    unittest.main()
