"""C16 finding 3: a monitored attribute inherited from a monitored parent class is never notified.

@DeviceMonitor stores the subscription futures in ``cls.attribute_futures`` where
``cls`` is the class being decorated.  Magnet and Spinner are decorated with
@DeviceMonitor themselves AND derive from EnableDisableMixinSystemWideDevice which
is decorated with @DeviceMonitor("enabled").  The child decorator replaces
``subscribe_attribute`` (futures are stored in Magnet.attribute_futures), but a
write to ``enabled`` is handled by the parent's __setattr__ wrapper, whose closure
completes the futures in EnableDisableMixinSystemWideDevice.attribute_futures - a
different dict.  ``device.magnets.<name>.enabled`` (a monitored attribute, its
value is read correctly through the parent's get_placeholder_value) therefore never
notifies its subscribers.

Run: cd /tmp/hunt_C16 && PYTHONPATH=/tmp/hunt_C16 /venv/bin/python -W ignore demo.py
"""
import os
import tempfile
import unittest

from mpf.tests.MpfTestCase import MpfTestCase

CONFIG = """#config_version=6

coils:
  magnet_coil1:
    number:
    default_pulse_ms: 100
    default_hold_power: 0.375

switches:
  grab_switch1:
    number:

magnets:
  magnet1:
    magnet_coil: magnet_coil1
    grab_switch: grab_switch1
    enable_events: magnet1_enable
    disable_events: magnet1_disable

event_player:
  "{device.magnets.magnet1.enabled}": magnet_is_enabled
  "{device.magnets.magnet1.active}": magnet_is_active
"""


class InheritedMonitoredAttributeDemo(MpfTestCase):

    def get_config_file(self):
        return 'config.yaml'

    def get_machine_path(self):
        self._tmp = tempfile.mkdtemp(prefix="c16_f3_")
        os.makedirs(os.path.join(self._tmp, "config"))
        with open(os.path.join(self._tmp, "config", "config.yaml"), "w") as f:
            f.write(CONFIG)
        return self._tmp

    def test_template_is_notified(self):
        pm = self.machine.placeholder_manager
        template = pm.build_bool_template("device.magnets.magnet1.enabled")
        value, future = template.evaluate_and_subscribe({})
        self.assertFalse(value)
        self.assertFalse(future.done())

        self.post_event("magnet1_enable")
        self.advance_time_and_run(1)
        # the attribute that the template read has changed ...
        self.assertTrue(self.machine.magnets["magnet1"].enabled)
        self.assertTrue(template.evaluate({}))
        # ... so the subscriber has to be notified
        self.assertTrue(future.done(), "device.magnets.magnet1.enabled changed False -> True without notification")

    def test_condition_driven_event_player(self):
        self.mock_event("magnet_is_enabled")
        self.mock_event("magnet_is_active")
        self.post_event("magnet1_enable")
        self.advance_time_and_run(1)
        self.hit_switch_and_run("grab_switch1", 2)
        # control: an attribute monitored by Magnet's own decorator works
        self.assertEventCalled("magnet_is_active")
        # the attribute monitored by the parent's decorator is stale for ever
        self.assertEventCalled("magnet_is_enabled")


if __name__ == "__main__":
    unittest.main()
