"""C09 finding 1: a fade-in starts from the wrong colour when the entry beneath has a lexically greater key.

Light.get_color_below() selects the "entry beneath" with
    entry.priority <= priority and entry.key <= key
instead of the lexicographic (priority, key) order that the stack is sorted by. A lower-priority entry
whose key string is greater than the new key is therefore skipped, the start colour of the fade becomes
black (or the colour of some even lower entry), and both the logical colour and the hardware jump.
"""
import unittest

from mpf.core.rgb_color import RGBColor
from mpf.tests.MpfTestCase import MpfTestCase


class TestFadeStartsFromColourBeneath(MpfTestCase):

    def get_config_file(self):
        return 'light.yaml'

    def get_machine_path(self):
        return 'tests/machine_files/light/'

    def _hw(self, led):
        return tuple(round(led.hw_drivers[c][0].current_brightness * 255) for c in ("red", "green", "blue"))

    def _run(self, low_key, high_key):
        led = self.machine.lights["led1"]
        led.clear_stack()
        self.advance_time_and_run(1)
        # base colour: red at priority 0
        led.color("red", key=low_key, priority=0, fade_ms=0)
        self.advance_time_and_run(1)
        self.assertEqual(RGBColor("red"), led.get_color())
        self.assertEqual((255, 0, 0), self._hw(led))

        # a higher-priority entry fades in over 1s. The fade runs from red (what is beneath) to blue
        led.color("blue", key=high_key, priority=10, fade_ms=1000)
        # at the instant of the command nothing may have moved yet: the start endpoint is red
        self.assertEqual(RGBColor("red"), led.get_color(),
                         "fade keys=({}, {}): logical colour jumped at the start of the fade".format(low_key, high_key))
        self.assertEqual((255, 0, 0), self._hw(led))

        self.advance_time_and_run(.5)
        color = led.get_color()
        # half way between red and blue. never outside the endpoints: red must be ~127, not 0
        self.assertAlmostEqual(127, color.red, delta=3)
        self.assertAlmostEqual(127, color.blue, delta=3)
        self.assertAlmostEqual(127, self._hw(led)[0], delta=3)

        self.advance_time_and_run(1)
        self.assertEqual(RGBColor("blue"), led.get_color())
        self.assertEqual((0, 0, 255), self._hw(led))

    def test_keys_ordered_like_priorities(self):
        """Control: passes. The lower entry also has the smaller key."""
        self._run("a_base", "z_show")

    def test_keys_ordered_against_priorities(self):
        """Fails: identical history, only the key strings differ."""
        self._run("z_base", "a_show")


if __name__ == "__main__":
    unittest.main()
