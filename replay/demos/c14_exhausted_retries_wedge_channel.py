"""C14 / FAST: one lost response wedges the confirmed-command channel for ever.

send_and_wait_for_response_processed('SA:', 'SA:') is used with the default
max_retries=0.  The response is lost.  The property says that a lost response
is retried as configured rather than blocking the queue for ever: once the
configured number of retries (0) is used up, the channel must be usable again.
Instead no_response_waiting stays cleared and done_waiting is never set, so the
caller and every later confirmed command block for ever - the later command is
not even written to the port although the board would answer it.
"""
import asyncio
import unittest

import mpf.tests.test_Fast_Neuron as tfn


class TestLostResponse(tfn.TestFastNeuron):

    def test_lost_response_does_not_block_for_ever(self):
        comm = self.fast_net_serial()
        self.advance_time_and_run(.1)
        self.assertTrue(comm.no_response_waiting.is_set())

        # 1. the response to this SA: query is lost (the mock does not answer it)
        self.net_cpu.expected_commands = {"SA:": None}
        start = len(self.net_cpu.msg_history)
        first = asyncio.ensure_future(self.fast_platform().get_hw_switch_states(True))
        self.advance_time_and_run(10)       # ten times the 1s timeout
        self.assertFalse(self.net_cpu.expected_commands)    # the query was written, its answer was lost

        # 2. a later confirmed query; the board answers this one at once (autorespond 'SA:')
        second = asyncio.ensure_future(comm.send_and_wait_for_response_processed('SA:', 'SA:'))
        self.advance_time_and_run(10)

        sa_written = [m for m in self.net_cpu.msg_history[start:] if m == "SA:"]
        print("SA: queries written to the port:", len(sa_written))
        print("first done:", first.done(), "second done:", second.done(),
              "no_response_waiting:", comm.no_response_waiting.is_set())

        try:
            self.assertEqual(2, len(sa_written), "the second query was never written to the port")
            self.assertTrue(second.done(), "the confirmed-command channel is blocked for ever by one lost response")
        finally:
            first.cancel()
            second.cancel()


if __name__ == "__main__":
    unittest.main(defaultTest="TestLostResponse.test_lost_response_does_not_block_for_ever")
