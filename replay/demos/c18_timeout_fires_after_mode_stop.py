"""C18 finding 2: the timeout delay of a mode-based logic block survives the end of its mode.

LogicBlock.delay is a private DelayManager(self.machine) (not the mode's delay manager), and
device_removed_from_mode() only sets self._state = None.  The pending "timeout" delay (armed by
enable()/reset(), re-armed by every timeout) is never removed, so it fires after the mode has ended:
_logic_block_timeout() -> reset() -> self.completed = False -> None.completed -> AttributeError, which
is an unhandled exception in a clock callback and stops MPF.
"""
import os
import tempfile
import unittest

from mpf.tests.MpfFakeGameTestCase import MpfFakeGameTestCase

CONFIG = """#config_version=6
modes:
  - m1
"""

MODE = """#config_version=6
mode:
  start_events: start_m1
  stop_events: stop_m1
counters:
  c:
    count_events: c_count
    count_complete_value: 3
    logic_block_timeout: 500ms
"""


class TestTimeoutAfterModeEnd(MpfFakeGameTestCase):

    def get_config_file(self):
        return "config.yaml"

    def get_machine_path(self):
        d = tempfile.mkdtemp(prefix="c18_f2_")
        os.makedirs(os.path.join(d, "config"))
        with open(os.path.join(d, "config", "config.yaml"), "w") as f:
            f.write(CONFIG)
        os.makedirs(os.path.join(d, "modes", "m1", "config"))
        with open(os.path.join(d, "modes", "m1", "config", "m1.yaml"), "w") as f:
            f.write(MODE)
        return d

    def get_platform(self):
        return "virtual"

    def test_timeout_after_mode_stop(self):
        self.mock_event("c_timeout")
        self.start_game()
        self.post_event("start_m1")
        self.advance_time_and_run(.1)
        counter = self.machine.counters["c"]
        self.assertTrue(counter.enabled)

        # one accepted hit: value = start + 1
        self.post_event("c_count")
        self.assertEqual(1, counter.value)

        # the mode ends 200ms into the 500ms timeout
        self.advance_time_and_run(.1)
        self.post_event("stop_m1")
        self.advance_time_and_run(.1)
        self.assertFalse(self.machine.modes["m1"].active)
        self.assertFalse(counter.enabled)

        # nothing may happen for a block whose mode is gone: no timeout event, and certainly no crash
        self.advance_time_and_run(1)
        self.assertEqual(0, self._events["c_timeout"], "timeout of a block whose mode has ended")


if __name__ == "__main__":
    unittest.main()
