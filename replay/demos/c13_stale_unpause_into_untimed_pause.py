"""C13: a timer that is paused WITHOUT a duration stays paused.  A timed pause (2 s) followed, before it is over, by an
untimed pause must not be ended by the first pause's un-pause delay: the timer does not tick while it is paused."""
import sys
import unittest

from mpf.tests.MpfTestCase import MpfTestCase


class TestStaleUnpause(MpfTestCase):

    def get_config_file(self):
        return 'test_timer.yaml'

    def get_machine_path(self):
        return 'tests/machine_files/timer/'

    def test_untimed_pause_after_timed_pause(self):
        self.post_event("start_mode_with_timers")
        self.advance_time_and_run(.1)
        timer = self.machine.timers["timer_down"]
        self.post_event("start_timer_down")
        self.advance_time_and_run(2)
        self.assertTrue(timer.running)
        ticks = timer.ticks
        # timed pause (2 s, from the config)
        self.post_event("pause_timer_down")
        self.advance_time_and_run(.5)
        self.assertFalse(timer.running)
        # ... replaced by an untimed pause before it is over
        timer.pause()
        self.advance_time_and_run(10)
        self.assertFalse(timer.running, "an untimed pause was ended by the un-pause delay of an earlier timed pause")
        self.assertEqual(ticks, timer.ticks)
        # an explicit start resumes it
        timer.start()
        self.advance_time_and_run(.1)
        self.assertTrue(timer.running)


if __name__ == "__main__":
    result = unittest.main(exit=False, argv=[sys.argv[0]]).result
    sys.exit(0 if result.wasSuccessful() else 1)
