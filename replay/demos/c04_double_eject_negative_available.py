"""C04 finding 4: a double eject from a lock whose balls are all queued for eject drives available_balls
negative and leaves a phantom ball on the playfield's available count.

Topology: trough -> playfield, lock (two ball switches, not a trough) -> playfield.
History: the lock holds two balls and both are released (lock.eject_all(), what a multiball lock release
does).  The first coil pulse kicks BOTH balls out (a classic double eject).  Both balls reach the playfield
and later drain into the trough.

Property: "No count is ever negative or above a device's capacity" and "whenever the ball devices have come to
rest ... the playfield counts equal the balls physically loose, and all counts sum to the number of balls
known."
Observed: the "more balls left than expected" branch of OutgoingBallsHandler._eject_ball() calls
lost_idle_ball() (available_balls -= 1, playfield.add_missing_balls(1)) and then silently drops the queued
second eject - but that queued eject had already moved the ball from lock.available_balls to
playfield.available_balls in setup_eject_chain().  Result: lock.available_balls == -1,
playfield.available_balls == 3 with two balls loose, and after both balls have drained
playfield.available_balls == 1 with an empty playfield (and the lock stays at -1 forever).
"""
import os
import shutil
import tempfile
import unittest
from unittest.mock import MagicMock

from mpf.tests.MpfTestCase import MpfTestCase

CONFIG = """#config_version=6

playfields:
    playfield:
        default_source_device: trough
        tags: default

coils:
    c_trough:
        number:
    c_lock:
        number:

switches:
    s_trough1:
        number:
    s_trough2:
        number:
    s_trough3:
        number:
    s_lock1:
        number:
    s_lock2:
        number:
    s_playfield:
        number:
        tags: playfield_active

ball_devices:
    trough:
        eject_coil: c_trough
        ball_switches: s_trough1, s_trough2, s_trough3
        eject_targets: playfield
        tags: trough, drain, home
    lock:
        eject_coil: c_lock
        ball_switches: s_lock1, s_lock2
        eject_targets: playfield
        tags: home

virtual_platform_start_active_switches:
    - s_trough1
    - s_lock1
    - s_lock2
"""


def _make_machine_dir():
    for base in (os.path.dirname(os.path.abspath(__file__)), None):
        try:
            path = tempfile.mkdtemp(prefix="c04_f4_")
            os.makedirs(os.path.join(path, "config"))
            with open(os.path.join(path, "config", "config.yaml"), "w") as f:
                f.write(CONFIG)
            return path
        except OSError:
            continue
    raise RuntimeError("cannot create machine dir")


class DoubleEjectWithQueuedEject(MpfTestCase):

    _dir = None

    @classmethod
    def setUpClass(cls):
        cls._dir = _make_machine_dir()

    @classmethod
    def tearDownClass(cls):
        shutil.rmtree(cls._dir, ignore_errors=True)

    def get_config_file(self):
        return 'config.yaml'

    def get_machine_path(self):
        return self._dir

    def get_platform(self):
        return 'virtual'

    def _balls(self):
        return {d.name: d.balls for d in self.machine.ball_devices.values()}

    def _available(self):
        return {d.name: d.available_balls for d in self.machine.ball_devices.values()}

    def test_double_eject_on_release_of_both_balls(self):
        m = self.machine
        sw = m.switch_controller.process_switch
        self.advance_time_and_run(5)
        lock = m.ball_devices["lock"]
        self.assertEqual(3, m.ball_controller.num_balls_known)
        self.assertEqual({"trough": 1, "lock": 2, "playfield": 0}, self._balls())
        self.assertEqual({"trough": 1, "lock": 2, "playfield": 0}, self._available())

        m.coils["c_lock"].pulse = MagicMock(wraps=m.coils["c_lock"].pulse)
        lock.eject_all()
        self.advance_time_and_run(.1)
        self.assertEqual(1, m.coils["c_lock"].pulse.call_count)

        # the single pulse kicks both balls out
        sw("s_lock1", 0)
        self.advance_time_and_run(.2)
        sw("s_lock2", 0)
        self.advance_time_and_run(1)
        sw("s_playfield", 1)
        self.advance_time_and_run(.1)
        sw("s_playfield", 0)
        self.advance_time_and_run(30)

        # at rest: lock empty, two balls loose
        self.assertEqual("idle", lock.state)
        self.assertEqual(1, m.coils["c_lock"].pulse.call_count)
        self.assertEqual({"trough": 1, "lock": 0, "playfield": 2}, self._balls())
        for name, count in self._available().items():
            self.assertGreaterEqual(count, 0, "{}.available_balls is negative: {}".format(name, self._available()))
        self.assertEqual({"trough": 1, "lock": 0, "playfield": 2}, self._available())

        # both balls drain
        sw("s_trough2", 1)
        self.advance_time_and_run(2)
        sw("s_trough3", 1)
        self.advance_time_and_run(10)
        self.assertEqual({"trough": 3, "lock": 0, "playfield": 0}, self._balls())
        self.assertEqual({"trough": 3, "lock": 0, "playfield": 0}, self._available())


if __name__ == "__main__":
    unittest.main()
