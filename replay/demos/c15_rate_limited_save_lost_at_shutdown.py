"""C15 finding 1: a save which is still rate-limited when MPF shuts down cleanly is lost.

Boots a REAL MachineController (virtual platform, real DataManager, real writer threads) in a child process,
the same way `mpf game` does it (mpf/commands/game.py: MachineController(...).run(); sys.exit()).

History inside the child (all times are relative to the end of init):
    t=1.5s   machine var "demo_var" (persist) is set to "A"   -> writer thread writes it at once
    t=1.8s   machine var "demo_var" is set to "B"             -> writer thread is in its 1s rate limit sleep
    t=1.9s   machine.stop()  -> clean shutdown: "shutdown" event, MachineController.shutdown(), run() returns,
             process exits with sys.exit() like mpf/commands/game.py does

The property promises that "B" is on disk after the clean shutdown, however saves and shutdown are timed.
"""
import os
import subprocess
import sys
import tempfile
import textwrap

CHILD = textwrap.dedent('''
    import os, sys
    import mpf.core
    from mpf.core.machine import MachineController
    from mpf.core.config_loader import YamlMultifileConfigLoader

    machine_path = sys.argv[1]
    options = {
        'force_platform': 'virtual', 'production': False,
        'mpfconfigfile': os.path.abspath(os.path.join(mpf.core.__path__[0], os.pardir, 'mpfconfig.yaml')),
        'configfile': ['config.yaml'], 'debug': False, 'bcp': False, 'no_load_cache': True,
        'platform_integration_test': False, 'create_config_cache': False, 'text_ui': False,
        'machine_path': machine_path,
    }
    config = YamlMultifileConfigLoader(machine_path, ['config.yaml'], False, False).load_mpf_config()
    machine = MachineController(options, config)

    def step_a():
        machine.variables.configure_machine_var("demo_var", persist=True)
        machine.variables.set_machine_var("demo_var", "A")

    def step_b():
        machine.variables.set_machine_var("demo_var", "B")

    def schedule():
        # wait for the end of init (run() does the init itself), then play the history
        if not (getattr(machine, "is_init_done", None) and machine.is_init_done.is_set()):
            machine.clock.loop.call_later(0.05, schedule)
            return
        machine.clock.loop.call_later(1.5, step_a)
        machine.clock.loop.call_later(1.8, step_b)
        machine.clock.loop.call_later(1.9, machine.stop, "demo is done")

    machine.clock.loop.call_soon(schedule)
    machine.run()           # returns after the clean shutdown (MachineController._do_stop / shutdown)
    print("CLEAN SHUTDOWN DONE, in memory:", machine.variables.get_machine_var("demo_var"))
    sys.exit()              # exactly what mpf/commands/game.py does after run() returned
''')


def main():
    tree = os.environ.get("PYTHONPATH", os.getcwd())
    machine_path = tempfile.mkdtemp(prefix="c15_f1_")
    os.makedirs(os.path.join(machine_path, "config"))
    with open(os.path.join(machine_path, "config", "config.yaml"), "w") as f:
        f.write("#config_version=6\n")
    child = os.path.join(machine_path, "child.py")
    with open(child, "w") as f:
        f.write(CHILD)

    res = subprocess.run([sys.executable, "-W", "ignore", child, machine_path], cwd=machine_path,
                         env=dict(os.environ, PYTHONPATH=tree), stdout=subprocess.PIPE, stderr=subprocess.STDOUT,
                         universal_newlines=True, timeout=120)
    print(res.stdout[-1500:])
    assert res.returncode == 0, "child failed"
    assert "CLEAN SHUTDOWN DONE, in memory: B" in res.stdout

    from mpf.core.file_manager import FileManager
    filename = os.path.join(machine_path, "data", "machine_vars.yaml")
    on_disk = FileManager.load(filename, halt_on_error=False)
    print("machine_vars.yaml after the clean shutdown:", on_disk)
    value = on_disk.get("demo_var", {}).get("value")
    assert value == "B", \
        "last saved value was 'B' but machine_vars.yaml holds {!r} after a clean shutdown".format(value)
    print("OK")


if __name__ == "__main__":
    main()
