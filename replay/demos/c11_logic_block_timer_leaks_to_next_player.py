"""C11 finding 2: the timeout timer of a persisted logic block survives the mode stop and fires in the next player's turn.

LogicBlock keeps its ``logic_block_timeout`` delay (and Counter its ``multiple_hit_window`` delay / ``ignore_hits`` flag)
on the device object.  device_removed_from_mode() drops ``_state`` but never clears ``self.delay``.  So a timer armed
while player 2 was playing is still pending when player 1's ball starts, and when it fires it calls reset() on whatever
state object is attached to the device at that moment - player 1's persisted progress.
"""
import os
import tempfile
import textwrap
import unittest

from mpf.tests.MpfFakeGameTestCase import MpfFakeGameTestCase

MACHINE = tempfile.mkdtemp(prefix="c11_f2_")
os.makedirs(os.path.join(MACHINE, "config"))
os.makedirs(os.path.join(MACHINE, "modes", "mode1", "config"))
with open(os.path.join(MACHINE, "config", "config.yaml"), "w") as f:
    f.write(textwrap.dedent("""\
        #config_version=6
        game:
          balls_per_game: 3
        switches:
          s_start:
            number:
            tags: start
        modes:
          - mode1
        """))
with open(os.path.join(MACHINE, "modes", "mode1", "config", "mode1.yaml"), "w") as f:
    f.write(textwrap.dedent("""\
        #config_version=6
        mode:
          start_events: ball_starting
        counters:
          progress:
            count_events: progress_hit
            starting_count: 0
            count_complete_value: 10
            persist_state: true
            logic_block_timeout: 10s
          combo:
            count_events: combo_hit
            starting_count: 0
            persist_state: true
            multiple_hit_window: 5s
        """))


class Demo(MpfFakeGameTestCase):

    def get_config_file(self):
        return "config.yaml"

    def get_machine_path(self):
        return MACHINE

    def test_timer_of_other_player_does_not_touch_my_progress(self):
        self.mock_event("progress_timeout")
        counter = self.machine.counters["progress"]
        self.start_game()
        self.add_player()
        p1, p2 = self.machine.game.player_list

        # player 1, ball 1: two hits, then drain (well within the 10s timeout)
        self.assertPlayerNumber(1)
        self.assertTrue(self.machine.modes["mode1"].active)
        self.post_event("progress_hit")
        self.post_event("progress_hit")
        self.advance_time_and_run(.1)
        self.assertEqual(2, counter.value)
        self.drain_all_balls()

        # player 2, ball 1: his (new) block is enabled -> arms the 10s timer.  he drains after ~3s
        self.assertPlayerNumber(2)
        self.assertEqual(0, counter.value)
        self.advance_time_and_run(2)
        self.drain_all_balls()

        # player 1, ball 2: his progress is restored ...
        self.assertPlayerNumber(1)
        self.assertBallNumber(2)
        self.assertEqual(2, counter.value)
        self.assertEqual(2, p1.progress_state.value)
        self.assertEventNotCalled("progress_timeout")

        # ... nothing at all happens for 8s in player 1's turn (no timer was started for him on this ball)
        self.advance_time_and_run(8)
        self.assertPlayerNumber(1)
        # the timer armed in player 2's turn fired and wiped player 1's progress
        self.assertEqual(2, p1.progress_state.value,
                         "player 1's persisted progress was reset by the timeout timer that player 2's turn armed")
        self.assertEventNotCalled("progress_timeout")

    def test_hit_window_of_other_player_does_not_swallow_my_hit(self):
        """Same root cause: Counter.ignore_hits / the 'ignore_hits_within_window' delay live on the device."""
        counter = self.machine.counters["combo"]
        self.start_game()
        self.add_player()
        p1, p2 = self.machine.game.player_list
        # player 1 hits once (opens HIS 5s multiple_hit_window) and drains
        self.post_event("combo_hit")
        self.advance_time_and_run(.1)
        self.assertEqual(1, p1.combo_state.value)
        self.drain_all_balls()
        # player 2's very first hit on his own ball
        self.assertPlayerNumber(2)
        self.post_event("combo_hit")
        self.advance_time_and_run(.1)
        self.assertEqual(1, p2.combo_state.value,
                         "player 2's first hit was swallowed by the hit window player 1 opened in his turn")


if __name__ == "__main__":
    unittest.main()
