"""C11 finding 3: a game mode that is still *starting* when the ball ends is not stopped and keeps player 1's state
objects while player 2 plays.

ModeController._ball_ending() only stops modes in ``active_modes``.  A mode whose ``mode_<name>_starting`` queue event is
still being held (intro show / queue_relay_player / custom code) has already run _add_mode_devices() - i.e. its
devices already looked up their persisted state in the CURRENT player - but it is not "active" yet, and Mode.stop()
refuses to stop a mode that is not active.  The mode therefore survives the ball end, becomes active afterwards and
runs through the next player's ball with the previous player's state attached.
"""
import os
import tempfile
import textwrap
import unittest

from mpf.tests.MpfFakeGameTestCase import MpfFakeGameTestCase

MACHINE = tempfile.mkdtemp(prefix="c11_f3_")
os.makedirs(os.path.join(MACHINE, "config"))
os.makedirs(os.path.join(MACHINE, "modes", "base", "config"))
os.makedirs(os.path.join(MACHINE, "modes", "wizard", "config"))
with open(os.path.join(MACHINE, "config", "config.yaml"), "w") as f:
    f.write(textwrap.dedent("""\
        #config_version=6
        game:
          balls_per_game: 3
        switches:
          s_start:
            number:
            tags: start
        modes:
          - base
          - wizard
        """))
with open(os.path.join(MACHINE, "modes", "base", "config", "base.yaml"), "w") as f:
    # the start of the wizard mode is held until its intro is done
    f.write(textwrap.dedent("""\
        #config_version=6
        mode:
          start_events: ball_starting
        queue_relay_player:
          mode_wizard_starting:
            post: wizard_intro_start
            wait_for: wizard_intro_done
        """))
with open(os.path.join(MACHINE, "modes", "wizard", "config", "wizard.yaml"), "w") as f:
    f.write(textwrap.dedent("""\
        #config_version=6
        mode:
          start_events: start_wizard
          stop_events: stop_wizard
        counters:
          jackpots:
            count_events: jackpot
            starting_count: 0
            persist_state: true
        """))


class Demo(MpfFakeGameTestCase):

    def get_config_file(self):
        return "config.yaml"

    def get_machine_path(self):
        return MACHINE

    def test_mode_starting_at_ball_end_does_not_leak_into_next_player(self):
        self.start_game()
        self.add_player()
        p1, p2 = self.machine.game.player_list
        wizard = self.machine.modes["wizard"]

        # player 1 qualifies the wizard mode; its start is held by the intro ...
        self.assertPlayerNumber(1)
        self.post_event("start_wizard")
        self.advance_time_and_run(.1)
        self.assertTrue(wizard.starting)
        self.assertFalse(wizard.active)
        # ... and the ball drains during the intro
        self.drain_all_balls()
        self.post_event("wizard_intro_done")
        self.advance_time_and_run(1)

        # it is player 2's ball now
        self.assertPlayerNumber(2)
        self.assertEqual(0, p1.jackpots_state.value)

        # whatever player 2 scores ...
        self.post_event("jackpot")
        self.post_event("jackpot")
        self.advance_time_and_run(.1)

        # ... must never end up in player 1's persisted state
        self.assertEqual(0, p1.jackpots_state.value,
                         "jackpots collected during player 2's ball were counted on player 1's persisted counter")
        # and player 2 did not qualify the wizard mode, it must not be running for him with player 1's state
        self.assertFalse(wizard.active and
                         self.machine.counters["jackpots"]._state is p1.jackpots_state,
                         "wizard mode runs in player 2's turn with player 1's state object attached")


if __name__ == "__main__":
    unittest.main()
