"""C10 finding 1: a tilt which arrives while the ball is already ending leaves the machine tilted for the whole next
ball, and ball_started installs the flipper rules although game.tilted is True."""
import unittest

from mpf.tests.MpfGameTestCase import MpfGameTestCase


class TiltWhileBallEnding(MpfGameTestCase):

    def get_config_file(self):
        return 'config.yaml'

    def get_machine_path(self):
        return 'tests/machine_files/tilt/'

    def get_platform(self):
        return 'smart_virtual'

    def _hold_ball_ending(self, queue, **kwargs):
        """Behave like the bonus mode: keep ball_ending open for a while."""
        del kwargs
        queue.wait()
        self._queue = queue

    def _flipper_rules(self):
        flipper = self.machine.flippers["f_test"]
        hw_driver = flipper.config['main_coil'].hw_driver
        return [key for key in self.machine.default_platform.rules if key[1] == hw_driver]

    def test_tilt_while_ball_is_ending(self):
        self._queue = None
        self.machine.ball_controller.num_balls_known = 0
        self.hit_switch_and_run('s_ball_switch1', 0)
        self.hit_switch_and_run('s_ball_switch2', 2)
        self.start_game(2)
        self.advance_time_and_run(20)
        self.assertBallNumber(1)
        self.assertBallsOnPlayfield(1)
        self.assertTrue(self.machine.flippers["f_test"]._enabled)

        # something (e.g. the bonus mode) holds ball_ending
        self.machine.events.add_handler("ball_ending", self._hold_ball_ending)

        # ball drains -> ball 1 is ending (bonus is running)
        self.hit_switch_and_run('s_ball_switch1', 1)
        self.assertIsNotNone(self._queue)
        self.assertFalse(self.machine.flippers["f_test"]._enabled)
        self.assertEqual([], self._flipper_rules())

        # the player bangs the machine during the bonus: tilt switch
        self.hit_and_release_switch("s_tilt")
        self.advance_time_and_run(1)
        # (the unmodified code sets game.tilted = True here although the ball is already ending)

        # bonus is done
        self.machine.events.remove_handler(self._hold_ball_ending)
        self._queue.clear()
        self.advance_time_and_run(20)

        # ball 2 has started
        self.assertIsNotNone(self.machine.game)
        self.assertBallNumber(2)

        # C10: whenever the machine is tilted no flipper rule remains
        tilted = self.machine.game.tilted
        self.assertFalse(tilted and self._flipper_rules(),
                         "machine is tilted (game.tilted=True) but the flipper rules {} are installed".format(
                             self._flipper_rules()))
        self.assertFalse(tilted and self.machine.flippers["f_test"]._enabled)

        # and it stays like that for the whole ball
        self.advance_time_and_run(30)
        self.assertBallNumber(2)
        tilted = self.machine.game.tilted
        self.assertFalse(tilted and self._flipper_rules())


if __name__ == '__main__':
    unittest.main()
