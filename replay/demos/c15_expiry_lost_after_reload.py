"""C15: a persisted machine variable with an expiry keeps that expiry across a reload.
boot 1 (before the expiry) loads the variable and writes the variables again; boot 2 (after the expiry) must not load
it.  Exit 0 = property holds."""
import logging
import sys
import types

logging.disable(logging.CRITICAL)
from mpf.core.machine_vars import MachineVariables


class DM:
    def __init__(self, data):
        self.data = data

    def get_data(self):
        return self.data

    def save_all(self, data):
        self.data = data


def boot(data, now):
    m = types.SimpleNamespace()
    m.config = {"logging": {"console": {"machine_vars": "none"}, "file": {"machine_vars": "none"}},
                "mpf": {"save_machine_vars_to_disk": True}}
    m.events = types.SimpleNamespace(post=lambda *a, **k: None)
    m.clock = types.SimpleNamespace(get_datetime=lambda: types.SimpleNamespace(timestamp=lambda: now))
    m.monitors = {}
    m.options = {"production": False}
    mv = MachineVariables(m)
    dm = DM(data)
    mv.load_machine_vars(dm, now)
    return mv, dm


T = 1_000_000.0
mv1, dm1 = boot({"credit_units": {"value": 3, "expire": T + 3600, "expire_secs": 3600}}, T)
assert mv1.get_machine_var("credit_units") == 3
mv1.set_machine_var("other", 1, persist=True)            # any persistent write rewrites the whole file
mv2, dm2 = boot(dm1.data, T + 7200)
if mv2.get_machine_var("credit_units") is not None:
    print("FAIL: credit_units=%r reloaded at T+7200 although it was stored with expire=T+3600; file after boot 1: %r"
          % (mv2.get_machine_var("credit_units"), dm1.data["credit_units"]))
    sys.exit(1)
print("ok: expired variable not reloaded")
