"""C01 finding 4: an event is dropped at POST time when no handler is registered yet, although a handler is registered
by the time its dispatch would begin (posting is deferred, so registration right after the post is 'in time')."""
import unittest
from mpf.tests.MpfTestCase import MpfTestCase


class EventDroppedAtPostTime(MpfTestCase):

    def get_config_file(self):
        return 'test_event_manager.yaml'

    def get_machine_path(self):
        return 'tests/machine_files/event_manager/'

    def _program(self, with_unrelated_handler, with_callback=False):
        log = []
        ev = self.machine.events
        if with_unrelated_handler:
            ev.add_handler("N", lambda **kwargs: log.append("unrelated_N"))

        def h_e(**kwargs):
            log.append("handler_E")
            if with_callback:
                ev.post("N", callback=lambda **kwargs: log.append("callback_N"))
            else:
                ev.post("N")        # deferred: dispatch of N begins after E's remaining handlers
            ev.add_handler("N", lambda **kwargs: log.append("handler_N"))    # registered before N's dispatch begins

        ev.add_handler("E", h_e)
        ev.add_handler("E", lambda **kwargs: log.append("late_handler_E"), priority=0)
        ev.post("E")
        self.advance_time_and_run(1)
        return log

    def test_reference_other_handler_present(self):
        """Reference: if any other handler for N happens to exist, handler_N does get the event (passes)."""
        log = self._program(with_unrelated_handler=True)
        self.assertEqual(["handler_E", "late_handler_E", "unrelated_N", "handler_N"], log)

    def test_reference_post_with_callback(self):
        """Reference: if the post carries a callback, handler_N does get the event (passes)."""
        log = self._program(with_unrelated_handler=False, with_callback=True)
        self.assertEqual(["handler_E", "late_handler_E", "handler_N", "callback_N"], log)

    def test_handler_registered_before_dispatch_begins(self):
        log = self._program(with_unrelated_handler=False)
        # handler_N is registered for N when N's dispatch begins -> must be delivered exactly once
        self.assertEqual(["handler_E", "late_handler_E", "handler_N"], log)


if __name__ == '__main__':
    unittest.main()
