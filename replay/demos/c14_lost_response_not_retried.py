"""C14: 'a lost response is retried as configured rather than blocking the queue forever'.
The real FastSerialCommunicator.send_and_wait_for_response_processed is asked for 2 retries with a 50 ms timeout and
nobody ever answers.  Expected: the command is queued 3 times (1 + 2 retries).  Exit 0 = property holds."""
import asyncio
import logging
import sys

logging.disable(logging.CRITICAL)
from mpf.platforms.fast.communicators.base import FastSerialCommunicator


async def main():
    c = FastSerialCommunicator.__new__(FastSerialCommunicator)
    c.send_queue = asyncio.Queue()
    c.no_response_waiting = asyncio.Event()
    c.no_response_waiting.set()
    c.done_waiting = asyncio.Event()
    c.log = logging.getLogger("demo")
    task = asyncio.ensure_future(c.send_and_wait_for_response_processed("SA:", "SA:", timeout=0.05, max_retries=2))
    await asyncio.sleep(0.6)          # 12 timeouts long; no response is ever delivered
    sent = c.send_queue.qsize()
    done = task.done()
    task.cancel()
    return sent, done


sent, done = asyncio.run(main())
if sent != 3:
    print("FAIL: the command was queued %d time(s) in 0.6 s (timeout 0.05 s, max_retries=2): a lost response is never "
          "retried; the caller %s" % (sent, "returned" if done else "is still blocked in done_waiting.wait()"))
    sys.exit(1)
print("ok: sent 3 times")
