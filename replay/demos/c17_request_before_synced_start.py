"""C17 finding 1: advance/resume/step_back (and pause) on a show that is still waiting for its sync point.

History: show s1 runs under key k.  At t=0.3 show s2 is played under the same key with sync_ms=1000, so it
is scheduled to start at the next sync boundary (t=1.0) and to stop s1 at that moment (start_callback).  At
t=0.4 an `advance` request for key k arrives.

Promised: s2 honours sync (starts on the boundary), posts its played event exactly once, and s1 (which it
replaces) is stopped when s2 starts.
Actual: RunningShow.advance() cancels the pending _start_now timer and runs step 1 at once.  s2 therefore
starts off-sync at t=0.4, never posts events_when_played, and never calls its start_callback, so the replaced
show s1 keeps running (and keeps its lights) next to s2 until key k is stopped.
"""
import os
import shutil
import tempfile
import unittest

from mpf.tests.MpfTestCase import MpfTestCase

CONFIG = """\
#config_version=6
lights:
  l1:
    number: 1
  l2:
    number: 2
shows:
  s1:
    - duration: 1
      lights:
        l1: red
    - duration: 1
      lights:
        l1: blue
  s2:
    - duration: 1
      lights:
        l2: red
    - duration: 1
      lights:
        l2: blue
show_player:
  play_s1:
    s1:
      key: k
      events_when_played: s1_played
      events_when_stopped: s1_stopped
  play_s2_sync:
    s2:
      key: k
      sync_ms: 1000
      events_when_played: s2_played
      events_when_stopped: s2_stopped
      events_when_advanced: s2_advanced
  advance_k:
    s2:
      key: k
      action: advance
"""


class Demo(MpfTestCase):

    def setUp(self):
        self._tmp = tempfile.mkdtemp(prefix="c17_f1_")
        os.makedirs(os.path.join(self._tmp, "config"))
        with open(os.path.join(self._tmp, "config", "config.yaml"), "w") as f:
            f.write(CONFIG)
        super().setUp()

    def tearDown(self):
        super().tearDown()
        shutil.rmtree(self._tmp, ignore_errors=True)

    def get_config_file(self):
        return "config.yaml"

    def get_machine_path(self):
        return self._tmp

    def _rec(self, name, **kwargs):
        self.seen.append((round(self.machine.clock.get_time(), 3), name))

    def test_advance_while_waiting_for_sync(self):
        self.seen = []
        for name in ("s1_played", "s1_stopped", "s2_played", "s2_stopped", "s2_advanced"):
            self.machine.events.add_handler(name, self._rec, name=name)

        # move to a known phase of the 1000ms sync grid: t = 5.0 exactly between boundaries later on
        now = self.machine.clock.get_time()
        self.advance_time_and_run(5.0 - now)

        self.post_event("play_s1")
        self.advance_time_and_run(.3)                       # t = 5.3
        self.post_event("play_s2_sync")                     # s2 waits for t = 6.0
        self.advance_time_and_run(.1)                       # t = 5.4
        self.assertEqual([], self.machine.lights["l2"].stack, "s2 must still wait for its sync point")
        self.post_event("advance_k")
        self.advance_time_and_run(3)                        # t = 8.4, well past the sync point

        print(self.seen)
        names = [n for _, n in self.seen]
        # s2 is running (its light is set) ...
        self.assertTrue(self.machine.lights["l2"].stack, "s2 is running")
        # ... so it must have posted its played event exactly once
        self.assertEqual(1, names.count("s2_played"),
                         "running show s2 never posted its played event: {}".format(self.seen))
        # ... and the show it replaced must have been stopped and cleaned up
        self.assertEqual(1, names.count("s1_stopped"),
                         "replaced show s1 still running next to s2: {}".format(self.seen))
        self.assertEqual([], self.machine.lights["l1"].stack)


if __name__ == "__main__":
    unittest.main()
