"""C05 finding 1: a player-controlled (launch button) eject whose coil pulse does not move the ball
is never retried and never reported as failed; the device hangs in state "ejecting" for ever and
further presses of the launch button do nothing."""
import unittest
from unittest.mock import MagicMock

from mpf.tests.MpfTestCase import MpfTestCase


class TestPlayerControlledEjectFailure(MpfTestCase):

    def get_config_file(self):
        return 'test_ball_device_trigger_events.yaml'

    def get_machine_path(self):
        return 'tests/machine_files/ball_device/'

    def _failed(self, **kwargs):
        self.failed_events.append(kwargs)

    def test_failed_launch_is_retried_or_reported(self):
        self.failed_events = []
        coil2 = self.machine.coils['eject_coil2']
        trough = self.machine.ball_devices['test_trough']
        launcher = self.machine.ball_devices['test_launcher']
        playfield = self.machine.ball_devices['playfield']
        self.machine.events.add_handler('balldevice_test_launcher_ball_eject_failed', self._failed)

        # one ball in the trough
        self.hit_switch_and_run("s_ball_switch1", 1)
        self.assertEqual(1, trough.balls)
        coil2.pulse = MagicMock()

        # ball requested for the playfield, player controlled (launch button)
        playfield.add_ball(player_controlled=True)
        self.advance_time_and_run(1)
        self.release_switch_and_run("s_ball_switch1", 1)
        self.hit_switch_and_run("s_ball_switch_launcher", 1)
        self.assertEqual(1, launcher.balls)
        self.assertEqual(0, coil2.pulse.call_count)

        # player presses launch: coil fires ...
        self.hit_and_release_switch("s_launch")
        self.advance_time_and_run(1)
        self.assertEqual(1, coil2.pulse.call_count)

        # ... but the ball does not leave (weak pulse / ball bounced back at once: the launcher switch
        # stays active). Eject timeout of this device is 6s. Wait far longer than every timeout.
        self.advance_time_and_run(120)

        # the player even presses launch a few more times
        for _ in range(3):
            self.hit_and_release_switch("s_launch")
            self.advance_time_and_run(10)

        # ball is still physically in the launcher, nothing else changed for > 2 minutes
        self.assertEqual(1, launcher.balls)
        self.assertEqual(0, playfield.balls)

        # property: "Every failed physical eject is retried or reported as failed"
        retried = coil2.pulse.call_count > 1
        reported = len(self.failed_events) > 0
        self.assertTrue(
            retried or reported,
            "eject failed physically but was neither retried (pulses: {}) nor reported as failed "
            "(eject_failed events: {}); launcher state is '{}'".format(
                coil2.pulse.call_count, len(self.failed_events), launcher.state))


if __name__ == '__main__':
    unittest.main()
