"""C02 finding 1: a mode that holds the wait of the queue event that started it (use_wait_queue) leaks that
still-locked QueuedEvent through mode_<name>_started (start_event_kwargs). A second mode started by
mode_<name>_started re-posts it on its own mode_<name>_starting queue event; _run_handlers_sequential of that
inner event re-uses the foreign queue object, sees the foreign wait and overwrites queue.event. Result:
 - the inner queue event is blocked by a wait none of its handlers registered, and
 - the outer queue event never completes (its task awaits an asyncio.Event nobody will ever set).

Run: cd /tmp/hunt_C02 && PYTHONPATH=/tmp/hunt_C02 /venv/bin/python -W ignore demo.py
"""
import os
import tempfile
import unittest

from mpf.tests.MpfTestCase import MpfTestCase
from mpf.tests.MpfFakeGameTestCase import MpfFakeGameTestCase


def _write_machine(config, modes):
    d = tempfile.mkdtemp()
    os.makedirs(os.path.join(d, 'config'))
    with open(os.path.join(d, 'config', 'config.yaml'), 'w') as f:
        f.write(config)
    for name, content in modes.items():
        os.makedirs(os.path.join(d, 'modes', name, 'config'))
        with open(os.path.join(d, 'modes', name, 'config', name + '.yaml'), 'w') as f:
            f.write(content)
    return d


class TestMinimal(MpfTestCase):

    """Two plain modes and one queue event."""

    def get_config_file(self):
        return 'config.yaml'

    def get_machine_path(self):
        return _write_machine(
            "#config_version=6\nmodes:\n  - holder\n  - follower\n",
            {"holder": "#config_version=6\nmode:\n  game_mode: false\n  start_events: outer_queue_event\n"
                       "  stop_events: stop_holder\n  use_wait_queue: true\n",
             "follower": "#config_version=6\nmode:\n  game_mode: false\n  start_events: mode_holder_started\n"})

    def _outer_done(self, **kwargs):
        del kwargs
        self.outer_done += 1

    def _follower_starting(self, **kwargs):
        # a handler which does NOT register any wait
        del kwargs

    def test_outer_queue_event_completes_exactly_once(self):
        self.outer_done = 0
        self.machine.events.add_handler("mode_follower_starting", self._follower_starting)

        self.machine.events.post_queue("outer_queue_event", callback=self._outer_done)
        self.advance_time_and_run(1)
        # holder holds the wait of outer_queue_event until it stops
        self.assertTrue(self.machine.modes["holder"].active)
        self.assertEqual(0, self.outer_done)

        problems = []
        # no handler of mode_follower_starting registered a wait -> the follower must have started by now
        if not self.machine.modes["follower"].active:
            problems.append("mode_follower_starting is blocked by a wait none of its handlers registered "
                            "(follower.starting={})".format(self.machine.modes["follower"].starting))

        # holder stops -> clears the only wait on outer_queue_event -> callback must fire exactly once
        self.post_event("stop_holder")
        self.advance_time_and_run(5)
        self.assertFalse(self.machine.modes["holder"].active)
        if self.outer_done != 1:
            problems.append("completion callback of outer_queue_event fired {} times after its only wait was "
                            "cleared; pending queue tasks: {}".format(self.outer_done,
                                                                      self.machine.events._queue_tasks))
        self.assertEqual([], problems)


class TestRealGame(MpfFakeGameTestCase):

    """The same with the shipped bonus mode (use_wait_queue: true, start_events: ball_ending)."""

    def get_config_file(self):
        return 'config.yaml'

    def get_machine_path(self):
        return _write_machine(
            "#config_version=6\nmodes:\n  - bonus\n  - bonus_jingle\ngame:\n  balls_per_game: 3\n"
            "switches:\n  s_start:\n    number:\n    tags: start\n"
            "event_player:\n  mode_bonus_jingle_starting: jingle_go\n",
            {"bonus": "#config_version=6\nmode_settings:\n  bonus_entries:\n    - event: bonus_static\n"
                      "      score: 2000\n",
             "bonus_jingle": "#config_version=6\nmode:\n  start_events: mode_bonus_started\n"
                             "  stop_events: mode_bonus_stopped\n"})

    def test_ball_ending_completes_after_bonus(self):
        self.start_game()
        self.advance_time_and_run(2)
        self.assertEqual(1, self.machine.game.player.ball)
        self.drain_all_balls()
        self.advance_time_and_run(60)
        # bonus is long over (it cleared its wait on ball_ending) ...
        self.assertFalse(self.machine.modes["bonus"].active)
        # ... so ball_ending must have completed and ball 2 must have started
        self.assertEqual(2, self.machine.game.player.ball,
                         "ball_ending never completed: {}".format(self.machine.events._queue_tasks))


if __name__ == '__main__':
    unittest.main()
