"""C20: 'an additional player starts only when a full game price is available and deducts exactly that'.
One credit is left after the game start; two player-add requests arrive before the first added player has been paid for
(same loop iteration).  Expected: ONE more player.  Exit 0 = property holds."""
import sys
import unittest
from unittest.mock import MagicMock

from mpf.tests.MpfTestCase import MpfTestCase


class T(MpfTestCase):
    def get_config_file(self):
        return 'config.yaml'

    def get_machine_path(self):
        return 'tests/machine_files/credits/'

    def test_two_adds_one_credit(self):
        self.machine.playfield.add_ball = MagicMock()
        self.machine.ball_controller.num_balls_known = 3
        while self.machine.variables.get_machine_var('credits_whole_num') < 2:
            self.hit_and_release_switch("s_left_coin")
            self.advance_time_and_run(.1)
        self.hit_and_release_switch("s_start")
        self.advance_time_and_run()
        self.assertEqual(1, self.machine.game.num_players)
        self.assertEqual("CREDITS 1", self.machine.variables.get_machine_var('credits_string'))
        for state in (1, 0, 1, 0):      # two presses of the start button in the same loop iteration
            self.machine.switch_controller.process_switch("s_start", state, True)
        self.advance_time_and_run()
        self.assertEqual(2, self.machine.game.num_players,
                         "one credit admitted %d additional players" % (self.machine.game.num_players - 1))


if __name__ == "__main__":
    r = unittest.main(exit=False).result
    sys.exit(0 if r.wasSuccessful() else 1)
