"""C12 finding 2: a subconfig whose value is None is returned as a bare {}.

ConfigValidator._validate_type_subconfig() short-circuits `None` to `{}`
instead of validating an empty dict against the sub-spec.  For a YAML entry
such as

    state_machines:
      my_state:
        states:
          start:            # <- no settings, YAML null
          step1:
            label: Step 1

validation succeeds, but config['states']['start'] == {} - none of the keys of
the `state_machine_states` spec is present, no defaults are filled in (the
sibling `step1`, and an explicit `start: {}`, get all four keys).  The device
then dies with KeyError: 'events_when_started' when it uses its "validated"
config.
"""
import os
import shutil
import tempfile
import unittest

from mpf.tests.MpfTestCase import MpfTestCase

CONFIG = """#config_version=6

state_machines:
  my_state:
    states:
      start:
      step1:
        label: Step 1
    transitions:
      - source: start
        target: step1
        events: go
"""


class ValidatorLevel(MpfTestCase):

    """Talk to the validator directly."""

    def get_config_file(self):
        return 'test_config_interface.yaml'

    def get_machine_path(self):
        return 'tests/machine_files/config_interface/'

    def setUp(self):
        self.machine_spec_patches['test_section'] = dict(__valid_in__='machine')
        super().setUp()

    def test_none_subconfig_is_complete(self):
        validator = self.machine.config_validator
        spec_keys = {k for k in validator.get_config_spec()["state_machine_states"] if not k.startswith("_")}

        config = validator.validate_config(
            "state_machines",
            {"states": {"start": None, "step1": {"label": "Step 1"}, "step2": {}},
             "transitions": [{"source": "start", "target": "step1", "events": "go"}]},
            "my_state", base_spec="device")

        # accepted -> must be complete and well typed
        self.assertEqual(spec_keys, set(config["states"]["step1"]))      # ok
        self.assertEqual(spec_keys, set(config["states"]["step2"]))      # ok ({} gets the defaults)
        self.assertEqual(spec_keys, set(config["states"]["start"]))      # FAILS: set()

    def test_none_in_list_of_subconfigs(self):
        validator = self.machine.config_validator
        spec_keys = {k for k in validator.get_config_spec()["state_machine_transitions"] if not k.startswith("_")}
        # `transitions` has REQUIRED keys (source, target, events). A null list element must be rejected
        # (or be complete); instead it is accepted as {}.
        try:
            config = validator.validate_config(
                "state_machines",
                {"states": {"start": {}}, "transitions": [None]},
                "my_state", base_spec="device")
        except Exception:   # rejecting is fine
            return
        self.assertEqual(spec_keys, set(config["transitions"][0]))       # FAILS: set()


class MachineLevel(MpfTestCase):

    """Boot a machine with that config."""

    def get_config_file(self):
        return 'config.yaml'

    def get_machine_path(self):
        # temporary machine folder inside the scratch tree (removed in tearDown)
        self._tmp = tempfile.mkdtemp(prefix="c12_finding2_")
        self.addCleanup(shutil.rmtree, self._tmp, True)
        os.makedirs(os.path.join(self._tmp, "config"))
        with open(os.path.join(self._tmp, "config", "config.yaml"), "w") as f:
            f.write(CONFIG)
        return self._tmp

    def get_platform(self):
        return 'virtual'

    def test_machine_boots_and_runs(self):
        # the config was accepted by the validator, so the device has to work with it
        # (on the unmodified tree setUp already dies with KeyError: 'events_when_started')
        self.assertEqual("start", self.machine.state_machines["my_state"].state)
        self.post_event("go")
        self.advance_time_and_run()
        self.assertEqual("step1", self.machine.state_machines["my_state"].state)


if __name__ == "__main__":
    unittest.main()
