"""C04 finding 1: two source devices are fired at the same one-ball target at the same time.

Topology: lock_a -> vuk <- lock_b, vuk -> playfield.  vuk has exactly one ball switch (capacity 1).
Both locks hold one ball and both get an eject request (e.g. a multiball releases both locks).

Property: "MPF never fires a ball towards a device that has no room for it."
Observed: both lock coils are pulsed back-to-back; two balls are sent to a device with room for one.
"""
import os
import shutil
import tempfile
import unittest
from unittest.mock import MagicMock

from mpf.tests.MpfTestCase import MpfTestCase

CONFIG = """#config_version=6

playfields:
    playfield:
        default_source_device: trough
        tags: default

coils:
    c_trough:
        number:
    c_lock_a:
        number:
    c_lock_b:
        number:
    c_vuk:
        number:

switches:
    s_trough1:
        number:
    s_trough2:
        number:
    s_lock_a:
        number:
    s_lock_b:
        number:
    s_vuk:
        number:
    s_playfield:
        number:
        tags: playfield_active

ball_devices:
    trough:
        eject_coil: c_trough
        ball_switches: s_trough1, s_trough2
        eject_targets: playfield
        tags: trough, drain, home
    lock_a:
        eject_coil: c_lock_a
        ball_switches: s_lock_a
        eject_targets: vuk
        tags: home
    lock_b:
        eject_coil: c_lock_b
        ball_switches: s_lock_b
        eject_targets: vuk
        tags: home
    vuk:
        eject_coil: c_vuk
        ball_switches: s_vuk
        eject_targets: playfield

virtual_platform_start_active_switches:
    - s_lock_a
    - s_lock_b
    - s_trough1
"""


def _make_machine_dir():
    for base in (os.path.dirname(os.path.abspath(__file__)), None):
        try:
            path = tempfile.mkdtemp(prefix="c04_f1_")
            os.makedirs(os.path.join(path, "config"))
            with open(os.path.join(path, "config", "config.yaml"), "w") as f:
                f.write(CONFIG)
            return path
        except OSError:
            continue
    raise RuntimeError("cannot create machine dir")


class TwoSourcesOneSlot(MpfTestCase):

    _dir = None

    @classmethod
    def setUpClass(cls):
        cls._dir = _make_machine_dir()

    @classmethod
    def tearDownClass(cls):
        shutil.rmtree(cls._dir, ignore_errors=True)

    def get_config_file(self):
        return 'config.yaml'

    def get_machine_path(self):
        return self._dir

    def get_platform(self):
        return 'virtual'

    def test_two_locks_release_into_one_ball_vuk(self):
        m = self.machine
        self.advance_time_and_run(5)
        lock_a = m.ball_devices["lock_a"]
        lock_b = m.ball_devices["lock_b"]
        vuk = m.ball_devices["vuk"]
        self.assertEqual(1, lock_a.balls)
        self.assertEqual(1, lock_b.balls)
        self.assertEqual(0, vuk.balls)
        self.assertEqual(1, vuk.capacity)

        for c in ("c_lock_a", "c_lock_b", "c_vuk"):
            m.coils[c].pulse = MagicMock(wraps=m.coils[c].pulse)

        # both locks are released (default target: playfield, path goes through the vuk)
        lock_a.eject(1)
        lock_b.eject(1)
        self.advance_time_and_run(1)

        fired = m.coils["c_lock_a"].pulse.call_count + m.coils["c_lock_b"].pulse.call_count
        # the vuk has room for ONE ball and has not ejected anything yet
        self.assertEqual(0, m.coils["c_vuk"].pulse.call_count)
        self.assertEqual(
            1, fired,
            "vuk has capacity 1 and is empty, but {} balls were fired towards it at the same time "
            "(lock_a pulses={}, lock_b pulses={})".format(
                fired, m.coils["c_lock_a"].pulse.call_count, m.coils["c_lock_b"].pulse.call_count))


if __name__ == "__main__":
    unittest.main()
