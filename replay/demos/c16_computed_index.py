"""C16 finding 4: index access with a computed (non literal) index raises instead of evaluating.

BasePlaceholderManager._eval_subscript only handles ``node.slice`` being an
ast.Constant, an ast.Index or an ast.Slice.  Since Python 3.9 the parser no longer
emits ast.Index: the index expression itself is stored in ``node.slice``.  Every
index that is not a literal (a name, a machine/player variable, ``-1`` which is a
UnaryOp, ``i + 1`` ...) therefore falls through to ``raise TypeError(type(node.slice))``
which BaseTemplate.evaluate turns into an AssertionError (and evaluate_and_subscribe
lets escape as a TypeError) instead of the value the expression has in Python.
The ast.Index branch that was meant to evaluate the index expression only runs on
Python 3.8 (pyproject: requires-python >= 3.8); on 3.9+ (here 3.12) it is dead code.

Run: cd /tmp/hunt_C16 && PYTHONPATH=/tmp/hunt_C16 /venv/bin/python -W ignore demo.py
"""
import unittest

from mpf.tests.MpfFakeGameTestCase import MpfFakeGameTestCase


class ComputedIndexDemo(MpfFakeGameTestCase):

    def get_config_file(self):
        return 'null.yaml'

    def get_machine_path(self):
        return 'tests/machine_files/null/'

    def test_parameter_index_like_python(self):
        pm = self.machine.placeholder_manager
        for expr, params in [
            ("a[1]", {"a": (10, 20, 30)}),                # control: literal index works
            ("a[i]", {"a": (10, 20, 30), "i": 1}),
            ("a[i + 1]", {"a": (10, 20, 30), "i": 1}),
            ("a[-1]", {"a": (10, 20, 30)}),
            ("a[k]", {"a": {"x": 5}, "k": "x"}),
            ("a[0 if c else 1]", {"a": "ab", "c": False}),
        ]:
            expected = eval(expr, {}, dict(params))     # Python's own semantics
            template = pm.build_raw_template(expr, "DEFAULT")
            self.assertEqual(expected, template.evaluate(params),
                             "template {!r} over {!r}".format(expr, params))

    def test_machine_and_player_index(self):
        pm = self.machine.placeholder_manager
        self.start_game()
        self.add_player()
        self.machine.game.player_list[0].score = 100
        self.machine.game.player_list[1].score = 200
        self.machine.variables.set_machine_var("idx", 1)
        self.machine.variables.set_machine_var("var_name", "idx")
        self.advance_time_and_run(1)

        # control: literal index
        self.assertEqual(200, pm.build_int_template("players[1].score", -1).evaluate({}))
        # index taken from a machine variable / from the current player's own index
        self.assertEqual(200, pm.build_int_template("players[machine.idx].score", -1).evaluate({}))
        self.assertEqual(100, pm.build_int_template("players[current_player.index].score", -1).evaluate({}))
        # machine variable addressed through another variable
        self.assertEqual(1, pm.build_int_template("machine[machine.var_name]", -1).evaluate({}))

    def test_machine_index_with_subscription(self):
        pm = self.machine.placeholder_manager
        self.start_game()
        self.add_player()
        self.machine.game.player_list[1].score = 200
        self.machine.variables.set_machine_var("idx", 1)
        self.advance_time_and_run(1)
        value, future = pm.build_int_template("players[machine.idx].score", -1).evaluate_and_subscribe({})
        self.assertEqual(200, value)
        self.machine.variables.set_machine_var("idx", 0)
        self.advance_time_and_run(1)
        self.assertTrue(future.done())


if __name__ == "__main__":
    unittest.main()
