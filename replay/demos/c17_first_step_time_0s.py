"""C17 finding 2: an absolute first step time of zero that is written as a time string ("0s", "0ms", "0")
creates a zero-duration dummy step on which the show stalls forever.

Show.load():
    if 'time' in data[0] and data[0]['time'] != 0:
        self.show_steps.append({'duration': Util.string_to_secs(data[0]['time'])})
compares the raw config value with the integer 0.  `time: 0s` is the string "0s", so an empty first step with
duration 0.0 is prepended.  It bypasses the "Step has 0 duration" validation (which only covers real steps).
At run time RunningShow._run_next_step() only schedules the next step `if ... time_to_next_step > 0`, so the
show sits on the empty dummy step for ever: no step is ever executed, it never loops and never completes.

The equivalent show with `time: 0` (integer) works, which is what the demo uses as reference.
"""
import os
import shutil
import tempfile
import unittest

from mpf.tests.MpfTestCase import MpfTestCase

CONFIG = """\
#config_version=6
lights:
  l1:
    number: 1
  l2:
    number: 2
shows:
  abs_int:
    - time: 0
      lights:
        l1: red
    - time: 1s
      lights:
        l1: blue
    - time: 2s
  abs_str:
    - time: 0s
      lights:
        l2: red
    - time: 1s
      lights:
        l2: blue
    - time: 2s
"""


class Demo(MpfTestCase):

    def setUp(self):
        self._tmp = tempfile.mkdtemp(prefix="c17_f2_")
        os.makedirs(os.path.join(self._tmp, "config"))
        with open(os.path.join(self._tmp, "config", "config.yaml"), "w") as f:
            f.write(CONFIG)
        super().setUp()

    def tearDown(self):
        super().tearDown()
        shutil.rmtree(self._tmp, ignore_errors=True)

    def get_config_file(self):
        return "config.yaml"

    def get_machine_path(self):
        return self._tmp

    def _rec(self, name, **kwargs):
        self.seen.append((round(self.machine.clock.get_time() - self.t0, 3), name))

    def test_zero_time_string(self):
        self.seen = []
        for name in ("int_played", "int_completed", "str_played", "str_completed"):
            self.machine.events.add_handler(name, self._rec, name=name)

        print("abs_int steps:", [s["duration"] for s in self.machine.shows["abs_int"].show_steps])
        print("abs_str steps:", [s["duration"] for s in self.machine.shows["abs_str"].show_steps])

        self.t0 = self.machine.clock.get_time()
        ref = self.machine.shows["abs_int"].play(loops=0, events_when_played=["int_played"],
                                                 events_when_completed=["int_completed"])
        show = self.machine.shows["abs_str"].play(loops=0, events_when_played=["str_played"],
                                                  events_when_completed=["str_completed"])
        self.advance_time_and_run(.5)
        # reference: step 1 is executed at t
        self.assertLightColor("l1", "red")
        # same show, first time written as "0s": step 1 must also be executed at t (+0s)
        self.assertLightColor("l2", "red")
        self.advance_time_and_run(1)
        self.assertLightColor("l1", "blue")
        self.assertLightColor("l2", "blue")
        self.advance_time_and_run(5)
        print(self.seen)
        self.assertTrue(ref.stopped)
        self.assertTrue(show.stopped, "show never completed: {}".format(show))
        self.assertIn("str_completed", [n for _, n in self.seen])


if __name__ == "__main__":
    unittest.main()
