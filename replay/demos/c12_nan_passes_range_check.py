"""C12 finding 3: NaN passes every numeric range check.

_validate_range_min_smaller_max() rejects only if `value < min` or
`value > max`.  Both comparisons are False for NaN, so a ranged validator such
as float(0,1) (coils: default_pulse_power / default_hold_power /
max_pulse_power / max_hold_power, coil_overwrites ...) or num(0,1) returns NaN -
a value outside the declared range.  NaN is a plain YAML scalar (`.nan`), and
the string "nan" is accepted as well.  Downstream, Driver.get_and_verify_pulse_power()
checks `pulse_power > max_pulse_power`, which is always False for a NaN limit,
i.e. the coil's safety limit is silently switched off.
"""
import math
import unittest

from mpf.core.config_validator import ValidationPath
from mpf.exceptions.config_file_error import ConfigFileError
from mpf.file_interfaces.yaml_interface import YamlInterface
from mpf.tests.MpfTestCase import MpfTestCase


class NanRangeDemo(MpfTestCase):

    def get_config_file(self):
        return 'test_config_interface.yaml'

    def get_machine_path(self):
        return 'tests/machine_files/config_interface/'

    def setUp(self):
        self.machine_spec_patches['test_section'] = dict(__valid_in__='machine')
        super().setUp()

    def _validate(self, spec, item):
        vfi = ValidationPath(ValidationPath(ValidationPath(None, "section"), "entry"), "key")
        return self.machine.config_validator.validate_config_item(spec.split("|"), vfi, item)

    def assertInRangeOrRejected(self, spec, item, low, high):
        try:
            value = self._validate(spec, item)
        except ConfigFileError:
            return  # rejected: fine
        self.assertTrue(low <= value <= high,
                        "{} accepted {!r} and returned {!r} which is not in [{}, {}]".format(
                            spec, item, value, low, high))

    def test_sanity_range_is_enforced_for_ordinary_values(self):
        with self.assertRaises(ConfigFileError):
            self._validate("single|float(0,1)|0", 1.5)
        with self.assertRaises(ConfigFileError):
            self._validate("single|float(0,1)|0", -0.5)

    def test_nan_float(self):
        self.assertInRangeOrRejected("single|float(0,1)|0", float("nan"), 0, 1)

    def test_nan_string(self):
        self.assertInRangeOrRejected("single|float(0,1)|0", "nan", 0, 1)

    def test_nan_num(self):
        self.assertInRangeOrRejected("single|num(0,1)|0", float("nan"), 0, 1)

    def test_real_spec_coil_max_pulse_power_from_yaml(self):
        """coils: max_pulse_power: single|float(0,1)|1.0, value comes from real YAML."""
        spec = self.machine.config_validator.get_config_spec()["coils"]["max_pulse_power"]
        self.assertEqual(["single", "float(0,1)", "1.0"], spec)
        loaded = YamlInterface.process("max_pulse_power: .nan\n")
        self.assertTrue(isinstance(loaded["max_pulse_power"], float) and math.isnan(loaded["max_pulse_power"]))
        self.assertInRangeOrRejected("|".join(spec), loaded["max_pulse_power"], 0, 1)


if __name__ == "__main__":
    unittest.main()
