"""C02 finding 4: queue_event_player without `events_when_finished` (it is optional: default None in
config_spec) calls EventManager.post_queue(event, **args) without the mandatory positional `callback`
-> TypeError, the queue event is never posted and none of its handlers run.

Run: cd /tmp/hunt_C02 && PYTHONPATH=/tmp/hunt_C02 /venv/bin/python -W ignore demo.py
"""
import os
import tempfile
import unittest

from mpf.tests.MpfTestCase import MpfTestCase

CONFIG = """#config_version=6
queue_event_player:
    play_no_finish:
      queue_event: queue_event_a
"""


class TestQueueEventPlayerNoFinish(MpfTestCase):

    def get_config_file(self):
        return 'config.yaml'

    def get_machine_path(self):
        d = tempfile.mkdtemp()
        os.makedirs(os.path.join(d, 'config'))
        with open(os.path.join(d, 'config', 'config.yaml'), 'w') as f:
            f.write(CONFIG)
        return d

    def _handler(self, queue, **kwargs):
        del queue
        self.ran.append(kwargs)

    def test_queue_event_is_posted(self):
        self.ran = []
        self.machine.events.add_handler("queue_event_a", self._handler)
        self.post_event("play_no_finish")
        self.advance_time_and_run()
        # every registered handler of the queue event must have run
        self.assertEqual(1, len(self.ran))


if __name__ == '__main__':
    unittest.main()
