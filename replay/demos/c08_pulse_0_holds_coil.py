"""C08 finding 1: Driver.pulse(0) switches the coil ON with a hold command.

A coil which may not be held (no allow_enable, no max_hold_power, no
default_hold_power) and whose max_pulse_ms is 50 receives pulse(pulse_ms=0)
(zero is inside the quantifier; it is what BCP "coil_pulse" with pulse_ms=0, a
coil_player entry "pulse_ms: 0", or a flipper power setting factor rounding to 0
produce).  `_pulse_now` only uses the hardware pulse for `0 < pulse_ms <= max`,
so 0 takes the software-timed branch: the platform driver receives
enable(PulseSettings(1.0, 0), HoldSettings(power=1.0)) - a hold command at full
power for a coil whose maximum hold power is 0 - and the coil stays energised
until the next loop iteration delivers disable().
"""
import os
import shutil
import tempfile
import unittest

from mpf.tests.MpfTestCase import MpfTestCase

CONFIG = """#config_version=6
coils:
    c_nohold:
        number: 1
        default_pulse_ms: 20
        max_pulse_ms: 50
"""

_HERE = os.path.dirname(os.path.abspath(__file__))
_MACHINE = tempfile.mkdtemp(prefix="c08_f1_")
os.makedirs(os.path.join(_MACHINE, "config"))
with open(os.path.join(_MACHINE, "config", "config.yaml"), "w") as f:
    f.write(CONFIG)


def tearDownModule():
    shutil.rmtree(_MACHINE, ignore_errors=True)


class PulseZero(MpfTestCase):

    def get_config_file(self):
        return 'config.yaml'

    def get_machine_path(self):
        return _MACHINE

    def get_platform(self):
        return 'virtual'

    def test_pulse_zero_must_not_hold_the_coil(self):
        coil = self.machine.coils["c_nohold"]
        hw = coil.hw_driver
        commands = []
        orig_enable, orig_pulse = hw.enable, hw.pulse

        def enable(pulse_settings, hold_settings):
            commands.append(("enable", pulse_settings, hold_settings))
            return orig_enable(pulse_settings, hold_settings)

        def pulse(pulse_settings):
            commands.append(("pulse", pulse_settings))
            return orig_pulse(pulse_settings)

        hw.enable = enable
        hw.pulse = pulse

        # sanity: holding this coil is refused
        with self.assertRaises(Exception):
            coil.enable()
        with self.assertRaises(Exception):
            coil.enable(hold_power=1.0)
        self.assertEqual([], commands)

        try:
            coil.pulse(0)
        except Exception:   # a refusal would be fine
            pass

        state_right_after = hw.state
        self.advance_time_and_run(1)

        # the property: no command carries a hold power above max_hold_power (0 here) and a coil whose
        # configuration does not allow holding is never held
        for command in commands:
            if command[0] == "enable":
                self.fail("pulse(0) sent a HOLD command to a coil which may not be held: {} "
                          "(coil state right after the call: {})".format(command, state_right_after))
            self.assertLessEqual(command[1].duration, 50)


if __name__ == '__main__':
    unittest.main()
