"""C14 / FAST: an unrelated incoming frame cancels the retry of a lost response.

The start-up query is sent exactly as net_neuron.init() sends it:
    send_and_wait_for_response_processed('ID:', 'ID:', max_retries=-1)
i.e. "retry for ever, once per second, until the ID: response arrives".
The response is lost.  Within the one second time-out the board reports an
ordinary switch change ('-L:02').  The property says that a lost response is
retried as configured rather than blocking the queue for ever.  Instead
_dispatch_incoming_msg() sets no_response_waiting for ANY frame that has a
message processor, so the switch report is taken for the awaited response, the
time-out never fires, 'ID:' is never sent again (although the board would
answer it now) and the caller blocks for ever.
"""
import asyncio
import unittest

import mpf.tests.test_Fast_Neuron as tfn


class TestRetry(tfn.TestFastNeuron):

    def test_unrelated_frame_does_not_cancel_retry(self):
        comm = self.fast_net_serial()
        self.advance_time_and_run(.1)
        self.assertSwitchState("s_flipper_eos", 0)

        # the first ID: is not answered (lost); later ones are answered by the mock's autorespond entry
        self.net_cpu.expected_commands = {"ID:": None}
        start = len(self.net_cpu.msg_history)
        query = asyncio.ensure_future(
            comm.send_and_wait_for_response_processed('ID:', 'ID:', max_retries=-1))
        self.advance_time_and_run(.5)
        self.assertFalse(self.net_cpu.expected_commands)    # written once, response lost
        self.assertFalse(query.done())

        # an unsolicited switch report arrives while the ID: response is awaited
        comm.parse_incoming_raw_bytes(b"-L:02\r")
        self.assertSwitchState("s_flipper_eos", 1)

        self.advance_time_and_run(10)       # ten time-outs
        ids = [m for m in self.net_cpu.msg_history[start:] if m == "ID:"]
        print("ID: written %s time(s); query done: %s; still pausing for: %r" % (
            len(ids), query.done(), comm.pause_sending_until))
        try:
            self.assertGreaterEqual(len(ids), 2, "the lost ID: query was never retried")
            self.assertTrue(query.done(), "the caller blocks for ever")
        finally:
            query.cancel()


if __name__ == "__main__":
    unittest.main(defaultTest="TestRetry.test_unrelated_frame_does_not_cancel_retry")
