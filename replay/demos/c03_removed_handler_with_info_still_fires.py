"""C03: 'a removed handler never fires'.
A handler registered with return_info=True (or callback_kwargs) is stored as functools.partial(callback, ...);
remove_switch_handler_obj(switch, callback, state, ms) compares the stored partial with the bare callback, finds
nothing and removes nothing.  Exit 0 = property holds."""
import sys
import unittest

from mpf.tests.MpfTestCase import MpfTestCase


class T(MpfTestCase):
    def get_config_file(self):
        return 'config.yaml'

    def get_machine_path(self):
        return 'tests/machine_files/switch_controller/'

    def test_removed_handler(self):
        calls = []

        def cb(**kwargs):
            calls.append(kwargs)

        sw = self.machine.switches["s_test"]
        sc = self.machine.switch_controller
        for kw in (dict(return_info=True), dict(callback_kwargs={"x": 1}), dict()):
            del calls[:]
            sc.add_switch_handler_obj(sw, cb, 1, 0, **kw)
            sc.remove_switch_handler_obj(sw, cb, 1, 0)
            self.hit_and_release_switch("s_test")
            self.advance_time_and_run(.1)
            self.assertEqual([], calls, "handler registered with %r was removed but still fired: %r" % (kw, calls))


if __name__ == "__main__":
    r = unittest.main(exit=False).result
    sys.exit(0 if r.wasSuccessful() else 1)
