"""C09 finding 3: a command with a negative priority is dropped if (and only if) the stack is not empty.

_add_to_stack() guards against lowering the priority of an existing key:
    if self.stack and priority < self._get_priority_from_key(key): return
but _get_priority_from_key() returns 0 for a key which is NOT in the stack. So a new key with priority < 0 is
silently discarded whenever the stack holds anything, while the very same command is accepted on an empty stack.
"""
import unittest

from mpf.core.rgb_color import RGBColor
from mpf.tests.MpfTestCase import MpfTestCase


class TestNegativePriority(MpfTestCase):

    def get_config_file(self):
        return 'light.yaml'

    def get_machine_path(self):
        return 'tests/machine_files/light/'

    def _hw(self, led):
        return tuple(round(led.hw_drivers[c][0].current_brightness * 255) for c in ("red", "green", "blue"))

    def test_control_background_first(self):
        """Control: passes. The negative priority entry is added to an empty stack."""
        led = self.machine.lights["led1"]
        led.color("blue", key="background", priority=-1, fade_ms=0)
        led.color("red", key="foreground", priority=0, fade_ms=0)
        self.advance_time_and_run(1)
        self.assertEqual(RGBColor("red"), led.get_color())
        led.remove_from_stack_by_key("foreground", fade_ms=0)
        self.advance_time_and_run(1)
        self.assertEqual(RGBColor("blue"), led.get_color())
        self.assertEqual((0, 0, 255), self._hw(led))

    def test_background_second(self):
        """Fails: the same two entries, added in the other order."""
        led = self.machine.lights["led1"]
        led.color("red", key="foreground", priority=0, fade_ms=0)
        led.color("blue", key="background", priority=-1, fade_ms=0)
        self.advance_time_and_run(1)
        self.assertEqual(RGBColor("red"), led.get_color())
        # removing the key restores exactly the colour beneath it
        led.remove_from_stack_by_key("foreground", fade_ms=0)
        self.advance_time_and_run(1)
        self.assertEqual(RGBColor("blue"), led.get_color(),
                         "the priority -1 entry never made it into the stack: {}".format(led.stack))
        self.assertEqual((0, 0, 255), self._hw(led))


if __name__ == "__main__":
    unittest.main()
