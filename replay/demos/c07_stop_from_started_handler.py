"""C07 finding 3: a stop request which arrives between Mode._started (mode active, mode_<name>_started posted)
and Mode._mode_started_callback (the callback of that event, which runs mode_start() and the start callback) is
accepted and completes - and only THEN mode_start() of the already stopped mode runs. Everything mode_start()
registers (switch handlers, mode event handlers, delays) is registered on a stopped mode and stays behind.

Demonstrated with the built-in attract mode (mpf.modes.attract): its mode_start() registers two switch
handlers per start button and an event handler. The stop request is issued from a handler of the mode's
own lifecycle event mode_attract_started.

Run: cd /tmp/hunt_C07 && PYTHONPATH=/tmp/hunt_C07 /venv/bin/python -W ignore demo.py
"""
import os
import shutil
import tempfile
import unittest

from mpf.tests.MpfTestCase import MpfTestCase

MACHINE_CONFIG = """#config_version=6
game:
  start_game_event: my_start_game_event

switches:
  s_start:
    number: 1
    tags: start

modes:
  - attract
"""


class TestStopFromStartedEvent(MpfTestCase):

    def get_config_file(self):
        return 'config.yaml'

    def get_machine_path(self):
        return self._machine_dir

    def setUp(self):
        self._machine_dir = tempfile.mkdtemp(prefix="c07_f3_")
        os.makedirs(os.path.join(self._machine_dir, "config"))
        with open(os.path.join(self._machine_dir, "config", "config.yaml"), "w") as f:
            f.write(MACHINE_CONFIG)
        super().setUp()

    def tearDown(self):
        super().tearDown()
        shutil.rmtree(self._machine_dir, ignore_errors=True)

    def _attract_switch_handlers(self):
        attract = self.machine.modes["attract"]
        found = []
        for switch, per_state in self.machine.switch_controller.registered_switches.items():
            for state, handlers in enumerate(per_state):
                for handler in handlers:
                    callback = getattr(handler, "callback", None)
                    if getattr(callback, "__self__", None) is attract:
                        found.append((switch.name, state, callback.__name__))
        return found

    def _attract_event_handlers(self, event):
        attract = self.machine.modes["attract"]
        return [h for h in self.machine.events.registered_handlers.get(event, [])
                if getattr(h.callback, "__self__", None) is attract]

    def test_stop_from_started_handler(self):
        attract = self.machine.modes["attract"]
        self.advance_time_and_run(1)
        # attract started on reset_complete. baseline of a normal run:
        self.assertTrue(attract.active)
        self.assertEqual(2, len(self._attract_switch_handlers()))
        self.assertEqual(1, len(self._attract_event_handlers("my_start_game_event")))

        # normal stop: everything is gone. this is the "before it started" state of the registries
        attract.stop()
        self.advance_time_and_run(1)
        self.assertFalse(attract.active)
        self.assertEqual([], self._attract_switch_handlers())
        self.assertEqual([], self._attract_event_handlers("my_start_game_event"))

        # now a cycle in which the stop request comes from a handler of mode_attract_started
        lifecycle = []
        for ev in ("will_start", "starting", "started", "will_stop", "stopping", "stopped"):
            self.machine.events.add_handler("mode_attract_" + ev, lambda _ev=ev, **kwargs: lifecycle.append(_ev))
        self.machine.events.add_handler("mode_attract_started", lambda **kwargs: attract.stop())

        attract.start()
        self.advance_time_and_run(1)

        # both requests were accepted and completed
        self.assertEqual(["will_start", "starting", "started", "will_stop", "stopping", "stopped"], lifecycle)
        self.assertFalse(attract.active)
        self.assertNotIn(attract, self.machine.mode_controller.active_modes)

        # once a mode has stopped everything it registered must be gone
        self.assertEqual([], self._attract_switch_handlers(),
                         "switch handlers of the stopped attract mode are still registered")
        self.assertEqual([], self._attract_event_handlers("my_start_game_event"),
                         "event handler of the stopped attract mode is still registered")
        self.assertEqual([], list(attract.switch_handlers))
        self.assertEqual(set(), attract.event_handlers)


if __name__ == "__main__":
    unittest.main()
