"""C14 / FAST ASCII decoder: line noise kills the decoder instead of being skipped.

One corrupted byte (0xFF, not valid UTF-8) inside one '\r'-delimited frame is
received from the port, followed by perfectly valid frames.  The property says
that a malformed frame never changes a switch state and that after line noise
the decoder resynchronises so that subsequent valid frames are decoded again.
Instead parse_incoming_raw_bytes() re-raises the UnicodeDecodeError, the
exception leaves _socket_reader(), the read task is dead and no later frame is
ever decoded (in a real machine MPF shuts down).
"""
import unittest

import mpf.tests.test_Fast_Neuron as tfn


class TestNoise(tfn.TestFastNeuron):

    def _feed(self, chunks):
        """Let the mock serial port deliver raw bytes to MPF's real read task."""
        chunks = list(chunks)
        orig_read, orig_ready = self.net_cpu.read, self.net_cpu.read_ready
        self.net_cpu.read = lambda length: chunks.pop(0) if chunks else orig_read(length)
        self.net_cpu.read_ready = lambda: bool(chunks) or orig_ready()

    def test_noise_then_valid_frames(self):
        comm = self.fast_net_serial()
        self.advance_time_and_run(.1)
        self.assertSwitchState("s_flipper_eos", 0)      # switch 0x02
        read_task = comm.read_task
        self.assertFalse(read_task.done())

        # sanity: the path through the mock port works for a valid frame
        self._feed([b"-L:02\r"])
        self.advance_time_and_run(.1)
        self.assertSwitchState("s_flipper_eos", 1)
        self._feed([b"/L:02\r"])
        self.advance_time_and_run(.1)
        self.assertSwitchState("s_flipper_eos", 0)

        # a frame hit by line noise, then a valid frame
        self._feed([b"-L:\xff2\r", b"-L:02\r"])
        error = None
        try:
            self.advance_time_and_run(.1)
        except Exception as e:      # the test loop re-raises what killed the read task
            error = e
        print("exception out of the loop:", repr(error))
        print("read task dead:", read_task.done())

        # more valid frames (nothing is ever decoded again)
        self._feed([b"/L:02\r", b"-L:02\r"])
        try:
            self.advance_time_and_run(.1)
        except Exception as e:
            print("exception out of the loop:", repr(e))

        state = self.machine.switches["s_flipper_eos"].state
        print("s_flipper_eos state after the valid '-L:02' frames:", state)
        # do not let the harness complain about the dead task in tearDown
        self.startup_error = True if read_task.done() else self.startup_error
        self.assertFalse(read_task.done(), "the decoder (read task) died on line noise")
        self.assertEqual(1, state, "valid frames after the noise were not decoded")


if __name__ == "__main__":
    unittest.main(defaultTest="TestNoise.test_noise_then_valid_frames")
