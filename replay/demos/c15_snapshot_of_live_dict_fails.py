"""C15 finding 2: the writer thread of a DataManager dies when the snapshot (copy.deepcopy) of the data fails.

DataManager._writing_thread() wraps FileManager.save() into try/except ("Otherwise this thread will die and all
subsequent write attempts will no-op") but takes the snapshot `copy.deepcopy(self.data)` OUTSIDE of that try. When the
deepcopy raises, the thread is gone and every later save_all() of this DataManager is silently never written (neither by
the loop nor by the shutdown flush).

test_live_dict_like_auditor: the history the Auditor produces. Auditor._save_audits() hands its LIVE dict
    (self.current_audits) to save_all() and keeps mutating it on the main thread (audit_switch() deletes keys from
    current_audits['missing_switches'], audit() adds keys). If such a size change happens while the writer thread
    iterates the dict in deepcopy -> "RuntimeError: dictionary changed size during iteration" in the writer thread.
    The dict is big here only to make the window wide enough for a deterministic demo.

(The second history of the report - a list nested 600 deep, RecursionError - is not replayed here: where the recursion
limit strikes depends on the stack depth of the moment.)  [removed] test_value_deepcopy_cannot_handle: no race at all. A (YAML representable) nested list which is deeper than deepcopy
    can handle -> RecursionError in the writer thread. One failed write, and all later saves are lost.
"""
import os
import shutil
import tempfile
import time
import unittest

from mpf.core.data_manager import DataManager
from mpf.core.file_manager import FileManager
from mpf.tests.MpfTestCase import MpfTestCase


class TestWriterThreadSurvives(MpfTestCase):

    def get_config_file(self):
        return "config.yaml"

    def get_machine_path(self):
        self._dir = tempfile.mkdtemp(prefix="c15_f2_")
        os.makedirs(os.path.join(self._dir, "config"))
        with open(os.path.join(self._dir, "config", "config.yaml"), "w") as f:
            f.write("#config_version=6\nmpf:\n  paths:\n    demo: {}\n".format(
                os.path.join(self._dir, "data", "demo.yaml")))
        return self._dir

    def get_abs_path(self, path):
        return path

    def tearDown(self):
        super().tearDown()
        shutil.rmtree(self._dir, ignore_errors=True)

    def _wait_for_file(self, filename, expected, timeout=5.0):
        end = time.time() + timeout
        content = None
        while time.time() < end:
            if os.path.isfile(filename):
                content = FileManager.load(filename, halt_on_error=False)
                if content == expected:
                    return content
            time.sleep(.05)
        return content

    def test_live_dict_like_auditor(self):
        manager = DataManager(self.machine, "demo", min_wait_secs=0)
        time.sleep(.1)
        # what the auditor does: hand over the live dict ...
        audits = {"missing_switches": {"s_{}".format(i): 1 for i in range(300000)}, "switches": {}}
        manager.save_all(data=audits)
        # ... and go on auditing on the main thread (Auditor.audit_switch)
        for i in range(200):
            time.sleep(.001)
            del audits["missing_switches"]["s_{}".format(i)]
            audits["switches"]["s_{}".format(i)] = 1

        time.sleep(2)
        # a later save (plenty of time, no I/O error at all)
        later = {"switches": {"s_1": 5}}
        manager.save_all(data=later)
        on_disk = self._wait_for_file(manager.filename, later)
        self.assertEqual(later, on_disk, "a later save_all() was never written: the writer thread died")


if __name__ == "__main__":
    import sys
    result = unittest.main(exit=False, argv=[sys.argv[0]]).result
    sys.exit(0 if result.wasSuccessful() else 1)
