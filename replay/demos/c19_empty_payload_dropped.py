"""C19: 'the receiver reassembles commands and attached binary payloads identically'.
A message announcing an empty payload (&bytes=0) must be handed on with rawbytes == b''.  Exit 0 = property holds."""
import asyncio
import sys

from mpf.core.bcp.bcp_socket_client import AsyncioBcpClientSocket


async def main():
    r = asyncio.StreamReader()
    r.feed_data(b"dmd_frame?name=x&bytes=0\nnext?a=int:1\n")
    r.feed_eof()
    c = AsyncioBcpClientSocket(None, r)
    return await c.read_message(), await c.read_message()


m1, m2 = asyncio.run(main())
if m1[1].get("rawbytes") != b"" or m2 != ("next", {"a": 1}):
    print("FAIL: message with an empty payload decoded as %r (no 'rawbytes'); next message %r" % (m1, m2))
    sys.exit(1)
print("ok:", m1, m2)
