"""C07 finding 4: a config player entry with a subscription (`"{machine.foo == 1}": ...`) in a mode registers,
on mode start, an event handler for machine_var_foo (EventManager.wait_for_event, via the placeholder
subscription). ConfigPlayer.mode_stop -> unload_player_events only cancels the subscription future; the handler
which was registered for that future stays in machine.events.registered_handlers. Every start/stop cycle of the
mode leaves one more handler behind (until the variable happens to change).

Run: cd /tmp/hunt_C07 && PYTHONPATH=/tmp/hunt_C07 /venv/bin/python -W ignore demo.py
"""
import os
import shutil
import tempfile
import unittest

from mpf.tests.MpfTestCase import MpfTestCase

MACHINE_CONFIG = """#config_version=6
modes:
  - m

machine_vars:
  foo:
    initial_value: 0
    value_type: int
    persist: False
"""

MODE_CONFIG = """#config_version=6
mode:
  start_events: start_m
  stop_events: stop_m
  priority: 100
  game_mode: False

event_player:
  "{machine.foo == 1}": foo_is_one
"""


class TestSubscriptionHandlerLeak(MpfTestCase):

    def get_config_file(self):
        return 'config.yaml'

    def get_machine_path(self):
        return self._machine_dir

    def setUp(self):
        self._machine_dir = tempfile.mkdtemp(prefix="c07_f4_")
        os.makedirs(os.path.join(self._machine_dir, "config"))
        os.makedirs(os.path.join(self._machine_dir, "modes", "m", "config"))
        with open(os.path.join(self._machine_dir, "config", "config.yaml"), "w") as f:
            f.write(MACHINE_CONFIG)
        with open(os.path.join(self._machine_dir, "modes", "m", "config", "m.yaml"), "w") as f:
            f.write(MODE_CONFIG)
        super().setUp()

    def tearDown(self):
        super().tearDown()
        shutil.rmtree(self._machine_dir, ignore_errors=True)

    def _registry(self):
        """Snapshot of the event registry: number of handlers per event."""
        return {event: len(handlers) for event, handlers in self.machine.events.registered_handlers.items()
                if handlers}

    def test_registries_after_stop_equal_registries_before_start(self):
        mode = self.machine.modes["m"]
        self.advance_time_and_run(1)
        self.assertFalse(mode.active)
        before = self._registry()
        self.assertNotIn("machine_var_foo", before)

        # sanity: the subscription works while the mode runs
        self.mock_event("foo_is_one")
        self.post_event("start_m")
        self.advance_time_and_run(1)
        self.assertTrue(mode.active)
        self.assertEqual(1, len(self.machine.events.registered_handlers["machine_var_foo"]))
        self.post_event("stop_m")
        self.advance_time_and_run(1)
        self.assertFalse(mode.active)

        after_one_cycle = self._registry()
        after_one_cycle.pop("foo_is_one", None)     # the mock of this test

        for _ in range(9):
            self.post_event("start_m")
            self.advance_time_and_run(1)
            self.assertTrue(mode.active)
            self.post_event("stop_m")
            self.advance_time_and_run(1)
            self.assertFalse(mode.active)

        after_ten_cycles = self._registry()
        after_ten_cycles.pop("foo_is_one", None)

        self.assertEventNotCalled("foo_is_one")
        self.assertEqual(
            (0, 0),
            (after_one_cycle.get("machine_var_foo", 0), after_ten_cycles.get("machine_var_foo", 0)),
            "handlers for machine_var_foo left behind by the stopped mode after (one cycle, ten cycles)")
        self.assertEqual(before, after_one_cycle,
                         "event registry after one start/stop cycle differs from the registry before the start")
        self.assertEqual(before, after_ten_cycles,
                         "event registry after ten start/stop cycles differs from the registry before the start")


if __name__ == "__main__":
    unittest.main()
