"""C03 finding 1: a hold-time handler that registers another hold-time handler
(same switch, same state, deadline still ahead) while a later deadline is
pending leaves TWO clock callbacks for _process_active_timed_switches.  The
orphaned one later runs `del self._timed_switch_handler_delay[switch]` on a
missing key -> KeyError in the event loop (MPF stops the machine on an
unhandled loop exception).

Timeline (switch s_test, NO, becomes active at t0 and stays active):
  registered before t0:  A (100ms), B (200ms)
  A's callback registers C (300ms) "mid-interval"  -> original deadline t0+300ms is still ahead
The property promises A@100, B@200, C@300, each exactly once, nothing else.
"""
import unittest

from mpf.tests.MpfTestCase import MpfTestCase


class Demo(MpfTestCase):

    def get_config_file(self):
        return 'config.yaml'

    def get_machine_path(self):
        return 'tests/machine_files/switch_controller/'

    def test_timed_handler_registers_timed_handler(self):
        sc = self.machine.switch_controller
        calls = []

        def now_ms():
            return round((self.machine.clock.get_time() - self.t0) * 1000)

        def c():
            calls.append(("C", now_ms()))

        def a():
            calls.append(("A", now_ms()))
            # handler added mid-interval; original deadline (t0 + 300ms) is still ahead
            sc.add_switch_handler("s_test", c, state=1, ms=300)

        def b():
            calls.append(("B", now_ms()))

        sc.add_switch_handler("s_test", a, state=1, ms=100)
        sc.add_switch_handler("s_test", b, state=1, ms=200)

        self.t0 = self.machine.clock.get_time()
        error = None
        try:
            # switch goes active and stays active for 1s
            self.hit_switch_and_run("s_test", 1)
        except BaseException as e:     # the loop exception is re-raised by advance_time_and_run
            error = e

        print("handler calls:", calls)
        print("error:", repr(error))
        self.assertEqual(1, self.machine.switches["s_test"].state)
        self.assertIsNone(error, "switch controller crashed while processing hold-time deadlines: {!r}".format(error))
        self.assertEqual([("A", 100), ("B", 200), ("C", 300)], calls)


if __name__ == "__main__":
    unittest.main()
