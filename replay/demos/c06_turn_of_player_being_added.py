"""C06: a player-add request accepted during ball 1 whose player_adding queue event is held by a slow handler, while the
current player's ball ends in that window: the next turn belongs to the new player; the game must go on (turn for
player 2, ball 1)."""
import sys
import unittest

from mpf.tests.MpfGameTestCase import MpfGameTestCase


class TestLatePlayer(MpfGameTestCase):

    def get_config_file(self):
        return 'config.yaml'

    def get_machine_path(self):
        return 'tests/machine_files/game/'

    def _hold(self, queue, **kwargs):
        del kwargs
        queue.wait()
        self.queues.append(queue)

    def test_turn_of_player_being_added(self):
        self.queues = []
        self.machine.events.add_handler("player_adding", self._hold)
        self.machine.events.add_handler("ball_started", self._ball_started)
        self.started = []
        self.machine.playfield.add_ball = lambda *a, **k: None
        self.post_event("game_start")
        self.advance_time_and_run(1)
        # player 1 is being added: release
        self.assertEqual(1, len(self.queues))
        self.queues.pop().clear()
        self.advance_time_and_run(1)
        self.assertEqual([(1, 1)], self.started)
        # player 2 requested; its player_adding is held
        self.machine.game.request_player_add()
        self.advance_time_and_run(1)
        self.assertEqual(2, self.machine.game.num_players)
        self.assertEqual(1, len(self.queues))
        # player 1's ball ends while player 2 is still being added
        self.machine.game.end_ball()
        self.advance_time_and_run(1)
        # the next turn is player 2's, ball 1
        self.assertEqual([(1, 1), (2, 1)], self.started)
        self.queues.pop().clear()
        self.advance_time_and_run(1)
        self.assertIsNotNone(self.machine.game)

    def _ball_started(self, player, ball, **kwargs):
        del kwargs
        self.started.append((player, ball))


if __name__ == "__main__":
    result = unittest.main(exit=False, argv=[sys.argv[0]]).result
    sys.exit(0 if result.wasSuccessful() else 1)
