"""C06 finding 1: a player-add request which arrives after the rotation to player 1 for ball 2 but before
player_turn_started (i.e. inside player_turn_will_start / the player_turn_starting queue event) is accepted, because
request_player_add() only looks at self.player.ball which is incremented after the player_turn_starting queue.
The late player is one ball behind everybody else, and because the game only ends when the LAST player has reached
balls_per_game, all earlier players get turns with ball numbers > balls_per_game.
"""
import os
import tempfile
import unittest

from mpf.tests.MpfFakeGameTestCase import MpfFakeGameTestCase

CONFIG = """#config_version=6
game:
    balls_per_game: 3
    max_players: 4
playfields:
    playfield:
        default_source_device: None
        tags: default
"""


class TestLatePlayerAdd(MpfFakeGameTestCase):

    def get_config_file(self):
        return 'config.yaml'

    def get_machine_path(self):
        path = tempfile.mkdtemp(prefix="c06_f1_")
        os.makedirs(os.path.join(path, "config"))
        with open(os.path.join(path, "config", "config.yaml"), "w") as f:
            f.write(CONFIG)
        return path

    def _ball_started(self, player, ball, **kwargs):
        self.balls.append((player, ball))

    def _turn_starting(self, queue, number, **kwargs):
        """Delay the queue event by one second (e.g. a "player 1 is up" show)."""
        queue.wait()
        self.pending_queue = queue

    def test_add_player_between_ball_1_and_ball_2(self):
        self.balls = []
        self.pending_queue = None
        self.machine.events.add_handler('ball_started', self._ball_started)
        self.start_game()
        self.assertEqual(3, self.machine.game.balls_per_game)
        self.assertEqual([(1, 1)], self.balls)

        # from now on the player_turn_starting queue event is held by a handler
        self.machine.events.add_handler('player_turn_starting', self._turn_starting)

        # player 1 drains ball 1. his turn ends, the game rotates to player 1 again and waits in player_turn_starting
        self.drain_all_balls()
        self.assertIsNotNone(self.pending_queue)
        self.assertEqual(1, self.machine.game.num_players)
        # ball 1 of the only player is over. we are in the start of his turn for ball 2.

        # somebody presses start now
        self.hit_and_release_switch("s_start")
        self.advance_time_and_run(.1)

        # release the queue event: ball 2 of player 1 starts
        self.machine.events.remove_handler(self._turn_starting)
        self.pending_queue.clear()
        self.advance_time_and_run()

        # play the game to its end
        for _ in range(20):
            if not self.machine.game:
                break
            self.drain_all_balls()
        self.assertIsNone(self.machine.game)

        print("balls started (player, ball):", self.balls)

        # "for each ball number up to balls_per_game each player in order gets exactly one turn"
        # no turn may have a ball number above balls_per_game
        self.assertFalse([b for b in self.balls if b[1] > 3],
                         "balls above balls_per_game=3 were played: {}".format(self.balls))
        # and every player who is in the game has played the same balls 1..3 exactly once
        players = sorted(set(p for p, _ in self.balls))
        for player in players:
            self.assertEqual([1, 2, 3], [b for p, b in self.balls if p == player])


if __name__ == '__main__':
    unittest.main()
