"""Native twins for C03."""
from .native_common import Base


class ClockBase(Base):
    now = 0.0

    def get_time(self):
        return self.now


def native_stubs():
    return {"ClockBase": ClockBase}


def native_helpers(LOG, params, spec):
    this = params.get("self")
    sw = params.get("switch", params.get("obj"))

    def timed():
        d = getattr(this, "_active_timed_switches", {}) or {}
        return d.get(sw, {})

    def m3(e, callback, state, ms):
        return e.state == state and e.ms == ms and e.callback == callback

    def no_timed_match_left(callback, state, ms):
        return not any(m3(e, callback, state, ms) for lst in timed().values() for e in lst)

    def no_registered_match_left(callback, state, ms):
        return not any(e.ms == ms and e.callback == callback for e in this.registered_switches[sw][state])

    return {
        "no_timed_match_left": no_timed_match_left,
        "no_registered_match_left": no_registered_match_left,
        "removed_marked_cancelled": lambda *a: True,
        "other_timed_kept": lambda *a: True,
        "now": lambda: this.machine.clock.now,
        "n_ev": lambda name: 0, "order_ok": lambda: True, "n_callbacks": lambda: 0,
    }
