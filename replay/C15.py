"""Native stand-ins for C15's machine-variable contracts (also replayed from C20m): a wall clock that shows the model's
`now`.  The data-manager helpers (disk_entry_is, n_saves, posted_change, fs_at ...) have no twin: clauses that use them
evaluate to None natively and their violations are reported with no-failing-input-found."""
from fractions import Fraction

NOW = [0.0]


class DateTime:
    def timestamp(self):
        return NOW[0]


class Clock:
    def __init__(self, name, log):
        self._name = name
        self._log = log

    def get_datetime(self):
        return DateTime()


def native_stubs():
    return {"Clock": Clock}


def native_helpers(LOG, params, spec):
    v = (spec.get("symbols") or {}).get("now_ts")
    if v is not None:
        try:
            NOW[0] = float(Fraction(str(v).rstrip("?")))
        except (ValueError, ZeroDivisionError):
            pass

    def now():
        return NOW[0]
    return {"now": now}
