"""Native stand-ins for C15's machine-variable contracts (also replayed from C20m): a wall clock that shows the model's
`now`, and twins of the trace helpers of the machine-variable contracts read from the calls recorded on the stand-ins of
the data manager (save_all) and the event manager (post).  The file-system helpers of the data-manager contracts (fs_at,
content, ghost.faults ...) have no twin: clauses that use them evaluate to None natively and their violations are
reported with no-failing-input-found."""
from fractions import Fraction

NOW = [0.0]


class DateTime:
    def timestamp(self):
        return NOW[0]


class Clock:
    def __init__(self, name, log):
        self._name = name
        self._log = log

    def get_datetime(self):
        return DateTime()


def native_stubs():
    return {"Clock": Clock}


def native_helpers(LOG, params, spec):
    v = (spec.get("symbols") or {}).get("now_ts")
    if v is not None:
        try:
            NOW[0] = float(Fraction(str(v).rstrip("?")))
        except (ValueError, ZeroDivisionError):
            pass

    def now():
        return NOW[0]

    def _saves():
        return [c for c in LOG if c.get("method") == "save_all"]

    def _posts():
        return [c for c in LOG if c.get("method") == "post"]

    def _last_saved():
        s = _saves()
        if not s:
            return None
        return s[-1]["kwargs"].get("data", s[-1]["args"][0] if s[-1]["args"] else None)

    def disk_entry_is(name, value, expire, expire_secs):
        d = _last_saved()
        ent = d.get(name) if isinstance(d, dict) else None
        if not isinstance(ent, dict) or not all(k in ent for k in ("value", "expire", "expire_secs")):
            return False
        return ent["value"] == value and ent["expire"] == expire and ent["expire_secs"] == expire_secs

    def disk_lacks(name):
        d = _last_saved()
        return isinstance(d, dict) and name not in d

    def posted_change(name, value, prev):
        p = _posts()
        if len(p) != 1:
            return False
        kw = dict(p[0]["kwargs"])
        ev = p[0]["args"][0] if p[0]["args"] else kw.pop("event", None)
        return set(kw) == {"value", "prev_value", "change"} and ev == "machine_var_" + name and \
            kw["value"] == value and kw["prev_value"] == prev

    return {"now": now, "n_saves": lambda: len(_saves()), "n_posts": lambda: len(_posts()),
            "disk_entry_is": disk_entry_is, "disk_lacks": disk_lacks, "posted_change": posted_change}
