"""Native stand-ins for C13: a recording clock and loop handles carrying the model's ghost facts."""
import functools

from .native_common import Base, EventManager

NOW = [100.0]
HANDLES = []


class Handle:
    def __init__(self, ident, log, ghost):
        self.ident = ident
        self._log = log
        self.live = bool(ghost.get("live", False))
        self.when = ghost.get("when")
        self.name = ghost.get("dname")
        self.cb = ghost.get("dcb")
        self.kw = ghost.get("dkw")
        self.mine = bool(ghost.get("mine", False))
        self.callback = None
        HANDLES.append(self)

    def cancel(self):
        self.live = False
        self._log.append({"path": "handle.cancel", "cls": "Handle", "method": "cancel", "args": (self.ident,),
                          "kwargs": {}})

    def __repr__(self):
        return "<Handle %s live=%s>" % (self.ident, self.live)


class ClockBase(Base):
    def schedule_once(self, callback, timeout=0):
        h = Handle("new%d" % len(HANDLES), self._log, {"live": True, "when": NOW[0] + timeout, "mine": True})
        h.callback = callback
        if isinstance(callback, functools.partial) and getattr(callback.func, "__name__", "") in ("bound",
                                                                                                  "_process_delay_callback"):
            h.name = callback.args[0] if callback.args else None
            h.cb = callback.args[1] if len(callback.args) > 1 else None
            h.kw = dict(callback.keywords)
        self._rec("schedule_once", (callback, timeout), {})
        return h

    @staticmethod
    def unschedule(event):
        event.cancel()

    def get_time(self):
        return NOW[0]


def native_stubs():
    return {"ClockBase": ClockBase, "Handle": Handle, "EventManager": EventManager}


def _kwnorm(k):
    if k is None:
        return {}
    return k


def native_helpers(LOG, params, spec):
    this = params.get("self")

    def pending(name):
        return name in this.delays

    def handle_of(name):
        e = this.delays.get(name)
        return e[0] if e else None

    def callbacks():
        return [c for c in LOG if c["path"].startswith("callback:")]

    def call_desc(fn, kw):
        # a partial called without arguments is the call of its function with its keywords
        while isinstance(fn, functools.partial) and not fn.args:
            kw = dict(fn.keywords, **_kwnorm(kw))
            fn = fn.func
        return (fn, tuple(sorted(_kwnorm(kw).items())))

    def callback_is(fn, kw):
        cbs = callbacks()
        if len(cbs) != 1 or cbs[0]["args"]:
            return False
        got_fn = cbs[0].get("fn")
        return call_desc(got_fn, cbs[0]["kwargs"]) == call_desc(fn, kw)

    def at_cb(key):
        cbs = callbacks()
        return cbs[0].get("state", {}).get(key) if len(cbs) == 1 else None

    def drained():
        seq = [("cb" if c["path"].startswith("callback:") else "drain") for c in LOG
               if c["path"].startswith("callback:") or c["method"] == "process_event_queue"]
        return seq == ["cb", "drain"]

    def d1():
        for name, ent in this.delays.items():
            h = ent[0]
            if not (h.live and h.mine and h.name == name):
                return False
            if call_desc(ent[1], {}) != call_desc(h.cb, h.kw):
                return False
        for h in HANDLES:
            if h.live and h.mine and (h.name not in this.delays or this.delays[h.name][0] is not h):
                return False
        return True

    return {
        "D1": d1,
        "pending": pending, "handle_of": handle_of,
        "live": lambda h: bool(h is not None and h.live), "mine": lambda h: bool(h is not None and h.mine),
        "was_mine": lambda h: bool(h is not None and not str(h.ident).startswith("new") and h.mine),
        "when": lambda h: h.when, "cb_of": lambda h: h.cb, "kw_of": lambda h: _kwnorm(h.kw),
        "now": lambda: NOW[0],
        "n_callbacks": lambda: len(callbacks()),
        "callback_is": callback_is,
        "not_pending_at_callback": lambda name: (lambda st: st is not None and name not in st)(at_cb("names")),
        "handle_dead_at_callback": lambda h: (lambda st: st is not None and h.ident not in st)(at_cb("live_handles")),
        "drained_after_callback": drained,
        "n_drains": lambda: len([c for c in LOG if c["method"] == "process_event_queue"]),
        "others_untouched": lambda *a: True, "live_same_except": lambda *a: True, "nothing_changed": lambda: True,
        "__state_hook__": lambda: {"names": set(this.delays.keys()),
                                   "live_handles": set(h.ident for h in HANDLES if h.live)},
    }
