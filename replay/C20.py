"""Native stand-ins and helper twins for C20 (credits)."""


class _Base:
    def __init__(self, name, log):
        self._name = name
        self._log = log

    def _rec(self, method, args, kwargs):
        self._log.append({"path": self._name + "." + method, "cls": type(self).__name__, "method": method,
                          "args": args, "kwargs": kwargs})


class MachineVariables(_Base):
    credit_units = None

    def get_machine_var(self, name):
        if name == "credit_units":
            return self.credit_units
        return None

    def set_machine_var(self, name, value, persist=False):
        self._rec("set_machine_var", (name, value), {})
        if name == "credit_units":
            self.credit_units = value

    def configure_machine_var(self, *a, **k):
        pass

    def remove_machine_var(self, *a, **k):
        pass


from .native_common import Template, DelayManager     # noqa


class SettingsController(_Base):
    free_play = False

    def get_setting_value(self, name):
        return getattr(self, name)

    def set_setting_value(self, name, value):
        setattr(self, name, value)


class EventManager(_Base):
    def post(self, event, **kwargs):
        self._rec("post", (event,), kwargs)

    post_boolean = post_relay = post_queue = post

    def add_handler(self, *a, **k):
        self._rec("add_handler", a, k)

    def remove_handler(self, *a, **k):
        self._rec("remove_handler", a, k)


def native_stubs():
    return {"MachineVariables": MachineVariables, "Template": Template, "SettingsController": SettingsController,
            "EventManager": EventManager, "DelayManager": DelayManager}


def native_helpers(LOG, params, spec):
    this = params.get("self")

    def U():
        v = this.machine.variables.credit_units
        return v if v else 0

    def M():
        return this.credits_config["max_credits"].evaluate([]) * this.credit_units_per_game

    def pos(t0, i):
        w = this.pricing_tiers_wrap_around
        p = t0 % w
        for _ in range(int(i)):
            p = (p + 1) % w
        return p

    def ts(t0, i):
        w = this.pricing_tiers_wrap_around
        p = t0 % w
        s = 0
        for _ in range(int(i)):
            s += this.pricing_table.get(p + 1, 0)
            p = (p + 1) % w
        return s

    def posted(name):
        return lambda: sum(1 for c in LOG if c["method"] == "post" and c["args"] and c["args"][0] == name)

    def earn(key):
        return this.earnings.get(key, 0)

    return {"U": U, "M": M, "pos": pos, "ts": ts, "earn": earn, "tier_def": lambda *a: True,
            "table_ok": lambda: True,
            "posted_not_enough": posted("not_enough_credits"), "posted_max_reached": posted("max_credits_reached"),
            "posted_credits_added": posted("credits_added")}
