"""Native twins of the C12 spec helpers."""


def native_helpers(LOG, params, spec):
    def is_int(x):
        return isinstance(x, int) and not isinstance(x, bool)

    def in_range(param, v):
        if param is None:
            return True
        if isinstance(v, bool) or not isinstance(v, (int, float)):
            return False
        lo, hi = param.split(",")
        return (lo == "NONE" or v >= float(lo)) and (hi == "NONE" or v <= float(hi))

    def ok(f, s):
        try:
            f(s)
            return True
        except (ValueError, TypeError):
            return False

    UNITS = [("MSEC", 4, None), ("MS", 2, None), ("SEC", 3, 1000), ("S", 1, 1000), ("M", 1, 60000),
             ("H", 1, 3600000), ("D", 1, 86400000)]

    def time_parts(u):
        for suf, ln, mult in UNITS:
            if u.endswith(suf):
                return u[:-ln], mult, True
        return u, None, False

    def time_value(u):
        pre, mult, _ = time_parts(u)
        return int(pre) if mult is None else int(float(pre) * mult)

    def time_ok(u):
        pre, mult, _ = time_parts(u)
        return ok(int, pre) if mult is None else ok(float, pre)

    return {
        "is_int": is_int, "is_float": lambda x: isinstance(x, float),
        "is_num": lambda x: isinstance(x, (int, float)) and not isinstance(x, bool),
        "is_bool": lambda x: isinstance(x, bool), "is_str": lambda x: isinstance(x, str),
        "is_container": lambda x: isinstance(x, (list, dict, set, tuple)),
        "in_range": in_range, "trunc": lambda r: int(r), "int_of": int, "float_of": float,
        "int_ok": lambda s: ok(int, s), "float_ok": lambda s: ok(float, s),
        "upper": lambda s: s.upper(), "lower": lambda s: s.lower(),
        "time_value": time_value, "time_ok": time_ok,
        "enum_member": lambda param, r: r in param.lower().split(","),
        "has_letter": lambda t: any(c.isalpha() for c in t),
        "secs_rejects": lambda t: not time_ok((t if any(c.isalpha() for c in str(t)) else str(t) + "s").upper()),
        "some_key_invalid": lambda: any(k not in ("known_a", "known_b") and not k.startswith("_")
                                        for k in (params.get("config") or {})),
    }
