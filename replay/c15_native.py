"""C15 native twins of the contracts' ghost models, run on the REAL code (bounded enumeration, /venv python).

1. fault / crash-point injection into the real FileManager.save on a real directory: the file interface writes half
   of the text, (crash point), optionally raises, writes the rest, (crash point); os.replace optionally raises;
   after every file-system step the target must parse to the old or the new version, and on every exit the busy flag
   must be released;
2. schedule enumeration for the real DataManager._writing_thread run in the calling thread with hooked
   time.sleep / Event objects: at every library call another "thread" may call save_all or request the shutdown;
   at most 2 save_all, one stop, optional write fault; after the thread returns the file must hold the last data
   handed to save_all (unless a write failed after it).

prints JSON {"rows": [[name, ok, detail], ...]}
"""
import itertools
import json
import logging
import os
import shutil
import sys
import tempfile

logging.disable(logging.CRITICAL)
import mpf.core.file_manager as fm_mod          # noqa: E402
import mpf.core.data_manager as dm_mod          # noqa: E402
from mpf.core.file_manager import FileManager    # noqa: E402
from mpf.core.data_manager import DataManager    # noqa: E402

rows = []


# ------------------------------------------------------------------ 1. crash points and faults in FileManager.save
class Iface:
    def __init__(self, plan, observe):
        self.plan, self.observe = plan, observe

    def save(self, filename, data):
        text = json.dumps(data)
        with open(filename, "w") as f:
            f.write(text[:len(text) // 2])
        self.observe("temp half written")
        if self.plan == "write-fails":
            raise OSError("disk full")
        with open(filename, "w") as f:
            f.write(text)
        self.observe("temp written")


def fault_injection():
    bad = []
    n = 0
    real_replace = os.replace
    for fname in ("data.yaml", "_data.yaml", "a.b.yaml"):
        for existed in (True, False):
            for plan in ("ok", "write-fails", "replace-fails", "no-interface"):
                n += 1
                d = tempfile.mkdtemp(prefix="c15f_")
                try:
                    target = os.path.join(d, fname)
                    old, new = {"v": "old" * 5}, {"v": "new" * 7}
                    if existed:
                        with open(target, "w") as f:
                            f.write(json.dumps(old))
                    seen = []

                    def observe(where, target=target, existed=existed, old=old, new=new, seen=seen):
                        if not os.path.exists(target):
                            state = None
                        else:
                            try:
                                state = json.loads(open(target).read())
                            except ValueError:
                                state = "TORN"
                        seen.append((where, state))
                        return state in ((old if existed else None), new)

                    ok = True

                    def obs(where):
                        nonlocal ok
                        ok = observe(where) and ok

                    FileManager.initialized = True
                    FileManager.is_busy = False
                    FileManager.file_interfaces = {} if plan == "no-interface" else {".yaml": Iface(plan, obs)}

                    def replace(a, b):
                        if plan == "replace-fails":
                            raise OSError("permission")
                        real_replace(a, b)
                        obs("replaced")
                    fm_mod.os.replace = replace
                    raised = None
                    try:
                        FileManager.save(target, new)
                    except Exception as e:      # noqa
                        raised = type(e).__name__
                    finally:
                        fm_mod.os.replace = real_replace
                    obs("after the call")
                    final = seen[-1][1]
                    why = None
                    if not ok:
                        why = "target torn or unexpected at %r" % [s for s in seen if s[1] not in
                                                                    ((old if existed else None), new)][:2]
                    elif FileManager.is_busy:
                        why = "is_busy still set after %s" % (raised or "return")
                    elif plan == "ok" and (raised or final != new):
                        why = "clean save did not store the data (raised=%s, final=%r)" % (raised, final)
                    elif plan != "ok" and final != (old if existed else None):
                        why = "failed save changed the target to %r" % (final,)
                    elif plan != "ok" and not raised:
                        why = "fault swallowed"
                    if why:
                        bad.append("file=%s existed=%s plan=%s: %s" % (fname, existed, plan, why))
                finally:
                    shutil.rmtree(d, ignore_errors=True)
    rows.append(["native fault injection: FileManager.save keeps the target complete at every crash point and "
                 "releases the busy flag (%d scenarios)" % n, not bad, "all hold" if not bad else "; ".join(bad[:3])])


# ------------------------------------------------------------------ 2. writer-thread schedules
class Abort(Exception):
    pass


class World:
    """the environment of the writer thread: acts at hook points according to a schedule {hook index: action}"""

    def __init__(self, schedule, fault_at, horizon):
        self.schedule, self.fault_at, self.horizon = schedule, fault_at, horizon
        self.t = 0
        self.n_save = 0
        self.dm = None
        self.stop = False
        self.disk = None
        self.log = []
        self.fault_after_last_save_all = False
        self.saves = 0

    def hook(self, what):
        act = self.schedule.get(self.t)
        self.t += 1
        if self.t > self.horizon:
            self.stop = True
        if self.t > self.horizon + 40:
            raise Abort("writer thread does not terminate after the stop request")
        if act == "save_all" and not self.stop:
            self.n_save += 1
            self.dm.save_all({"version": self.n_save})
            self.fault_after_last_save_all = False
            self.log.append("t%d %s: save_all(v%d)" % (self.t - 1, what, self.n_save))
        elif act == "stop":
            self.stop = True
            self.log.append("t%d %s: stop" % (self.t - 1, what))


class Ev:
    def __init__(self, world, name, stopper=False):
        self.w, self.name, self.flag, self.stopper = world, name, False, stopper

    def set(self):
        self.flag = True

    def clear(self):
        self.w.hook(self.name + ".clear")
        self.flag = False

    def is_set(self):
        self.w.hook(self.name + ".is_set")
        return self.w.stop if self.stopper else self.flag

    def wait(self, timeout=None):
        self.w.hook(self.name + ".wait")
        return self.flag


class M:
    pass


def run_schedule(schedule, fault_at, horizon):
    w = World(schedule, fault_at, horizon)
    dm = DataManager.__new__(DataManager)
    m = M()
    m.thread_stopper = Ev(w, "stopper", stopper=True)
    dm.machine, dm.name, dm.min_wait_secs, dm.filename = m, "t", 1, "/nonexistent/t.yaml"
    dm.data = {"version": 0}
    w.disk = {"version": 0}
    dm._dirty = Ev(w, "dirty")
    dm.log = logging.getLogger("c15")
    dm._info_to_console = dm._debug_to_console = dm._info_to_file = dm._debug_to_file = False
    w.dm = dm

    class FakeTime:
        @staticmethod
        def sleep(s):
            w.hook("sleep")

    def save(filename, data):
        w.hook("FileManager.save")
        w.saves += 1
        if w.fault_at == w.saves:
            w.fault_after_last_save_all = True
            w.log.append("   write #%d fails" % w.saves)
            raise OSError("disk full")
        w.disk = json.loads(json.dumps(data))
        w.log.append("   write #%d stores %r" % (w.saves, data))
    saved = (dm_mod.time, FileManager.save, FileManager.is_busy)
    dm_mod.time = FakeTime
    FileManager.save = staticmethod(save)
    FileManager.is_busy = False
    err = None
    try:
        dm._writing_thread()
    except Abort as e:
        err = str(e)
    except Exception as e:      # noqa
        if not w.stop:
            err = "exception %s ended the thread before shutdown" % type(e).__name__
        else:
            w.fault_after_last_save_all = True
    finally:
        dm_mod.time = saved[0]
        FileManager.save = staticmethod(saved[1])
        FileManager.is_busy = saved[2]
    if err is None and not w.fault_after_last_save_all and w.disk != dm.data:
        err = "after the clean shutdown the file holds %r but the last data saved is %r" % (w.disk, dm.data)
    return err, w.log


def schedules():
    H = 14
    n = 0
    worst = None
    for fault_at in (0, 1, 2):
        for stop_t in range(0, H):
            for k in (0, 1, 2):
                for pos in itertools.combinations(range(0, H), k):
                    if stop_t in pos:
                        continue
                    sched = {p: "save_all" for p in pos}
                    sched[stop_t] = "stop"
                    n += 1
                    err, log = run_schedule(sched, fault_at, H)
                    if err and worst is None:
                        worst = (err, log, sched, fault_at)
    detail = "all hold"
    if worst:
        detail = "%s | schedule: %s | fault_at=%d" % (worst[0], "; ".join(worst[1]), worst[3])
    rows.append(["native schedules: the real _writing_thread ends with the last saved data on disk for every "
                 "placement of <=2 save_all, the stop request and <=1 write fault over 14 library-call points "
                 "(%d schedules)" % n, worst is None, detail])


def real_interface_after_failure():
    """the REAL YamlInterface / PickleInterface: a write that fails inside the serializer (a value it cannot represent)
    leaves the target complete, and the next save through the same FileManager succeeds"""
    bad = []

    class Unrepresentable:
        def __reduce__(self):
            raise TypeError("cannot be serialised")

    for ext in (".yaml", ".bin"):
        d = tempfile.mkdtemp(prefix="c15r_")
        try:
            FileManager.initialized = False
            FileManager.is_busy = False
            FileManager.file_interfaces = {}
            FileManager.init()
            target = os.path.join(d, "data" + ext)
            FileManager.save(target, {"v": 1})
            raised = None
            try:
                FileManager.save(target, {"v": Unrepresentable()})
            except Exception as e:      # noqa
                raised = type(e).__name__
            try:
                after_fail = dict(FileManager.load(target))
            except Exception as e:      # noqa
                after_fail = "UNREADABLE (%s)" % type(e).__name__
            later = None
            try:
                FileManager.save(target, {"v": 2})
                final = dict(FileManager.load(target))
            except Exception as e:      # noqa
                later = "%s: %s" % (type(e).__name__, e)
                final = None
            if raised is None:
                bad.append("%s: the unrepresentable value was written without an error" % ext)
            elif after_fail != {"v": 1}:
                bad.append("%s: after the failed write the file holds %r" % (ext, after_fail))
            elif later is not None:
                bad.append("%s: after one failed write (%s) the NEXT save fails too: %s" % (ext, raised, later))
            elif final != {"v": 2}:
                bad.append("%s: the later save stored %r" % (ext, final))
            elif FileManager.is_busy:
                bad.append("%s: busy flag stuck" % ext)
        finally:
            shutil.rmtree(d, ignore_errors=True)
    rows.append(["native: with the real YAML / pickle interfaces a write that fails in the serializer leaves the file "
                 "complete and does not stop later saves", not bad, "all hold" if not bad else "; ".join(bad[:2])])


fault_injection()
schedules()
real_interface_after_failure()
print(json.dumps({"rows": rows}))
