"""Shared native stand-ins for the replay harness (behavioural stubs of assumed components)."""


class Base:
    def __init__(self, name, log):
        self._name = name
        self._log = log

    def _rec(self, method, args, kwargs):
        self._log.append({"path": self._name + "." + method, "cls": type(self).__name__, "method": method,
                          "args": args, "kwargs": kwargs})


class Template(Base):
    value = 0

    def evaluate(self, *a, **k):
        return self.value

    def evaluate_or_none(self, *a, **k):
        return self.value


class EventManager(Base):
    def post(self, event, callback=None, **kwargs):
        self._rec("post", (event,), kwargs)

    post_boolean = post_relay = post_queue = post

    def add_handler(self, *a, **k):
        self._rec("add_handler", a, k)
        return ("key", len(self._log))

    def remove_handler(self, *a, **k):
        self._rec("remove_handler", a, k)

    def remove_handler_by_key(self, *a, **k):
        self._rec("remove_handler_by_key", a, k)

    def remove_handlers_by_keys(self, *a, **k):
        self._rec("remove_handlers_by_keys", a, k)

    def process_event_queue(self, *a, **k):
        self._rec("process_event_queue", a, k)


class DelayManager(Base):
    """records calls; pending-state is derived from the log (delay_state)"""

    def add(self, ms, callback, name=None, **kwargs):
        self._rec("add", (ms, callback, name), kwargs)
        return name

    def reset(self, ms, callback, name, **kwargs):
        self._rec("reset", (ms, callback, name), kwargs)
        return name

    def add_if_doesnt_exist(self, ms, callback, name, **kwargs):
        self._rec("add_if_doesnt_exist", (ms, callback, name), kwargs)
        return name

    def remove(self, name):
        self._rec("remove", (name,), {})

    def check(self, delay):
        self._rec("check", (delay,), {})
        return delay_state(self._log, {}, delay, owner=self._name)[0]

    def clear(self):
        self._rec("clear", (), {})

    def run_now(self, name):
        self._rec("run_now", (name,), {})


def delay_state(LOG, symbols, name, owner=None):
    """(pending?, ms, callback) of the delay `name` from the recorded DelayManager calls, else the model's
    initial flag <owner>.pending0[<name>]"""
    state = None
    for c in LOG:
        if c.get("cls") != "DelayManager":
            continue
        if owner is not None and not c["path"].startswith(owner + "."):
            continue
        a, m = c["args"], c["method"]
        if m in ("add", "reset", "add_if_doesnt_exist"):
            nm = a[2] if len(a) > 2 else c["kwargs"].get("name")
            if nm != name:
                continue
            if m == "add_if_doesnt_exist" and state is not None and state[0]:
                continue
            if m == "add_if_doesnt_exist" and state is None and _initial(symbols, name):
                state = (True, None, None)
                continue
            state = (True, a[0], a[1])
        elif m == "remove" and a and a[0] == name:
            state = (False, None, None)
        elif m == "clear":
            state = (False, None, None)
    if state is None:
        return (_initial(symbols, name), None, None)
    return state


def _initial(symbols, name):
    init = [v for s, v in symbols.items() if s.endswith("pending0[%s]" % name)]
    return bool(init and init[0] == "True")


def n_posts(LOG, name):
    return sum(1 for c in LOG if c["method"] in ("post", "post_boolean", "post_relay", "post_queue")
               and c["args"] and c["args"][0] == name)


def posts(LOG):
    return [c for c in LOG if c["method"] in ("post", "post_boolean", "post_relay", "post_queue")]
