"""Exhaustive finite sweep of the real config_spec.yaml (runs under /venv/bin/python, real mpf).

For every (section, key): the spec string splits into exactly three parts, the item type is known, the validator
(with parameter) resolves in ConfigValidator.validator_list, and the default - if any - is accepted by its own
validator and has the declared type.  Prints one JSON document.
"""
import json
import os
import sys

REPO = os.environ.get("PYVC_REPO", "/repo")
sys.path.insert(0, REPO)

from unittest.mock import MagicMock       # noqa

from mpf.core.config_validator import ConfigValidator, RuntimeToken      # noqa
from mpf.core.config_spec_loader import ConfigSpecLoader                  # noqa
from mpf.file_interfaces.yaml_interface import YamlInterface              # noqa

ITEM_TYPES = {"single", "list", "set", "dict", "event_handler"}
SKIP_DEFAULT_TYPES = {"machine", "subconfig"}      # need a booted machine / recurse into other sections


def main():
    path = os.path.join(REPO, "mpf", "config_spec.yaml")
    raw = YamlInterface.process(open(path).read())
    spec = ConfigSpecLoader.process_config_spec(raw, "machine") if hasattr(ConfigSpecLoader, "process_config_spec") \
        else raw
    machine = MagicMock()
    machine.config = {"mpf": {"allow_invalid_config_sections": False}}
    cv = ConfigValidator(machine, spec)
    rows = []
    params = {}
    n = 0

    def walk(section_path, d):
        nonlocal n
        for key, val in d.items():
            if key.startswith("__"):
                continue
            if isinstance(val, dict):
                walk(section_path + [key], val)
                continue
            n += 1
            where = ":".join(section_path + [key])
            if val == "ignore":
                continue
            parts = val if isinstance(val, (list, tuple)) else str(val).split("|")
            if len(parts) != 3:
                rows.append({"where": where, "ok": False, "why": "spec does not have three parts: %r" % (val,)})
                continue
            item_type, validator, default = parts
            if item_type not in ITEM_TYPES:
                rows.append({"where": where, "ok": False, "why": "unknown item type %r" % item_type})
                continue
            vals = validator.split(":") if item_type in ("dict", "event_handler") else [validator]
            for v in vals:
                name, param = (v.split("(", 1)[0], v.split("(", 1)[1][:-1]) if "(" in v and v.endswith(")") else (v, None)
                if name not in cv.validator_list:
                    rows.append({"where": where, "ok": False, "why": "validator %r not in validator_list" % name})
                    continue
                if param is not None:
                    params.setdefault(name, set()).add(param)
                    if name.startswith("template_"):
                        rows.append({"where": where, "ok": False,
                                     "why": "template validator %r is given a range %r which it ignores" % (name, param)})
            # default accepted by its own validator
            base = vals[-1].split("(", 1)[0]
            if default in ("", None) or base in SKIP_DEFAULT_TYPES or any(
                    v.split("(")[0] in SKIP_DEFAULT_TYPES for v in vals):
                continue
            if base.startswith("template_") or base in ("color", "kivycolor", "event_handler", "event_posted"):
                continue
            try:
                vfi = MagicMock()
                res = cv.validate_config_item((item_type, validator, default), vfi)
            except Exception as e:          # noqa
                rows.append({"where": where, "ok": False,
                             "why": "default %r rejected by its own validator: %s: %s" % (default, type(e).__name__, e)})
                continue
            ok, why = type_ok(item_type, base, vals, res)
            if not ok:
                rows.append({"where": where, "ok": False, "why": "default %r validates to ill-typed %r (%s)" %
                             (default, res, why)})

    def type_ok(item_type, base, vals, res):
        def scalar(b, x):
            if x is None or isinstance(x, RuntimeToken):
                return True
            if b in ("int", "ms", "int_from_hex", "pow2", "bool_int"):
                return isinstance(x, int) and not isinstance(x, bool) or b == "bool_int" and x in (0, 1)
            if b in ("float", "secs", "gain"):
                return isinstance(x, float)
            if b == "num":
                return isinstance(x, (int, float)) and not isinstance(x, bool)
            if b in ("bool", "boolean"):
                return isinstance(x, bool)
            if b in ("str", "lstr", "enum"):
                return isinstance(x, str)
            return True
        b = base.replace("_or_token", "")
        if item_type == "single":
            return scalar(b, res), "single"
        if item_type == "list":
            return isinstance(res, list) and all(scalar(b, x) for x in res), "list"
        if item_type == "set":
            return isinstance(res, set) and all(scalar(b, x) for x in res), "set"
        return isinstance(res, dict), "dict"

    walk([], spec)
    json.dump({"entries": n, "failures": rows, "params": {k: sorted(v) for k, v in params.items()}}, sys.stdout)


main()
