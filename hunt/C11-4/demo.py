"""C11 finding 4: whether a shot's control_events work for player 2 depends on what player 1 did in HIS turn.

Shot._initialize() registers the ``control_events`` handlers once (machine life time) and stores their keys in
``self._handlers`` - the same list that holds the per-enable switch handlers.  _remove_switch_handlers() (called by
_disable(), which EnableDisableMixin.device_removed_from_mode() calls at EVERY mode stop) removes everything in that
list; _register_switch_handlers() (called at enable) starts the list from scratch and thereby "forgets" the keys.

  * shot gets enabled before the first mode stop  -> keys forgotten, control events keep working for ever
  * shot is NOT enabled before the first mode stop -> the first ball end removes the control event handlers for the
    rest of the session: for the next player, for the same player's next balls and for all later games.

So with identical input in his own turn, player 2 can or cannot change his shot state depending only on player 1's turn.
test_control passes, test_defect fails on the unmodified tree.
"""
import os
import tempfile
import textwrap
import unittest

from mpf.tests.MpfFakeGameTestCase import MpfFakeGameTestCase

MACHINE = tempfile.mkdtemp(prefix="c11_f4_")
os.makedirs(os.path.join(MACHINE, "config"))
os.makedirs(os.path.join(MACHINE, "modes", "mode1", "config"))
with open(os.path.join(MACHINE, "config", "config.yaml"), "w") as f:
    f.write(textwrap.dedent("""\
        #config_version=6
        game:
          balls_per_game: 3
        switches:
          s_start:
            number:
            tags: start
          s_lock:
            number:
        modes:
          - mode1
        """))
with open(os.path.join(MACHINE, "modes", "mode1", "config", "mode1.yaml"), "w") as f:
    f.write(textwrap.dedent("""\
        #config_version=6
        mode:
          start_events: ball_starting
        shots:
          lock_shot:
            switch: s_lock
            enable_events: enable_lock_shot
            control_events:
              - events: light_lock
                state: 1
        """))


class Demo(MpfFakeGameTestCase):

    def get_config_file(self):
        return "config.yaml"

    def get_machine_path(self):
        return MACHINE

    def _play(self, player1_enables_shot):
        shot = self.machine.shots["lock_shot"]
        self.start_game()
        self.add_player()
        p1, p2 = self.machine.game.player_list

        # player 1, ball 1
        self.assertPlayerNumber(1)
        if player1_enables_shot:
            self.post_event("enable_lock_shot")
        self.post_event("light_lock")
        self.advance_time_and_run(.1)
        self.assertEqual(1, p1.shot_lock_shot)       # the control event works for player 1
        self.drain_all_balls()

        # player 2, ball 1: exactly the same input in both runs
        self.assertPlayerNumber(2)
        self.assertEqual(0, shot.state)
        self.post_event("light_lock")
        self.advance_time_and_run(.1)
        return p2.shot_lock_shot

    def test_control(self):
        self.assertEqual(1, self._play(player1_enables_shot=True))

    def test_defect(self):
        self.assertEqual(1, self._play(player1_enables_shot=False),
                         "player 2's light_lock control event was ignored because player 1 did not enable the shot "
                         "during his ball: the first mode stop removed the control event handlers for good")


if __name__ == "__main__":
    unittest.main()
