"""C05 finding 4: a ball is requested for a mechanical plunger (request_ball), the trough ejects it but the
ball skips the plunger and lands on the playfield (the scenario handled by
OutgoingBallsHandler._skipping_ball). The skip is booked on the playfield, but the plunger keeps the
available ball which setup_eject_chain gave it: plunger.available_balls == 1 with 0 balls.
The next ball requested for the playfield is therefore "served" by that phantom ball: only the (empty)
plunger gets an eject queued, the trough - which does have an available ball - is never asked and the
request hangs for ever in waiting_for_ball."""
import unittest
from unittest.mock import MagicMock

from mpf.tests.MpfTestCase import MpfTestCase


class TestSkipLeavesPhantomAvailableBall(MpfTestCase):

    def get_config_file(self):
        return 'test_ball_device_manual_with_target.yaml'

    def get_machine_path(self):
        return 'tests/machine_files/ball_device/'

    def test_request_after_skipped_ball(self):
        coil1 = self.machine.coils['eject_coil1']
        trough = self.machine.ball_devices['test_trough']
        launcher = self.machine.ball_devices['test_launcher']
        playfield = self.machine.ball_devices['playfield']

        # two balls in the trough
        self.hit_switch_and_run("s_ball_switch1", 0)
        self.hit_switch_and_run("s_ball_switch2", 1)
        self.assertEqual(2, trough.balls)
        coil1.pulse = MagicMock()

        # manual request: one ball for the launcher
        launcher.request_ball()
        self.advance_time_and_run(.1)
        self.assertEqual(1, coil1.pulse.call_count)
        self.release_switch_and_run("s_ball_switch1", 1)

        # ball skips the launcher and shows up on the playfield (same as
        # test_request_launcher_with_manual_eject_and_skip)
        self.advance_time_and_run(3)
        self.hit_and_release_switch("s_playfield")
        self.advance_time_and_run(100)
        self.assertEqual(1, playfield.balls)
        self.assertEqual("idle", launcher.state)
        self.assertEqual("idle", trough.state)
        self.assertEqual(0, launcher.balls)
        self.assertEqual(1, trough.balls)
        self.assertEqual(1, trough.available_balls)

        # now a ball is requested for the playfield. The trough has an available ball on the path
        # trough -> launcher -> playfield, so it has to be delivered.
        coil1.pulse = MagicMock()
        playfield.add_ball(1, player_controlled=False)
        self.advance_time_and_run(5)
        if coil1.pulse.call_count:
            # move the ball physically
            self.release_switch_and_run("s_ball_switch2", 1)
            self.hit_switch_and_run("s_ball_switch_launcher", 1)
            self.release_switch_and_run("s_ball_switch_launcher", 1)
            self.hit_and_release_switch("s_playfield")
        self.advance_time_and_run(200)

        self.assertEqual(
            2, playfield.balls,
            "requested ball was never delivered: trough pulses={} trough.available_balls={} "
            "launcher.state={} launcher.balls={} launcher.available_balls={} launcher.requested_balls={}".format(
                coil1.pulse.call_count, trough.available_balls, launcher.state, launcher.balls,
                launcher.available_balls, launcher.requested_balls))


if __name__ == '__main__':
    unittest.main()
