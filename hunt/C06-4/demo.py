"""C06 finding 4: a start request which arrives after game_ended but while the game mode is still stopping bricks the
machine.

game_ended stops the game mode and starts attract in the same breath. The game mode stays `active` until its
mode_game_stopping queue event has cleared (Game._stop_game_modes itself waits there for game modes, any other handler
may wait there as well). Attract is already running and accepts the start button: it posts game_start, which stops
attract (stop_events: game_start) while Mode.start() of the game mode silently drops the request ("Mode is already
active"). When the game mode finally stops, neither game nor attract is running and the start button is dead.
"""
import os
import tempfile
import unittest

from mpf.tests.MpfFakeGameTestCase import MpfFakeGameTestCase

CONFIG = """#config_version=6
game:
    balls_per_game: 1
playfields:
    playfield:
        default_source_device: None
        tags: default
"""


class TestStartWhileGameModeStops(MpfFakeGameTestCase):

    def get_config_file(self):
        return 'config.yaml'

    def get_machine_path(self):
        path = tempfile.mkdtemp(prefix="c06_f4_")
        os.makedirs(os.path.join(path, "config"))
        with open(os.path.join(path, "config", "config.yaml"), "w") as f:
            f.write(CONFIG)
        return path

    def _rec(self, ev, **kwargs):
        self.events.append(ev)

    def _game_mode_stopping(self, queue, **kwargs):
        """E.g. a game over show/sound which has to finish before the game mode is gone."""
        queue.wait()
        self.pending_queue = queue

    def test_start_button_while_game_mode_is_stopping(self):
        self.events = []
        self.pending_queue = None
        for ev in ("game_started", "game_ended"):
            self.machine.events.add_handler(ev, self._rec, ev=ev)
        self.machine.events.add_handler('mode_game_stopping', self._game_mode_stopping)

        self.start_game()
        self.drain_all_balls()
        self.advance_time_and_run(1)
        # the game has ended (all lifecycle events including game_ended have been posted)
        self.assertEqual(["game_started", "game_ended"], self.events)
        self.assertIsNotNone(self.pending_queue)
        # attract is running again and listens to the start button
        self.assertModeRunning("attract")

        # player presses start two seconds after the game has ended
        self.advance_time_and_run(1)
        self.hit_and_release_switch("s_start")
        self.advance_time_and_run(1)

        # the handler of mode_game_stopping is done three seconds after the end of the game
        self.pending_queue.clear()
        self.advance_time_and_run(10)

        # "after the game has ended no game is active and a new one can start"
        print("game:", self.machine.game, "game mode active:", self.machine.modes["game"].active,
              "attract active:", self.machine.modes["attract"].active)
        if not self.machine.game:
            # the start press was not honoured. then at least the next one has to work
            self.hit_and_release_switch("s_start")
            self.advance_time_and_run(10)
        self.assertIsNotNone(self.machine.game, "No game and no attract mode: a new game cannot be started any more")
        self.assertEqual(["game_started", "game_ended", "game_started"], self.events)


if __name__ == '__main__':
    unittest.main()
