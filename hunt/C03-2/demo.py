"""C03 finding 2: a switch report that arrives from inside a hold-time handler
of the same switch (re-entrant report) blows up _process_active_timed_switches.

process_switch_obj -> _cancel_timed_handlers deletes
self._active_timed_switches[switch] while _process_active_timed_switches is
still iterating it, so the loop callback dies with KeyError (MPF stops the
machine on an unhandled loop exception).  Handlers which share the deadline
are never looked at again and the machine is gone.

Timeline (s_test, NO): active at t0; handler T (state=1, 100ms) reports the
switch inactive when it fires (e.g. a virtual/"smart" platform or a test
helper which releases the switch once it was held long enough).
Promised: T fires once at t0+100ms, the switch is then inactive, the untimed
inactive handler fires once, nothing crashes.
"""
import unittest

from mpf.tests.MpfTestCase import MpfTestCase


class Demo(MpfTestCase):

    def get_config_file(self):
        return 'config.yaml'

    def get_machine_path(self):
        return 'tests/machine_files/switch_controller/'

    def test_report_from_inside_timed_handler(self):
        sc = self.machine.switch_controller
        calls = []

        def timed():
            calls.append("held_100ms")
            # the coincidence: a change of the same switch at a pending deadline
            sc.process_switch("s_test", 0, logical=True)

        def inactive():
            calls.append("inactive")

        sc.add_switch_handler("s_test", timed, state=1, ms=100)
        sc.add_switch_handler("s_test", inactive, state=0, ms=0)

        error = None
        try:
            self.hit_switch_and_run("s_test", 1)
        except BaseException as e:
            error = e

        print("handler calls:", calls)
        print("error:", repr(error))
        self.assertEqual(0, self.machine.switches["s_test"].state)
        self.assertEqual(["held_100ms", "inactive"], calls)
        self.assertIsNone(error, "switch controller crashed: {!r}".format(error))


if __name__ == "__main__":
    unittest.main()
