"""C19 finding 2: string values containing a percent sign followed by two hex digits are decoded twice.

encode_command_string() percent-encodes a string value exactly once (quote(str(v), '')).
decode_command_string() decodes it TWICE: parse_qs() already un-quotes every value, and the final
`else: v[0] = unquote(v[0])` branch un-quotes the already decoded text again.  Every string that contains
'%XX' (XX hex) therefore arrives changed: "%41" -> "A", "100%25" -> "100%", "a%20b" -> "a b",
"%0A" -> a newline, "%C3%A9" -> "e-acute", "%FF" -> U+FFFD.
"""
import unittest

from mpf.core.bcp.bcp_socket_client import decode_command_string, encode_command_string
from mpf.tests.MpfTestCase import MpfTestCase
from mpf.tests.loop import MockQueueSocket

STRING_VALUES = ["50%", "%41", "100%25", "a%20b", "%0A", "%C3%A9", "%FF", "sale: 20%off",
                 "http://x/?q=a%2Fb", "logicblock_hit{count%10==5}"]


class TestRoundTrip(unittest.TestCase):

    def test_string_with_percent_round_trips(self):
        bad = []
        for value in STRING_VALUES:
            line = encode_command_string("trigger", name="evt", text=value)
            self.assertNotIn("\n", line)
            cmd, kwargs = decode_command_string(line)
            self.assertEqual("trigger", cmd)
            if kwargs.get("text") != value:
                bad.append("sent {!r} as {!r}, received {!r}".format(value, line, kwargs.get("text")))
        self.assertEqual([], bad, "string parameters did not round-trip:\n  " + "\n  ".join(bad))


class MockBcpQueueSocket(MockQueueSocket):

    def send(self, data):
        if data == b'reset\n':
            self.recv_queue.append(b'reset_complete\n')
            return len(data)
        return super().send(data)


class TestEndToEnd(MpfTestCase):

    def __init__(self, methodName='runTest'):
        super().__init__(methodName)
        self.machine_config_patches['bcp'] = {}
        self.machine_config_patches['bcp']['servers'] = []

    def get_use_bcp(self):
        return True

    def _mock_loop(self):
        self.client_socket = MockBcpQueueSocket(self.loop)
        self.clock.mock_socket("localhost", 5050, self.client_socket)

    def test_receive_percent_strings(self):
        received = []

        async def callback(client, **kwargs):
            del client
            received.append(kwargs)

        self.machine.bcp.interface.register_command_callback("set_text", callback)
        sent = [{"text": v} for v in STRING_VALUES]
        stream = b''.join((encode_command_string("set_text", **kw) + "\n").encode() for kw in sent)
        for i in range(0, len(stream), 5):
            self.client_socket.recv_queue.append(stream[i:i + 5])
        self.advance_time_and_run(1)
        self.assertEqual(sent, received)


if __name__ == '__main__':
    unittest.main()
