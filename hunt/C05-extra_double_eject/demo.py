"""C05 extra finding (double eject): a lock device releases its two balls to the playfield (two queued ejects).
The first coil pulse kicks out BOTH balls. The "more balls left than expected" clean-up in
OutgoingBallsHandler._eject_ball then books the second ball as a lost *available* ball although it was
already claimed by the queued eject: available_balls of the device becomes -1 (and the playfield's
available_balls 3 for 2 real balls). From then on the device is poisoned: the next ball which enters
it is never ejected again (stuck ball, device "idle", nothing queued)."""
import os
import unittest
from unittest.mock import MagicMock

from mpf.tests.MpfTestCase import MpfTestCase

CONFIG = """#config_version=6

playfields:
    playfield:
        default_source_device: bd_trough
        tags: default

coils:
    c_trough:
        number:
    c_lock:
        number:

switches:
    s_trough1:
        number:
    s_trough2:
        number:
    s_lock1:
        number:
    s_lock2:
        number:
    s_playfield:
        number:
        tags: playfield_active

virtual_platform_start_active_switches: s_lock1, s_lock2

ball_devices:
    bd_trough:
        eject_coil: c_trough
        ball_switches: s_trough1, s_trough2
        eject_targets: playfield
        eject_timeouts: 3s
        tags: trough, drain, home
    bd_lock:
        eject_coil: c_lock
        ball_switches: s_lock1, s_lock2
        eject_targets: playfield
        eject_timeouts: 3s
        tags: home
"""


class TestDoubleEjectWithQueuedEject(MpfTestCase):

    def get_config_file(self):
        return 'config.yaml'

    def get_machine_path(self):
        self._tmp = os.path.join(os.path.dirname(os.path.abspath(__file__)), "machine")
        os.makedirs(os.path.join(self._tmp, "config"), exist_ok=True)
        with open(os.path.join(self._tmp, "config", "config.yaml"), "w") as f:
            f.write(CONFIG)
        return self._tmp

    def test_release_two_balls_first_pulse_kicks_both(self):
        lock = self.machine.ball_devices['bd_lock']
        playfield = self.machine.ball_devices['playfield']
        coil = self.machine.coils['c_lock']
        coil.pulse = MagicMock()
        self.advance_time_and_run(1)

        self.assertEqual(2, lock.balls)
        self.assertEqual(2, lock.available_balls)

        # lock release: both balls are requested for the playfield
        lock.eject_all()
        self.advance_time_and_run(.5)
        self.assertEqual(1, coil.pulse.call_count)
        self.assertEqual(0, lock.available_balls)

        # the single pulse kicks out both balls
        self.release_switch_and_run("s_lock1", 0)
        self.release_switch_and_run("s_lock2", 1)
        self.hit_and_release_switch("s_playfield")
        self.advance_time_and_run(1)
        self.hit_and_release_switch("s_playfield")
        # physical world stops changing now
        self.advance_time_and_run(60)

        # both requested balls are on the playfield, device is empty and idle
        self.assertEqual(0, lock.balls)
        self.assertEqual("idle", lock.state)
        self.assertEqual(2, playfield.balls)

        problems = []
        if lock.available_balls != 0:
            problems.append("empty idle device bd_lock has available_balls={}".format(lock.available_balls))
        if playfield.available_balls != 2:
            problems.append("playfield has 2 balls but available_balls={}".format(playfield.available_balls))

        # consequence: the next ball which enters the lock (nobody claims it) has to be returned to the
        # playfield as for every unexpected ball - but it is kept for ever
        coil.pulse = MagicMock()
        self.hit_switch_and_run("s_lock1", 30)
        if coil.pulse.call_count == 0:
            problems.append("unclaimed ball which entered bd_lock afterwards is never ejected "
                            "(state {}, balls {}, available_balls {}, pulses 0 in 30s)".format(
                                lock.state, lock.balls, lock.available_balls))

        # and an explicit request for that ball is queued for ever although the ball sits in the device
        playfield.add_ball(1, source_device=lock)
        self.advance_time_and_run(30)
        if coil.pulse.call_count == 0:
            problems.append("explicit request of the ball in bd_lock for the playfield is not served: "
                            "requested_balls={} state={} balls={} pulses=0".format(
                                lock.requested_balls, lock.state, lock.balls))

        self.assertEqual([], problems)


if __name__ == '__main__':
    unittest.main()
