"""C15 finding 3: data whose write failed once is never written again - not even by the shutdown flush.

History: save_all(A) is written. save_all(B): this one write hits an injected, transient I/O error (ENOSPC from
os.replace; an error while writing the temporary file behaves the same). The writer thread has already cleared its
dirty flag, it logs the error and goes on. The machine keeps running (no further change of this data, the disk is fine
again), then shuts down cleanly: the final flush only writes when dirty -> B never reaches the disk. The file holds A
although B was "last saved" and the process went through a clean shutdown with all the time in the world.
"""
import errno
import os
import shutil
import tempfile
import time
import unittest
from unittest.mock import patch

from mpf.core.data_manager import DataManager
from mpf.core.file_manager import FileManager
from mpf.tests.MpfTestCase import MpfTestCase


class TestFailedWriteIsRetried(MpfTestCase):

    def get_config_file(self):
        return "config.yaml"

    def get_machine_path(self):
        self._dir = tempfile.mkdtemp(prefix="c15_f3_")
        os.makedirs(os.path.join(self._dir, "config"))
        with open(os.path.join(self._dir, "config", "config.yaml"), "w") as f:
            f.write("#config_version=6\nmpf:\n  paths:\n    demo: {}\n".format(
                os.path.join(self._dir, "data", "demo.yaml")))
        return self._dir

    def get_abs_path(self, path):
        return path

    def tearDown(self):
        super().tearDown()
        shutil.rmtree(self._dir, ignore_errors=True)

    def _wait_for_file(self, filename, expected, timeout=4.0):
        end = time.time() + timeout
        content = None
        while time.time() < end:
            if os.path.isfile(filename):
                content = FileManager.load(filename, halt_on_error=False)
                if content == expected:
                    return content
            time.sleep(.05)
        return content

    def test_last_saved_data_on_disk_after_clean_shutdown(self):
        manager = DataManager(self.machine, "demo", min_wait_secs=0)
        time.sleep(.1)
        version_a = {"credits": {"value": 1}}
        version_b = {"credits": {"value": 2}}

        manager.save_all(data=version_a)
        self.assertEqual(version_a, self._wait_for_file(manager.filename, version_a))

        # exactly ONE injected I/O error
        real_replace = os.replace
        calls = []

        def replace_once_failing(src, dst, **kwargs):
            calls.append(dst)
            if len(calls) == 1:
                raise OSError(errno.ENOSPC, "No space left on device (injected)")
            return real_replace(src, dst, **kwargs)

        with patch("mpf.core.file_manager.os.replace", side_effect=replace_once_failing):
            manager.save_all(data=version_b)
            end = time.time() + 4
            while not calls and time.time() < end:
                time.sleep(.01)
            self.assertEqual(1, len(calls), "the injected error was hit once")
            # the machine keeps running for a while. I/O works again
            time.sleep(2.5)

            # never torn: still the complete earlier version
            self.assertEqual(version_a, FileManager.load(manager.filename, halt_on_error=False))

            # clean shutdown. give the writer thread all the time it wants for its final flush
            self.machine.thread_stopper.set()
            on_disk = self._wait_for_file(manager.filename, version_b, timeout=5)

        self.assertEqual(version_b, on_disk,
                         "after a clean shutdown the file does not hold the last saved data: {} write attempt(s) "
                         "happened, the failed one was never retried".format(len(calls)))


if __name__ == "__main__":
    unittest.main()
