"""C07 finding 1: a start request issued from a handler of the mode's own `mode_<name>_stopped`
event (or of anything else that is processed between Mode._stopped and Mode._mode_stopped_callback,
e.g. an events_when_stopped event) is accepted, but the pending clean-up of the PREVIOUS run
(_mode_stopped_callback) then runs AFTER the new run has been set up and has become active. It wipes
the new run's stop_events handler, its device control event handlers and its mode devices.

Run: cd /tmp/hunt_C07 && PYTHONPATH=/tmp/hunt_C07 /venv/bin/python -W ignore demo.py
"""
import os
import shutil
import tempfile
import unittest

from mpf.tests.MpfTestCase import MpfTestCase

MACHINE_CONFIG = """#config_version=6
modes:
  - m
"""

# a mode which restarts itself whenever it stopped (start_events: mode_m_stopped)
MODE_CONFIG = """#config_version=6
mode:
  start_events: start_m, mode_m_stopped
  stop_events: stop_m
  priority: 100
  game_mode: False

counters:
  c:
    count_events: count_c
    events_when_hit: c_hit
    starting_count: 0
    count_complete_value: 100
    persist_state: False
"""


class TestRestartFromStoppedEvent(MpfTestCase):

    def get_config_file(self):
        return 'config.yaml'

    def get_machine_path(self):
        return self._machine_dir

    def setUp(self):
        self._machine_dir = tempfile.mkdtemp(prefix="c07_f1_")
        os.makedirs(os.path.join(self._machine_dir, "config"))
        os.makedirs(os.path.join(self._machine_dir, "modes", "m", "config"))
        with open(os.path.join(self._machine_dir, "config", "config.yaml"), "w") as f:
            f.write(MACHINE_CONFIG)
        with open(os.path.join(self._machine_dir, "modes", "m", "config", "m.yaml"), "w") as f:
            f.write(MODE_CONFIG)
        super().setUp()

    def tearDown(self):
        super().tearDown()
        shutil.rmtree(self._machine_dir, ignore_errors=True)

    def _handlers(self, event):
        return [h for h in self.machine.events.registered_handlers.get(event, [])]

    def test_restart_from_own_stopped_event(self):
        mode = self.machine.modes["m"]
        lifecycle = []
        for ev in ("will_start", "starting", "started", "will_stop", "stopping", "stopped"):
            self.machine.events.add_handler("mode_m_" + ev, lambda _ev=ev, **kwargs: lifecycle.append(_ev))

        # first run of the mode: everything is fine
        self.post_event("start_m")
        self.advance_time_and_run(1)
        self.assertTrue(mode.active)
        first_run_stop_handlers = len(self._handlers("stop_m"))
        first_run_count_handlers = len(self._handlers("count_c"))
        self.assertEqual(1, first_run_stop_handlers)
        self.assertEqual(1, first_run_count_handlers)
        self.assertEqual(1, len(mode.mode_devices))
        self.post_event("count_c")
        self.advance_time_and_run(.1)
        self.assertEqual(1, self.machine.counters["c"].value)

        # stop it. the handler of mode_m_stopped (the mode's own start event) restarts it.
        del lifecycle[:]
        self.post_event("stop_m")
        self.advance_time_and_run(1)

        # the start was accepted and the mode became active again (well-formed so far)
        self.assertEqual(["will_stop", "stopping", "stopped", "will_start", "starting", "started"], lifecycle)
        self.assertTrue(mode.active)
        self.assertIn(mode, self.machine.mode_controller.active_modes)

        # ... so the second run must have what the first run had: its stop_events handler, the control
        # events of its devices and its mode devices.
        problems = []
        if len(self._handlers("stop_m")) != first_run_stop_handlers:
            problems.append("stop_events handler of the running mode is gone ({} handlers for stop_m)".format(
                len(self._handlers("stop_m"))))
        if len(self._handlers("count_c")) != first_run_count_handlers:
            problems.append("control event handler count_c of counter c is gone")
        if len(mode.mode_devices) != 1:
            problems.append("mode_devices of the running mode is empty: {}".format(mode.mode_devices))
        if self.machine.counters["c"].mode is not mode:
            problems.append("counter c was removed from the running mode (device.mode={})".format(
                self.machine.counters["c"].mode))

        # and a stop request by event must be accepted and complete
        self.post_event("stop_m")
        self.advance_time_and_run(1)
        if "will_stop" not in lifecycle[6:]:
            problems.append("stop_m no longer stops the active mode (mode.active={})".format(mode.active))

        self.assertEqual([], problems)


if __name__ == "__main__":
    unittest.main()
