"""C04 finding 2: a manual plunge from an idle mechanical plunger whose ball falls back wedges the device
with a wrong ball count forever.

Topology: trough -> launcher (mechanical_eject: true, one ball switch) -> playfield.
History: a ball rests idle in the launcher.  The player pulls the plunger, the plunge is too weak, the ball
leaves the switch for two seconds and rolls back onto it ("ball falls back").  Later the player plunges
properly and the ball reaches the playfield and hits a playfield switch.

Property: "whenever the ball devices have come to rest each device's ball count equals the number of balls
physically in it, the playfield counts equal the balls physically loose, and all counts sum to the number of
balls known."
Observed: after the fall-back the launcher reports 0 balls although the ball sits on its switch; its
outgoing handler is dead-locked (state 'failed_confirm' forever) because the eject which was started with
start_eject(already_left=True) is never ended; the later real plunge is never noticed: playfield.balls stays 0
with one ball loose, and the counts sum to 1 with 2 balls known.
"""
import os
import shutil
import tempfile
import unittest

from mpf.tests.MpfTestCase import MpfTestCase

CONFIG = """#config_version=6

playfields:
    playfield:
        default_source_device: launcher
        tags: default

coils:
    c_trough:
        number:
    c_launcher:
        number:

switches:
    s_trough1:
        number:
    s_trough2:
        number:
    s_launcher:
        number:
    s_playfield:
        number:
        tags: playfield_active

ball_devices:
    trough:
        eject_coil: c_trough
        ball_switches: s_trough1, s_trough2
        eject_targets: launcher
        eject_timeouts: 3s
        tags: trough, drain, home
    launcher:
        eject_coil: c_launcher
        ball_switches: s_launcher
        eject_targets: playfield
        eject_timeouts: 6s
        mechanical_eject: true

virtual_platform_start_active_switches:
    - s_trough1
    - s_trough2
"""


def _make_machine_dir():
    for base in (os.path.dirname(os.path.abspath(__file__)), None):
        try:
            path = tempfile.mkdtemp(prefix="c04_f2_", dir=base)
            os.makedirs(os.path.join(path, "config"))
            with open(os.path.join(path, "config", "config.yaml"), "w") as f:
                f.write(CONFIG)
            return path
        except OSError:
            continue
    raise RuntimeError("cannot create machine dir")


class IdleMechanicalEjectFallsBack(MpfTestCase):

    _dir = None

    @classmethod
    def setUpClass(cls):
        cls._dir = _make_machine_dir()

    @classmethod
    def tearDownClass(cls):
        shutil.rmtree(cls._dir, ignore_errors=True)

    def get_config_file(self):
        return 'config.yaml'

    def get_machine_path(self):
        return self._dir

    def get_platform(self):
        return 'virtual'

    def _counts(self):
        m = self.machine
        return {d.name: d.balls for d in m.ball_devices.values()}

    def test_weak_manual_plunge_from_idle(self):
        m = self.machine
        sw = m.switch_controller.process_switch
        self.advance_time_and_run(5)
        trough = m.ball_devices["trough"]
        launcher = m.ball_devices["launcher"]
        playfield = m.ball_devices["playfield"]
        self.assertEqual(2, m.ball_controller.num_balls_known)

        # bring one ball into the launcher and let it rest there (device idle)
        launcher.request_ball()
        self.advance_time_and_run(1)
        sw("s_trough1", 0)
        self.advance_time_and_run(1)
        sw("s_launcher", 1)
        self.advance_time_and_run(10)
        self.assertEqual("idle", launcher.state)
        self.assertEqual({"trough": 1, "launcher": 1, "playfield": 0}, self._counts())

        # weak manual plunge: ball leaves the switch for 2s and rolls back
        sw("s_launcher", 0)
        self.advance_time_and_run(2)
        sw("s_launcher", 1)
        # let everything come to rest (eject timeout 6s, default ball_missing_timeout 20s)
        self.advance_time_and_run(60)

        # physically: 1 ball in trough, 1 ball in launcher, none loose
        self.assertEqual(
            {"trough": 1, "launcher": 1, "playfield": 0}, self._counts(),
            "ball fell back into the launcher but MPF's counts are {} (launcher state: {})".format(
                self._counts(), launcher.state))

        # now a proper plunge: ball reaches the playfield
        sw("s_launcher", 0)
        self.advance_time_and_run(1)
        sw("s_playfield", 1)
        self.advance_time_and_run(.1)
        sw("s_playfield", 0)
        self.advance_time_and_run(60)
        self.assertEqual({"trough": 1, "launcher": 0, "playfield": 1}, self._counts())
        self.assertEqual(m.ball_controller.num_balls_known, trough.balls + launcher.balls + playfield.balls)
        self.assertEqual("idle", launcher.state)


if __name__ == "__main__":
    unittest.main()
