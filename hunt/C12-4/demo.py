"""C12 finding 4: the pow2 validator returns values that are not powers of two
(and not even integers).

_validate_type_pow2() asks Util.is_power2(item), which does `int(item)` before
testing, and then returns the ORIGINAL item.  So 8.5 (int() -> 8) is accepted
and returned as 8.5, 16.9 as 16.9, and the strings "16"/"8" are returned as str.
The only spec user is dmds: shades:
single|pow2|16.
"""
import unittest

from mpf.core.config_validator import ValidationPath
from mpf.exceptions.config_file_error import ConfigFileError
from mpf.tests.MpfTestCase import MpfTestCase


def is_int_power_of_two(value):
    return type(value) is int and value > 0 and value & (value - 1) == 0


class Pow2Demo(MpfTestCase):

    def get_config_file(self):
        return 'test_config_interface.yaml'

    def get_machine_path(self):
        return 'tests/machine_files/config_interface/'

    def setUp(self):
        self.machine_spec_patches['test_section'] = dict(__valid_in__='machine')
        super().setUp()

    def _check(self, item):
        """Validate dmds:shades; it must be rejected or come back as an int power of two."""
        spec = self.machine.config_validator.get_config_spec()["dmds"]["shades"]
        self.assertEqual(["single", "pow2", "16"], spec)
        vfi = ValidationPath(ValidationPath(ValidationPath(None, "dmds"), "my_dmd"), "shades")
        try:
            value = self.machine.config_validator.validate_config_item(spec, vfi, item)
        except ConfigFileError:
            return
        self.assertTrue(is_int_power_of_two(value),
                        "shades: {!r} was accepted and returned as {!r} ({})".format(
                            item, value, type(value).__name__))

    def test_sanity(self):
        self._check(16)     # accepted, 16
        self._check(12)     # rejected
        self._check("abc")  # rejected

    def test_fraction(self):
        self._check(8.5)    # accepted, returns 8.5

    def test_fraction_2(self):
        self._check(16.9)   # accepted, returns 16.9

    def test_string(self):
        self._check("16")   # accepted, returns the str "16" (e.g. YAML  shades: "16")

    def test_full_section(self):
        """Same through validate_config() on the complete dmds section."""
        try:
            config = self.machine.config_validator.validate_config(
                "dmds", {"shades": 8.5}, "my_dmd", base_spec="device")
        except ConfigFileError:
            return
        self.assertTrue(is_int_power_of_two(config["shades"]), "shades = {!r}".format(config["shades"]))


if __name__ == "__main__":
    unittest.main()
