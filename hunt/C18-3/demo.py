"""C18 finding 3: a machine-wide logic block ignores start_enabled.

LogicBlock._initialize() computes self._start_enabled from start_enabled (falling back to
"no enable_events"), and the mode path (device_loaded_in_mode) uses it.  The machine-wide path
device_added_system_wide() does not: it enables iff there are no enable_events.  So
  * start_enabled: false (without enable_events)  -> block is enabled anyway and counts hits which
    arrive while it is supposed to be disabled,
  * start_enabled: true  (with enable_events)     -> block stays disabled and drops hits.
"""
import os
import tempfile
import unittest

from mpf.tests.MpfTestCase import MpfTestCase

CONFIG = """#config_version=6
counters:
  c_off:
    count_events: c_count
    start_enabled: false
    count_complete_value: 5
  c_on:
    count_events: c_count
    start_enabled: true
    enable_events: c_on_enable
    count_complete_value: 2
"""


class TestStartEnabled(MpfTestCase):

    def get_config_file(self):
        return "config.yaml"

    def get_machine_path(self):
        d = tempfile.mkdtemp(prefix="c18_f3_")
        os.makedirs(os.path.join(d, "config"))
        with open(os.path.join(d, "config", "config.yaml"), "w") as f:
            f.write(CONFIG)
        return d

    def get_platform(self):
        return "virtual"

    def test_start_enabled_false(self):
        self.mock_event("logicblock_c_off_hit")
        self.mock_event("logicblock_c_off_complete")
        c_off = self.machine.counters["c_off"]
        self.post_event("c_count")
        self.post_event("c_count")
        # hits while disabled are not accepted
        self.assertEqual(0, c_off.value, "start_enabled: false but the counter accepted hits")
        self.assertFalse(c_off.enabled, "start_enabled: false but the counter is enabled")
        self.assertEqual(0, self._events["logicblock_c_off_hit"])
        self.assertEqual(0, self._events["logicblock_c_off_complete"])

    def test_start_enabled_true(self):
        self.mock_event("logicblock_c_on_hit")
        self.mock_event("logicblock_c_on_complete")
        c_on = self.machine.counters["c_on"]
        self.post_event("c_count")
        self.post_event("c_count")
        self.assertEqual(2, self._events["logicblock_c_on_hit"], "start_enabled: true but hits were dropped")
        self.assertEqual(1, self._events["logicblock_c_on_complete"])


if __name__ == "__main__":
    unittest.main()
