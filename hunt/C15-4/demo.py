"""C15 finding 4: a persistent machine variable is not written (and reloads with a stale value) when the new value
differs from the old one but `new - old` is falsy.

MachineVariables.set_machine_var() decides whether something changed with `change = value - prev_value` and only falls
back to `prev_value != value` on TypeError. For some value types YAML can represent, the subtraction works but is falsy
although the values differ:
  * sets (YAML !!set): {1, 2} - {1, 2, 3} == set()   (any shrink of a set)
  * int vs. float:     (10**20 + 1) - 1e20 == 0.0    but 10**20 + 1 != 1e20
The in-memory value is replaced, but _write_machine_var_to_disk() is skipped (and no machine_var_* event is posted), so
the file keeps the old value and the next boot reloads a value which is not equal to the last one set.
"""
import unittest

from mpf.core.machine_vars import MachineVariables
from mpf.tests.MpfTestCase import MpfTestCase
from mpf.tests.TestDataManager import TestDataManager


class TestPersistedValueEqualsLastSet(MpfTestCase):

    def get_config_file(self):
        return 'config.yaml'

    def get_machine_path(self):
        return 'tests/machine_files/machine_vars/'

    def _reboot_and_get(self, name):
        """Load the data which was handed to the data manager into fresh MachineVariables (= next boot)."""
        written = self.machine.variables.machine_var_data_manager.written_data
        next_boot = MachineVariables(self.machine)
        next_boot.load_machine_vars(TestDataManager(written), self.machine.clock.get_datetime().timestamp())
        return next_boot.get_machine_var(name)

    def test_set_value(self):
        self.machine.variables.configure_machine_var("collected", persist=True)
        self.machine.variables.set_machine_var("collected", {1, 2, 3})
        self.advance_time_and_run(2)
        self.assertEqual({1, 2, 3}, self._reboot_and_get("collected"))     # sanity: sets persist fine

        self.machine.variables.set_machine_var("collected", {1, 2})
        self.advance_time_and_run(2)
        self.assertEqual({1, 2}, self.machine.variables.get_machine_var("collected"))
        self.assertEqual({1, 2}, self._reboot_and_get("collected"),
                         "persistent machine var does not reload with the value last set")

    def test_int_after_float(self):
        self.machine.variables.configure_machine_var("big", persist=True)
        self.machine.variables.set_machine_var("big", 1e20)
        self.advance_time_and_run(2)
        self.machine.variables.set_machine_var("big", 10 ** 20 + 1)
        self.advance_time_and_run(2)
        self.assertEqual(10 ** 20 + 1, self.machine.variables.get_machine_var("big"))
        self.assertEqual(10 ** 20 + 1, self._reboot_and_get("big"),
                         "persistent machine var does not reload with the value last set")


if __name__ == "__main__":
    unittest.main()
