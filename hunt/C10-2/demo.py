"""C10 finding 2: the software EOS repulse energises the flipper coil itself (hw_driver.enable); when the flipper is
disabled (ball end / tilt / service) while the button is still held the manager is stopped and nobody ever switches the
coil off again."""
import unittest

from mpf.tests.MpfTestCase import MpfTestCase


class SoftwareEosRepulseLeavesCoilOn(MpfTestCase):

    def get_config_file(self):
        return 'software_eos_repulse.yaml'

    def get_machine_path(self):
        return 'tests/machine_files/flippers/'

    def get_platform(self):
        return 'virtual'

    def test_disable_while_repulsed(self):
        coil = self.machine.coils["c_flipper_single_main"]
        self.assertEqual("disabled", coil.hw_driver.state)

        self.post_event("enable_flipper_single")
        self.advance_time_and_run(.1)
        self.assertTrue(self.machine.flippers["single_flipper"]._enabled)

        # player holds the flipper button (the hardware rule drives the coil; virtual hardware does nothing)
        self.hit_switch_and_run("s_flipper_single", 1)
        # flipper is up: EOS closed for longer than eos_active_ms_before_repulse
        self.hit_switch_and_run("s_flipper_single_eos", 1)
        # ball knocks the flipper down: EOS opens -> software repulse enables the coil
        self.release_switch_and_run("s_flipper_single_eos", .1)
        self.assertEqual("enabled", coil.hw_driver.state)

        # ball ends / machine tilts / service mode: flipper gets disabled while the button is still held
        self.post_event("disable_flipper_single")
        self.advance_time_and_run(1)
        self.assertFalse(self.machine.flippers["single_flipper"]._enabled)
        self.assertEqual({}, self.machine.default_platform.rules)

        # the player lets go of the button
        self.release_switch_and_run("s_flipper_single", 5)

        # C10: no flipper coil is left energised
        self.assertEqual("disabled", coil.hw_driver.state,
                         "flipper is disabled and the button is released but the coil is still energised")


if __name__ == '__main__':
    unittest.main()
