"""C17 finding 4: a resume request for a show that is NOT paused makes it jump to the next step at once.

RunningShow.resume() does not check whether the show is paused.  It cancels the pending step timer, sets
next_step_time to "now" and runs the next step immediately.  A running 1s/1s/1s show that receives `resume`
0.5s after it started therefore executes step 2 at t+0.5 instead of t+1.0, step 3 at t+1.5 instead of t+2.0,
and so on (every further resume shifts the schedule again); it also posts events_when_resumed although nothing
was paused.  The same happens for the second of two resume requests after one pause.
"""
import os
import shutil
import tempfile
import unittest

from mpf.tests.MpfTestCase import MpfTestCase

CONFIG = """\
#config_version=6
lights:
  l1:
    number: 1
shows:
  s1:
    - duration: 1
      lights:
        l1: red
      events: step1
    - duration: 1
      lights:
        l1: blue
      events: step2
    - duration: 1
      lights:
        l1: green
      events: step3
show_player:
  play_s1:
    s1:
      loops: 0
      events_when_resumed: s1_resumed
      events_when_completed: s1_completed
  resume_s1:
    s1: resume
"""


class Demo(MpfTestCase):

    def setUp(self):
        self._tmp = tempfile.mkdtemp(prefix="c17_f4_")
        os.makedirs(os.path.join(self._tmp, "config"))
        with open(os.path.join(self._tmp, "config", "config.yaml"), "w") as f:
            f.write(CONFIG)
        super().setUp()

    def tearDown(self):
        try:
            super().tearDown()
        finally:
            shutil.rmtree(self._tmp, ignore_errors=True)

    def get_config_file(self):
        return "config.yaml"

    def get_machine_path(self):
        return self._tmp

    def _rec(self, name, **kwargs):
        self.seen.append((round(self.machine.clock.get_time() - self.t0, 3), name))

    def test_resume_of_running_show(self):
        self.seen = []
        for name in ("step1", "step2", "step3", "s1_resumed", "s1_completed"):
            self.machine.events.add_handler(name, self._rec, name=name)

        self.t0 = self.machine.clock.get_time()
        self.post_event("play_s1")
        self.advance_time_and_run(.5)
        self.assertLightColor("l1", "red")
        self.post_event("resume_s1")            # the show was never paused
        self.advance_time_and_run(.1)           # t + 0.6: step 2 is due at t + 1.0 only
        print(self.seen)
        self.assertLightColor("l1", "red")
        self.advance_time_and_run(5)
        print(self.seen)
        times = dict((n, t) for t, n in self.seen)
        self.assertEqual(1.0, times["step2"])
        self.assertEqual(2.0, times["step3"])
        self.assertEqual(3.0, times["s1_completed"])


if __name__ == "__main__":
    unittest.main()
