"""C13 finding 2: a timed pause followed by an untimed pause (or a timed pause with a
value that evaluates to 0) leaves the 'pause' delay of the first pause scheduled; it
calls Timer.start() later, so the indefinitely paused timer starts ticking by itself.

Run: cd /tmp/hunt_C13 && PYTHONPATH=/tmp/hunt_C13 /venv/bin/python -W ignore demo.py
"""
import unittest

from mpf.tests.MpfTestCase import MpfTestCase


class StaleUnpause(MpfTestCase):

    def get_config_file(self):
        return "test_timer.yaml"

    def get_machine_path(self):
        return "tests/machine_files/timer/"

    def test_timed_pause_then_untimed_pause(self):
        ticks = []

        def on_tick(**kwargs):
            ticks.append((round(self.machine.clock.get_time(), 3), kwargs["ticks"]))

        self.machine.events.add_handler("timer_timer_down_tick", on_tick)
        self.post_event("start_mode_with_timers")
        self.advance_time_and_run(.01)
        timer = self.machine.timers["timer_down"]     # 5 -> 0, tick_interval 1.5s

        self.post_event("start_timer_down")
        self.advance_time_and_run(.1)
        self.assertTrue(timer.running)

        self.post_event("pause_timer_down")           # control event: pause, value 2 (seconds)
        self.advance_time_and_run(.5)
        self.assertFalse(timer.running)
        self.assertTrue(timer.delay.check("pause"))

        timer.pause()                                 # untimed pause: pause until somebody starts the timer
        self.advance_time_and_run(.1)
        self.assertFalse(timer.running)
        ticks_when_paused = list(ticks)
        value_when_paused = timer.ticks

        self.advance_time_and_run(10)                 # nobody starts / stops / touches the timer

        self.assertEqual(ticks_when_paused, ticks,
                         "timer ticked while paused indefinitely (ticks since: {})".format(
                             ticks[len(ticks_when_paused):]))
        self.assertEqual(value_when_paused, timer.ticks)
        self.assertFalse(timer.running)


if __name__ == "__main__":
    unittest.main()
