"""C20 finding 3: a pricing tier whose credits are worth less than the same money
paid in single games yields a NEGATIVE bonus in the pricing table, and
_add_credit_units applies it without a floor at zero: the balance drops when a
coin is inserted and can become negative.

config: quarter coin, 0.25 -> 1 credit, 1.00 -> 2 credits (operator typo / bad
adjustment; the validator only checks that the tier *price* rises).
"""
import os
import shutil
import tempfile
import unittest
from unittest.mock import MagicMock

from mpf.tests.MpfTestCase import MpfTestCase

CONFIG = """#config_version=6

modes:
    - credits

machine:
    min_balls: 0

switches:
    s_coin:
        number:
    s_start:
        number:
        tags: start

credits:
  max_credits: 12
  free_play: no
  switches:
    - switch: s_coin
      type: money
      value: 0.25
  pricing_tiers:
    - price: 0.25
      credits: 1
    - price: 1.00
      credits: 2
  persist_credits_while_off_time: 0
"""


class Demo(MpfTestCase):

    _tmp = None

    def get_config_file(self):
        return 'config.yaml'

    def get_machine_path(self):
        if not Demo._tmp:
            Demo._tmp = tempfile.mkdtemp(prefix="c20_f3_")
            os.makedirs(os.path.join(Demo._tmp, "config"))
            with open(os.path.join(Demo._tmp, "config", "config.yaml"), "w") as f:
                f.write(CONFIG)
        return Demo._tmp

    @classmethod
    def tearDownClass(cls):
        if Demo._tmp:
            shutil.rmtree(Demo._tmp, ignore_errors=True)

    def _units(self):
        return self.machine.variables.get_machine_var("credit_units")

    def test_balance_never_negative_and_never_drops_on_a_coin(self):
        print("pricing_table =", self.machine.modes["credits"].pricing_table)
        self.machine.playfield.add_ball = MagicMock()
        self.machine.ball_controller.num_balls_known = 3

        # one quarter, start a one player game
        self.hit_and_release_switch("s_coin")
        self.advance_time_and_run()
        self.assertEqual(1, self._units())
        self.hit_and_release_switch("s_start")
        self.advance_time_and_run()
        self.assertIsNotNone(self.machine.game)
        self.assertEqual(0, self._units())

        # three more quarters during ball 1 and three more players
        for _ in range(3):
            self.hit_and_release_switch("s_coin")
            self.advance_time_and_run()
        self.assertEqual(3, self._units())
        for _ in range(3):
            self.hit_and_release_switch("s_start")
            self.advance_time_and_run()
        self.assertEqual(4, self.machine.game.num_players)
        self.assertEqual(0, self._units())

        # a fourth quarter (1.00 since the game started)
        before = self._units()
        self.hit_and_release_switch("s_coin")
        self.advance_time_and_run()
        print("credit_units before coin:", before, "after coin:", self._units(),
              "credits_string:", self.machine.variables.get_machine_var("credits_string"))
        self.assertGreaterEqual(self._units(), 0, "the credit balance went below zero")
        self.assertGreaterEqual(self._units(), before, "inserting a coin lowered the balance")


if __name__ == "__main__":
    unittest.main()
