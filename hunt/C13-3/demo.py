"""C13 finding 3: Timer.pause(timer_value) is documented to take SECONDS, but a plain
number (anything without .evaluate(), i.e. every call from code) is handed to the
DelayManager unconverted as MILLISECONDS: pause(2) un-pauses after 2 ms, so the timer
ticks during the 2 s in which it is supposed to be paused.

Run: cd /tmp/hunt_C13 && PYTHONPATH=/tmp/hunt_C13 /venv/bin/python -W ignore demo.py
"""
import unittest

from mpf.tests.MpfTestCase import MpfTestCase


class PauseSecondsTakenAsMs(MpfTestCase):

    def get_config_file(self):
        return "test_timer.yaml"

    def get_machine_path(self):
        return "tests/machine_files/timer/"

    def test_pause_two_seconds(self):
        ticks = []

        def on_tick(**kwargs):
            ticks.append((round(self.machine.clock.get_time(), 3), kwargs["ticks"]))

        self.machine.events.add_handler("timer_timer_down_tick", on_tick)
        self.post_event("start_mode_with_timers")
        self.advance_time_and_run(.01)
        timer = self.machine.timers["timer_down"]     # 5 -> 0, tick_interval 1.5s

        timer.start()
        self.advance_time_and_run(.1)
        self.assertTrue(timer.running)
        ticks_before = list(ticks)

        # "timer_value: How many seconds you want to pause the timer for."
        timer.pause(2)
        self.advance_time_and_run(1.9)                # still inside the 2 s pause

        self.assertFalse(timer.running, "timer is running again {} s into a 2 s pause".format(1.9))
        self.assertEqual(ticks_before, ticks,
                         "timer ticked while paused: {}".format(ticks[len(ticks_before):]))
        self.assertTrue(timer.delay.check("pause"))

        self.advance_time_and_run(.2)                 # 2.1 s after pause(2): resumed
        self.assertTrue(timer.running)


if __name__ == "__main__":
    unittest.main()
