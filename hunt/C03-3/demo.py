"""C03 finding 3: a switch report that arrives from inside an untimed handler
of the same switch (re-entrant report) is processed completely (state,
cancel timers, handlers of the new state) and then the OUTER _call_handlers
loop carries on with its snapshot of the OLD state's handlers:

  * hold-time handlers of the old state are armed AFTER the cancel of the inner
    change, with key = (new) last_change + ms  -> they fire although the switch
    did not stay in that state (it is not even in that state any more);
  * untimed handlers of the old state are invoked after the handlers of the
    newer state, so listeners see "inactive" then "active" while the switch is
    inactive.

Timeline (s_test, NO): active at t0.  Untimed handler H1 (state=1) reports the
switch inactive again (logical report).  T is a state=1 / 100ms handler.
Promised: T never fires (the switch was active for 0ms), final state inactive.
"""
import unittest

from mpf.tests.MpfTestCase import MpfTestCase


class Demo(MpfTestCase):

    def get_config_file(self):
        return 'config.yaml'

    def get_machine_path(self):
        return 'tests/machine_files/switch_controller/'

    def test_report_from_inside_untimed_handler(self):
        sc = self.machine.switch_controller
        calls = []

        def h1():
            calls.append("h1_active")
            sc.process_switch("s_test", 0, logical=True)

        def held():
            calls.append("held_active_100ms(state now={})".format(self.machine.switches["s_test"].state))

        def h2():
            calls.append("h2_active")

        def inactive():
            calls.append("inactive")

        sc.add_switch_handler("s_test", h1, state=1, ms=0)
        sc.add_switch_handler("s_test", held, state=1, ms=100)
        sc.add_switch_handler("s_test", h2, state=1, ms=0)
        sc.add_switch_handler("s_test", inactive, state=0, ms=0)

        self.hit_switch_and_run("s_test", 1)

        print("handler calls:", calls)
        # last reported state is inactive
        self.assertEqual(0, self.machine.switches["s_test"].state)
        # the switch never stayed active for 100ms -> the hold-time handler must not fire
        self.assertFalse([c for c in calls if c.startswith("held")],
                         "hold-time handler fired although the switch did not stay active: {}".format(calls))
        # handlers must be told about the changes in the order they happened
        self.assertEqual(["h1_active", "h2_active", "inactive"], calls)


if __name__ == "__main__":
    unittest.main()
