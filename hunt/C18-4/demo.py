"""C18 finding 4: Counter control_events (add / subtract / jump) of a mode-based counter are registered
once, machine-wide and for ever (Counter._initialize -> _setup_control_events ->
machine.events.add_handler), not as mode event handlers, and event_add/event_subtract/event_jump have
no guard.  While the counter's mode is not running self._state is None, so self.value is None and
`self.value += x` raises TypeError inside an event handler -> MPF stops.
(Uses the config shipped with the mpf test-suite: tests/machine_files/logic_blocks, mode4, counter6.)
"""
import unittest

from mpf.tests.MpfFakeGameTestCase import MpfFakeGameTestCase


class TestControlEventOutsideMode(MpfFakeGameTestCase):

    def get_config_file(self):
        return "config.yaml"

    def get_machine_path(self):
        return "tests/machine_files/logic_blocks/"

    def test_add_before_mode_started(self):
        self.mock_event("counter6_complete")
        self.start_game()
        self.assertFalse(self.machine.modes["mode4"].active)
        # counter6 lives in mode4, which is not running: its events must be ignored
        self.post_event("increase_counter6_5")
        self.advance_time_and_run(.1)
        self.assertEqual(0, self._events["counter6_complete"])

    def test_add_after_mode_stopped(self):
        self.mock_event("counter6_complete")
        self.start_game()
        self.post_event("start_mode4")
        self.advance_time_and_run(.1)
        self.post_event("counter6_count")
        self.assertEqual(1, self.machine.counters["counter6"].value)
        self.post_event("stop_mode4")
        self.advance_time_and_run(.1)
        self.post_event("increase_counter6_5")
        self.advance_time_and_run(.1)
        self.assertEqual(0, self._events["counter6_complete"])


if __name__ == "__main__":
    unittest.main()
