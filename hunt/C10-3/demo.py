"""C10 finding 3: an autofire / kickback with coil_pulse_delay cannot be enabled on the virtual platform: the virtual
platform has no set_delayed_pulse_on_hit_rule, enable() raises AFTER it marked the device enabled, no rule is installed
and the following disable() crashes on the missing rule."""
import os
import shutil
import tempfile
import unittest

from mpf.tests.MpfTestCase import MpfTestCase

CONFIG = """#config_version=6

coils:
  kickback_coil:
    number:
    default_pulse_ms: 20

switches:
  s_kickback:
    number:

kickbacks:
  kb:
    coil: kickback_coil
    switch: s_kickback
    coil_pulse_delay: 20ms
    enable_events: kb_enable
    disable_events: kb_disable
"""


class DelayedAutofireOnVirtual(MpfTestCase):

    @classmethod
    def setUpClass(cls):
        cls._dir = tempfile.mkdtemp(prefix="hunt_c10_f3_")
        os.makedirs(os.path.join(cls._dir, "config"))
        with open(os.path.join(cls._dir, "config", "config.yaml"), "w") as f:
            f.write(CONFIG)

    @classmethod
    def tearDownClass(cls):
        shutil.rmtree(cls._dir, ignore_errors=True)

    def get_config_file(self):
        return 'config.yaml'

    def get_machine_path(self):
        return self._dir + os.sep

    def get_platform(self):
        return 'virtual'

    def _rules(self):
        hw_switch = self.machine.switches["s_kickback"].hw_switch
        hw_driver = self.machine.coils["kickback_coil"].hw_driver
        return [k for k in self.machine.default_platform.rules if k == (hw_switch, hw_driver)]

    def test_enable_disable_delayed_kickback(self):
        kickback = self.machine.kickbacks["kb"]
        self.assertFalse(kickback._enabled)
        self.assertEqual([], self._rules())

        error = None
        try:
            kickback.enable()
        except BaseException as e:      # pylint: disable-msg=broad-except
            error = e

        # C10: enabling installs each rule once; the installed rules are exactly those of the enabled devices
        self.assertEqual(1 if kickback._enabled else 0, len(self._rules()),
                         "kickback._enabled={} but {} rule(s) installed (enable raised: {!r})".format(
                             kickback._enabled, len(self._rules()), error))

        kickback.disable()
        self.assertFalse(kickback._enabled)
        self.assertEqual([], self._rules())


if __name__ == '__main__':
    unittest.main()
