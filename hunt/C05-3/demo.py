"""C05 finding 3: a ball rests in an idle mechanical plunger (it was requested for the plunger).
The player plunges too weakly: ball leaves the plunger switch and rolls back. The "mechanical eject
during idle" path (OutgoingBallsHandler._run, already_left) detects the return but does not end the
eject tracker (ball_count_handler.end_eject is only called on success) and then enters _ejecting():
the count lock is still held -> the plunger hangs for ever in state failed_confirm; the next (proper)
plunge is never noticed (ball on the playfield is not counted) and every later eject via this device is stuck."""
import unittest

from mpf.tests.MpfTestCase import MpfTestCase


class TestWeakPlungeDuringIdle(MpfTestCase):

    def get_config_file(self):
        return 'test_ball_device_manual_with_target.yaml'

    def get_machine_path(self):
        return 'tests/machine_files/ball_device/'

    def test_weak_plunge_of_idle_ball(self):
        trough = self.machine.ball_devices['test_trough']
        launcher = self.machine.ball_devices['test_launcher']
        playfield = self.machine.ball_devices['playfield']

        # two balls in the trough
        self.hit_switch_and_run("s_ball_switch1", 0)
        self.hit_switch_and_run("s_ball_switch2", 1)
        self.assertEqual(2, trough.balls)

        # manual request: one ball for the launcher (it keeps it)
        launcher.request_ball()
        self.advance_time_and_run(1)
        self.release_switch_and_run("s_ball_switch1", 1)
        self.hit_switch_and_run("s_ball_switch_launcher", 1)
        self.advance_time_and_run(10)
        self.assertEqual(1, launcher.balls)
        self.assertEqual("idle", launcher.state)

        # player plunges too weakly: ball leaves the switch and rolls back after 2s
        self.release_switch_and_run("s_ball_switch_launcher", 2)
        self.hit_switch_and_run("s_ball_switch_launcher", 1)
        # nothing happens for a long time (longer than eject timeout 6s + ball missing timeout 20s)
        self.advance_time_and_run(100)
        self.assertEqual(0, playfield.balls)

        # now the player plunges properly and the ball reaches the playfield
        self.release_switch_and_run("s_ball_switch_launcher", 1)
        self.hit_and_release_switch("s_playfield")
        # physical world stops changing
        self.advance_time_and_run(100)

        problems = []
        if launcher.state != "idle":
            problems.append("launcher is empty and nothing is moving but its state is '{}'".format(launcher.state))
        if launcher.balls != 0:
            problems.append("launcher is physically empty but counts {} balls".format(launcher.balls))
        if playfield.balls != 1:
            problems.append("one ball is on the playfield but playfield.balls={}".format(playfield.balls))

        self.assertEqual([], problems)


if __name__ == '__main__':
    unittest.main()
