"""C14 / FAST: the writer does not pause after a confirmed command.

A command is sent with send_with_confirmation(msg, 'DL:P').  The (mock) board
does not answer yet (response latency).  While the confirmation is outstanding
two more commands are queued.  The property says that nothing further is written
to the port until the awaited confirmation has arrived.
"""
import unittest

import mpf.tests.test_Fast_Neuron as tfn


class TestWriterPauses(tfn.TestFastNeuron):

    def test_nothing_written_until_confirmation(self):
        comm = self.fast_net_serial()
        self.advance_time_and_run(.1)
        # make sure nothing is pending
        self.assertFalse(comm.pause_sending_flag.is_set())
        self.assertTrue(comm.send_queue.empty())

        # the board will NOT answer this one (falsy response -> no answer queued by the mock)
        confirmed = "DL:07,81,00,10,0A,FF,00,00,00"
        self.net_cpu.expected_commands = {confirmed: None}
        # later traffic (answered at once by the mock, irrelevant here)
        self.net_cpu.autorespond_commands["TL:07,01"] = "TL:P"
        self.net_cpu.autorespond_commands["TL:07,02"] = "TL:P"

        start = len(self.net_cpu.msg_history)
        comm.send_with_confirmation(confirmed, "DL:P")
        comm.send_and_forget("TL:07,01")
        comm.send_and_forget("TL:07,02")

        # much less than the watchdog interval, so only our three commands are in play
        self.advance_time_and_run(.05)

        written = self.net_cpu.msg_history[start:]
        print("written to the port while 'DL:P' is outstanding:", written)
        print("pause_sending_flag:", comm.pause_sending_flag.is_set(),
              "pause_sending_until:", comm.pause_sending_until)

        # the confirmation has not arrived ...
        self.assertTrue(comm.pause_sending_flag.is_set())
        # ... so only the confirmed command may have been written
        self.assertEqual([confirmed], written,
                         "commands were written to the port while the confirmation was outstanding")

        # now the confirmation arrives and the rest goes out in order
        comm.parse_incoming_raw_bytes(b"DL:P\r")
        self.advance_time_and_run(.05)
        self.assertEqual([confirmed, "TL:07,01", "TL:07,02"], self.net_cpu.msg_history[start:])


if __name__ == "__main__":
    unittest.main(defaultTest="TestWriterPauses.test_nothing_written_until_confirmation")
