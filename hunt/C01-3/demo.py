"""C01 finding 3: a handler which was removed before its turn (by an earlier handler of the same dispatch) is still called."""
import unittest
from mpf.tests.MpfTestCase import MpfTestCase


class RemovedHandlerStillCalled(MpfTestCase):

    def get_config_file(self):
        return 'test_event_manager.yaml'

    def get_machine_path(self):
        return 'tests/machine_files/event_manager/'

    def _program(self, post):
        log = []
        ev = self.machine.events
        low_key = ev.add_handler("E", lambda **kwargs: log.append("low"), priority=1)

        def high(**kwargs):
            log.append("high")
            ev.remove_handler_by_key(low_key)
            # the registry agrees that "low" is gone
            assert all(h.key != low_key.key for h in ev.registered_handlers.get("E", []))

        ev.add_handler("E", high, priority=2)
        post(ev, log)
        self.advance_time_and_run(1)
        return log

    def test_plain_event(self):
        log = self._program(lambda ev, log: ev.post("E"))
        # "low" was removed before its turn -> it must not receive this dispatch
        self.assertEqual(["high"], log)

    def test_queue_event(self):
        log = self._program(lambda ev, log: ev.post_queue("E", callback=lambda **kwargs: log.append("cb")))
        self.assertEqual(["high", "cb"], log)

    def test_next_dispatch_reference(self):
        """Reference: on the NEXT post the removed handler is (correctly) not called."""
        log = self._program(lambda ev, log: ev.post("E"))
        del log[:]
        self.machine.events.post("E")
        self.advance_time_and_run(1)
        self.assertEqual(["high"], log)


if __name__ == '__main__':
    unittest.main()
