"""C08 finding 2: a software-timed pulse ignores the coil's max_hold_duration.

Coil with max_hold_duration: 2s (and no max_pulse_ms).  pulse(pulse_ms=10000) is
longer than the platform's hardware pulse limit (255ms), so Driver._pulse_now
executes it as hw_driver.enable(...) plus a 'timed_disable' delay of 10s.  This
path neither checks the requested time against max_hold_duration nor arms the
'enable_limit_reached' watchdog, so the coil is held on (at FULL power, although
default/max hold power is 0.5) for 10s - five times the configured
max_hold_duration.  The same coil switched on by enable() is cut off after 2s,
and timed_enable(timed_enable_ms=...) is refused by the same limit.
"""
import os
import shutil
import tempfile
import unittest

from mpf.tests.MpfTestCase import MpfTestCase

CONFIG = """#config_version=6
coils:
    c_mhd:
        number: 3
        default_hold_power: 0.5
        max_hold_duration: 2s
"""

_HERE = os.path.dirname(os.path.abspath(__file__))
_MACHINE = tempfile.mkdtemp(prefix="c08_f2_", dir=_HERE)
os.makedirs(os.path.join(_MACHINE, "config"))
with open(os.path.join(_MACHINE, "config", "config.yaml"), "w") as f:
    f.write(CONFIG)


def tearDownModule():
    shutil.rmtree(_MACHINE, ignore_errors=True)


class SoftwarePulseVsMaxHoldDuration(MpfTestCase):

    def get_config_file(self):
        return 'config.yaml'

    def get_machine_path(self):
        return _MACHINE

    def get_platform(self):
        return 'virtual'

    def test_control(self):
        """enable() is cut off after max_hold_duration (this passes)."""
        coil = self.machine.coils["c_mhd"]
        coil.enable()
        self.advance_time_and_run(2.5)
        self.assertEqual("disabled", coil.hw_driver.state)

    def test_long_pulse_is_limited_by_max_hold_duration(self):
        coil = self.machine.coils["c_mhd"]
        try:
            coil.pulse(pulse_ms=10000)
        except Exception:   # a refusal would be fine
            pass

        self.advance_time_and_run(2.5)
        # max_hold_duration (2s) is up: the coil has to be off
        self.assertEqual("disabled", coil.hw_driver.state,
                         "coil with max_hold_duration 2s is still held on 2.5s after pulse(10000)")

    def test_long_pulse_event_with_enable_in_between(self):
        """Same via the control event and with an enable/disable in between."""
        coil = self.machine.coils["c_mhd"]
        try:
            coil.event_pulse(pulse_ms=10000)
        except Exception:
            pass
        self.advance_time_and_run(1)
        coil.enable()           # arms the watchdog ...
        self.advance_time_and_run(.5)
        coil.disable()          # ... and this removes it again
        try:
            coil.event_pulse(pulse_ms=10000)
        except Exception:
            pass
        self.advance_time_and_run(2.5)
        self.assertEqual("disabled", coil.hw_driver.state)


if __name__ == '__main__':
    unittest.main()
