"""C20 finding 2: the credit unit chosen by Credits._calculate_credit_units is
not a common divisor of the game price and the coin values.

price 2.50, coins 1.00 and 2.00 (all values exact in binary, no float noise):
  min_currency_value = 1 < price -> credit_unit = 2.5 - 1 = 1.5 -> capped to 1
  credit_units_per_game = int(2.5 / 1) = 2
A game therefore costs 2.00 instead of 2.50: one 2.00 coin starts a game.
"""
import os
import shutil
import tempfile
import unittest
from unittest.mock import MagicMock

from mpf.tests.MpfTestCase import MpfTestCase

CONFIG = """#config_version=6

modes:
    - credits

machine:
    min_balls: 0

switches:
    s_coin_1:
        number:
    s_coin_2:
        number:
    s_start:
        number:
        tags: start

credits:
  max_credits: 12
  free_play: no
  switches:
    - switch: s_coin_1
      type: money
      value: 1
    - switch: s_coin_2
      type: money
      value: 2
  pricing_tiers:
    - price: 2.50
      credits: 1
  persist_credits_while_off_time: 0
"""


class Demo(MpfTestCase):

    _tmp = None

    def get_config_file(self):
        return 'config.yaml'

    def get_machine_path(self):
        if not Demo._tmp:
            Demo._tmp = tempfile.mkdtemp(prefix="c20_f2_")
            os.makedirs(os.path.join(Demo._tmp, "config"))
            with open(os.path.join(Demo._tmp, "config", "config.yaml"), "w") as f:
                f.write(CONFIG)
        return Demo._tmp

    @classmethod
    def tearDownClass(cls):
        if Demo._tmp:
            shutil.rmtree(Demo._tmp, ignore_errors=True)

    def _press_start(self):
        self.machine.playfield.add_ball = MagicMock()
        self.machine.ball_controller.num_balls_known = 3
        self.hit_and_release_switch("s_start")
        self.advance_time_and_run()

    def test_two_euro_must_not_buy_a_2_50_game(self):
        credits_mode = self.machine.modes["credits"]
        self.assertFalse(self.machine.settings.get_setting_value("free_play"))

        self.hit_and_release_switch("s_coin_2")
        self.advance_time_and_run()
        print("credit_unit =", credits_mode.credit_unit,
              "credit_units_per_game =", credits_mode.credit_units_per_game,
              "credit_units =", self.machine.variables.get_machine_var("credit_units"),
              "credits_string =", self.machine.variables.get_machine_var("credits_string"))
        self.assertEqual(2, credits_mode.earnings["2 Total Earnings money"])

        self._press_start()
        # 2.00 inserted, price is 2.50: a game starts only when a full game price is available
        self.assertIsNone(self.machine.game,
                          "a game was started for 2.00 although the price of a game is 2.50")

    def test_five_euro_buy_exactly_two_games(self):
        # 2 + 2 + 1 = 5.00 = exactly two games of 2.50, nothing may be left over
        self.hit_and_release_switch("s_coin_2")
        self.hit_and_release_switch("s_coin_2")
        self.hit_and_release_switch("s_coin_1")
        self.advance_time_and_run()
        self.assertEqual(5, self.machine.modes["credits"].earnings["2 Total Earnings money"])
        print("credits_string after 5.00 =", self.machine.variables.get_machine_var("credits_string"))
        self.assertEqual("CREDITS 2", self.machine.variables.get_machine_var("credits_string"))


if __name__ == "__main__":
    unittest.main()
