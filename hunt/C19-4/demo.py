"""C19 finding 4: BcpPickleClient can neither send nor receive a single message.

bcp_pickle_client.py frames messages as <4 byte big-endian length><pickle>.  Both directions use the *file* API of
the pickle module on non-files:

  send():          message_raw = pickle.dump(bcp_command, kwargs)   # dump(obj, file): kwargs (a dict) is used as file
                                                                    #  -> TypeError: file must have a 'write' attribute
  read_message():  return pickle.load(message_raw)                  # load(file): message_raw is bytes
                                                                    #  -> TypeError: file must have 'read' and 'readline'

So for EVERY command and EVERY parameter dict the transport raises TypeError instead of round-tripping the message.
On top of that the class does not define `config_name`, so MpfController.__init__ raises
AssertionError("Please specify a config name ...") and the client cannot even be instantiated, although the class
is selectable from the machine config (bcp: connections/servers: type: mpf.core.bcp.bcp_pickle_client.
BcpPickleClient -> Util.string_to_class(settings['type'])(machine, name, bcp) in bcp.py / bcp_server.py).

test_unmodified_class uses the class as it is.  The two other tests use a subclass which ONLY supplies the missing
config_name (mpf itself is not modified) to show that send() and read_message() are each broken on their own.

The demo sends three commands through one BcpPickleClient, feeds the produced byte stream in 3-byte reads into a
second BcpPickleClient and expects the same (command, kwargs) tuples in the same order.  To show that the receive
side is broken independently of the send side, the second test feeds correctly framed pickles.
"""
import asyncio
import pickle
import struct
import unittest

from mpf.core.bcp.bcp_pickle_client import BcpPickleClient
from mpf.tests.MpfTestCase import MpfTestCase

MESSAGES = [("trigger", {"name": "evt", "value": 5, "ratio": 1.5, "flag": True, "nothing": None}),
            ("set_text", {"text": "int:5 & 100% é", "items": [1, {"a": [None, 2.0]}]}),
            ("reset", {})]


class FakeTransport:

    def is_closing(self):
        return False


class FakeWriter:

    def __init__(self):
        self.transport = FakeTransport()
        self.data = b''

    def write(self, data):
        self.data += data

    def close(self):
        pass


class NamedPickleClient(BcpPickleClient):

    """Unmodified BcpPickleClient plus the missing config_name (so that it can be constructed at all)."""

    config_name = "bcp_client"


class TestPickleClient(MpfTestCase):

    client_class = NamedPickleClient

    def get_config_file(self):
        return 'config.yaml'

    def get_machine_path(self):
        return 'tests/machine_files/bcp/'

    def _read_all(self, stream, count):
        reader = asyncio.StreamReader()
        receiver = self.client_class(self.machine, "receiver", self.machine.bcp)
        receiver.accept_connection(reader, FakeWriter())
        for i in range(0, len(stream), 3):
            reader.feed_data(stream[i:i + 3])
        reader.feed_eof()

        async def read():
            return [tuple(await receiver.read_message()) for _ in range(count)]

        return self.loop.run_until_complete(read())

    def test_send_then_receive(self):
        writer = FakeWriter()
        sender = self.client_class(self.machine, "sender", self.machine.bcp)
        sender.accept_connection(asyncio.StreamReader(), writer)
        errors = []
        for cmd, kwargs in MESSAGES:
            try:
                sender.send(cmd, kwargs)
            except Exception as e:      # pylint: disable-msg=broad-except
                errors.append("send({!r}) raised {!r}".format(cmd, e))
        self.assertEqual([], errors)
        self.assertEqual(MESSAGES, self._read_all(writer.data, len(MESSAGES)))

    def test_unmodified_class(self):
        self.client_class = BcpPickleClient
        try:
            self.test_send_then_receive()
        finally:
            self.client_class = NamedPickleClient

    def test_receive_well_formed_frames(self):
        stream = b''
        for message in MESSAGES:
            raw = pickle.dumps(message)
            stream += struct.pack("!I", len(raw)) + raw
        try:
            received = self._read_all(stream, len(MESSAGES))
        except Exception as e:      # pylint: disable-msg=broad-except
            received = e
        self.assertEqual(MESSAGES, received)


if __name__ == '__main__':
    unittest.main()
