"""C07 finding 2: Mode.stop() clears the mode's delays (self.delay.clear()) at the very beginning of the stop,
but the mode's control event handlers stay registered until _mode_stopped_callback. A delayed device control
event (`<x>_events: {event: 500ms}`) which is handled after stop() was entered - e.g. because it is the same event
as the mode's stop event (the stop handler has the higher priority and runs first), or because it arrives while
the mode_<name>_stopping queue event is held - adds a NEW delay to mode.delay. Nothing clears it any more:
the delay survives the stop and fires on the device of the stopped mode.

Run: cd /tmp/hunt_C07 && PYTHONPATH=/tmp/hunt_C07 /venv/bin/python -W ignore demo.py
"""
import os
import shutil
import tempfile
import unittest

from mpf.tests.MpfTestCase import MpfTestCase

MACHINE_CONFIG = """#config_version=6
modes:
  - m
"""

MODE_CONFIG = """#config_version=6
mode:
  start_events: start_m
  stop_events: target_complete
  priority: 100
  game_mode: False

counters:
  c:
    count_events: count_c
    starting_count: 0
    count_complete_value: 100
    persist_state: False
    # re-arm the counter half a second after the target was completed
    disable_events: target_complete
    enable_events:
      target_complete: 500ms
"""


class TestDelayAddedWhileStopping(MpfTestCase):

    def get_config_file(self):
        return 'config.yaml'

    def get_machine_path(self):
        return self._machine_dir

    def setUp(self):
        self._machine_dir = tempfile.mkdtemp(prefix="c07_f2_")
        os.makedirs(os.path.join(self._machine_dir, "config"))
        os.makedirs(os.path.join(self._machine_dir, "modes", "m", "config"))
        with open(os.path.join(self._machine_dir, "config", "config.yaml"), "w") as f:
            f.write(MACHINE_CONFIG)
        with open(os.path.join(self._machine_dir, "modes", "m", "config", "m.yaml"), "w") as f:
            f.write(MODE_CONFIG)
        super().setUp()

    def tearDown(self):
        super().tearDown()
        shutil.rmtree(self._machine_dir, ignore_errors=True)

    def _start_and_stop(self):
        mode = self.machine.modes["m"]
        counter = self.machine.counters["c"]
        self.assertEqual({}, mode.delay.delays)
        self.assertFalse(counter.enabled)

        self.post_event("start_m")
        self.advance_time_and_run(.1)
        self.assertTrue(mode.active)
        self.assertIs(mode, counter.mode)
        self.assertEqual({}, mode.delay.delays)

        # the mode's stop event is also a delayed control event of a device of the mode
        self.post_event("target_complete")
        self.advance_time_and_run(.1)

        # the stop completed
        self.assertFalse(mode.active)
        self.assertFalse(mode.stopping)
        self.assertEqual(set(), mode.event_handlers)
        self.assertIsNone(counter.mode)
        self.assertFalse(counter.enabled)
        return mode, counter

    def test_no_delay_left_after_stop(self):
        """Once a mode has stopped, every ... delay ... it registered is gone."""
        mode, _ = self._start_and_stop()
        self.assertEqual({}, mode.delay.delays, "mode.delay still holds a delay after the mode has stopped")

    def test_left_over_delay_does_not_fire(self):
        """The left-over delay fires 500ms later on the device of the stopped mode.

        On the unmodified tree this raises AttributeError inside Counter.enable() (the device was removed from
        the mode, its state is None), i.e. the delay callback crashes MPF.
        """
        mode, counter = self._start_and_stop()
        self.advance_time_and_run(2)
        self.assertFalse(mode.active)
        self.assertFalse(counter.enabled, "counter c of the stopped mode was enabled by a left-over delay")


if __name__ == "__main__":
    unittest.main()
