"""C04 finding 3: a manual plunge from an idle mechanical plunger leaves a phantom available ball behind.

Topology: trough -> launcher (mechanical_eject: true, tagged home) -> playfield.
History: the machine boots with one ball resting in the plunger lane (launcher idle) and one in the trough.
The player pulls the plunger (no game running); the ball reaches the playfield, hits a playfield switch and
drains into the trough.  Everything comes to rest.  Then a ball is requested to the playfield
(playfield.add_ball(), what a game start / ball save / multiball does).

Property: "whenever the ball devices have come to rest each device's ball count equals the number of balls
physically in it, the playfield counts equal the balls physically loose, and all counts sum to the number of
balls known."
Observed: BallDevice.handle_mechanical_eject_during_idle() adds the ball to target.available_balls but never
removes it from its own available_balls.  At rest the empty launcher still has available_balls == 1 (the
available counts sum to 3 with 2 balls known).  The next add_ball() is therefore routed to the empty launcher
directly: the trough is never asked for a ball, the launcher waits for a ball forever and
playfield.available_balls claims a ball which never comes.
"""
import os
import shutil
import tempfile
import unittest
from unittest.mock import MagicMock

from mpf.tests.MpfTestCase import MpfTestCase

CONFIG = """#config_version=6

playfields:
    playfield:
        default_source_device: launcher
        tags: default

coils:
    c_trough:
        number:
    c_launcher:
        number:

switches:
    s_trough1:
        number:
    s_trough2:
        number:
    s_launcher:
        number:
    s_playfield:
        number:
        tags: playfield_active

ball_devices:
    trough:
        eject_coil: c_trough
        ball_switches: s_trough1, s_trough2
        eject_targets: launcher
        eject_timeouts: 3s
        tags: trough, drain, home
    launcher:
        eject_coil: c_launcher
        ball_switches: s_launcher
        eject_targets: playfield
        eject_timeouts: 6s
        mechanical_eject: true
        tags: home

virtual_platform_start_active_switches:
    - s_trough1
    - s_launcher
"""


def _make_machine_dir():
    for base in (os.path.dirname(os.path.abspath(__file__)), None):
        try:
            path = tempfile.mkdtemp(prefix="c04_f3_", dir=base)
            os.makedirs(os.path.join(path, "config"))
            with open(os.path.join(path, "config", "config.yaml"), "w") as f:
                f.write(CONFIG)
            return path
        except OSError:
            continue
    raise RuntimeError("cannot create machine dir")


class IdleMechanicalEjectPhantomBall(MpfTestCase):

    _dir = None

    @classmethod
    def setUpClass(cls):
        cls._dir = _make_machine_dir()

    @classmethod
    def tearDownClass(cls):
        shutil.rmtree(cls._dir, ignore_errors=True)

    def get_config_file(self):
        return 'config.yaml'

    def get_machine_path(self):
        return self._dir

    def get_platform(self):
        return 'virtual'

    def _balls(self):
        return {d.name: d.balls for d in self.machine.ball_devices.values()}

    def _available(self):
        return {d.name: d.available_balls for d in self.machine.ball_devices.values()}

    def test_manual_plunge_from_idle_then_request_ball(self):
        m = self.machine
        sw = m.switch_controller.process_switch
        self.advance_time_and_run(5)
        trough = m.ball_devices["trough"]
        launcher = m.ball_devices["launcher"]
        playfield = m.ball_devices["playfield"]
        self.assertEqual(2, m.ball_controller.num_balls_known)
        self.assertEqual("idle", launcher.state)
        self.assertEqual({"trough": 1, "launcher": 1, "playfield": 0}, self._balls())
        self.assertEqual({"trough": 1, "launcher": 1, "playfield": 0}, self._available())

        # the player plunges the resting ball; it reaches the playfield ...
        sw("s_launcher", 0)
        self.advance_time_and_run(1)
        sw("s_playfield", 1)
        self.advance_time_and_run(.1)
        sw("s_playfield", 0)
        self.advance_time_and_run(10)
        self.assertEqual({"trough": 1, "launcher": 0, "playfield": 1}, self._balls())
        # ... and drains into the trough
        sw("s_trough2", 1)
        self.advance_time_and_run(30)
        self.assertEqual("idle", launcher.state)
        self.assertEqual("idle", trough.state)
        self.assertEqual({"trough": 2, "launcher": 0, "playfield": 0}, self._balls())

        # at rest the available counts must describe the same physical situation
        self.assertEqual(
            {"trough": 2, "launcher": 0, "playfield": 0}, self._available(),
            "available_balls at rest: {} but balls physically: {}".format(self._available(), self._balls()))

        # consequence: a ball requested to the playfield is never served
        m.coils["c_trough"].pulse = MagicMock(wraps=m.coils["c_trough"].pulse)
        playfield.add_ball(player_controlled=True)
        self.advance_time_and_run(30)
        self.assertTrue(m.coils["c_trough"].pulse.called,
                        "trough was never asked for a ball; launcher state: {}".format(launcher.state))


if __name__ == "__main__":
    unittest.main()
