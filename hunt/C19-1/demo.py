"""C19 finding 1: string values that merely LOOK like a typed value lose their type (or crash the decoder).

encode_command_string() percent-encodes the ':' of a *string* such as "int:5" ("int%3A5"), but
decode_command_string() runs parse_qs() (which undoes the percent-encoding) BEFORE it looks for the
type prefixes, so the receiver cannot tell the string "int:5" from the integer 5.

Part A: pure encode -> decode round trip.
Part B: end to end: the encoded line is fed in chunks into MPF's real BCPClientSocket (mock socket, real
        asyncio StreamReader) and dispatched to a registered BCP command callback.
"""
import unittest

from mpf.core.bcp.bcp_socket_client import decode_command_string, encode_command_string
from mpf.tests.MpfTestCase import MpfTestCase
from mpf.tests.loop import MockQueueSocket

STRING_VALUES = ["int:5", "float:1.5", "bool:true", "BOOL:False", "NoneType:", "int:abc", "float:"]


class TestRoundTrip(unittest.TestCase):

    def test_string_with_type_like_prefix_round_trips(self):
        bad = []
        for value in STRING_VALUES:
            line = encode_command_string("trigger", name="evt", text=value)
            self.assertNotIn("\n", line)
            try:
                cmd, kwargs = decode_command_string(line)
            except Exception as e:      # pylint: disable-msg=broad-except
                bad.append("{!r}: line {!r} cannot be decoded: {!r}".format(value, line, e))
                continue
            self.assertEqual("trigger", cmd)
            if kwargs.get("text") != value or type(kwargs.get("text")) is not str:
                bad.append("{!r}: sent str, received {!r} ({})".format(
                    value, kwargs.get("text"), type(kwargs.get("text")).__name__))
        self.assertEqual([], bad, "string parameters did not round-trip:\n  " + "\n  ".join(bad))


class MockBcpQueueSocket(MockQueueSocket):

    def send(self, data):
        if data == b'reset\n':
            self.recv_queue.append(b'reset_complete\n')
            return len(data)
        return super().send(data)


class TestEndToEnd(MpfTestCase):

    def __init__(self, methodName='runTest'):
        super().__init__(methodName)
        self.machine_config_patches['bcp'] = {}
        self.machine_config_patches['bcp']['servers'] = []

    def get_use_bcp(self):
        return True

    def _mock_loop(self):
        self.client_socket = MockBcpQueueSocket(self.loop)
        self.clock.mock_socket("localhost", 5050, self.client_socket)

    def test_player_name_int_colon_5(self):
        """A remote side sends the *string* "int:5" (e.g. a text typed by a user); MPF receives the int 5."""
        received = []

        async def callback(client, **kwargs):
            del client
            received.append(kwargs)

        self.machine.bcp.interface.register_command_callback("set_text", callback)
        sent = [{"text": "hello"}, {"text": "int:5"}, {"text": "NoneType:"}, {"text": "world"}]
        stream = b''.join((encode_command_string("set_text", **kw) + "\n").encode() for kw in sent)
        # split the stream into 7 byte reads
        for i in range(0, len(stream), 7):
            self.client_socket.recv_queue.append(stream[i:i + 7])
        self.advance_time_and_run(1)
        self.assertEqual(sent, received)
        for s, r in zip(sent, received):
            self.assertIs(type(s["text"]), type(r["text"]))


if __name__ == '__main__':
    unittest.main()
