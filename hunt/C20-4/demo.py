"""C20 finding 4: the money audits are accumulated as binary floats
(Credits._audit: self.earnings[two] += value), so they do not equal the coins
accepted once the coin value is not a binary fraction (0.10, 0.20, 0.05 ...).

price 0.50, coin 0.10 (a configuration in which the unit conversion itself works:
0.5 / 0.1 == 5.0).  Ten coins = 1.00 = 2 credits, but the audit says
0.9999999999999999, and this raw number is what the service menu's earnings
audit page shows to the operator.
"""
import os
import shutil
import tempfile
import unittest

from mpf.tests.MpfTestCase import MpfTestCase

CONFIG = """#config_version=6

modes:
    - credits

machine:
    min_balls: 0

switches:
    s_coin_10:
        number:
    s_start:
        number:
        tags: start

credits:
  max_credits: 12
  free_play: no
  switches:
    - switch: s_coin_10
      type: money
      value: 0.10
      label: Dime
  pricing_tiers:
    - price: 0.50
      credits: 1
  persist_credits_while_off_time: 0
"""


class Demo(MpfTestCase):

    _tmp = None

    def get_config_file(self):
        return 'config.yaml'

    def get_machine_path(self):
        if not Demo._tmp:
            Demo._tmp = tempfile.mkdtemp(prefix="c20_f4_")
            os.makedirs(os.path.join(Demo._tmp, "config"))
            with open(os.path.join(Demo._tmp, "config", "config.yaml"), "w") as f:
                f.write(CONFIG)
        return Demo._tmp

    @classmethod
    def tearDownClass(cls):
        if Demo._tmp:
            shutil.rmtree(Demo._tmp, ignore_errors=True)

    def test_audit_equals_coins_accepted(self):
        credits_mode = self.machine.modes["credits"]
        credits_mode.earnings.clear()
        for _ in range(10):
            self.hit_and_release_switch("s_coin_10")
            self.advance_time_and_run(.1)

        # the balance is right: 10 x 0.10 = 1.00 = two games of 0.50
        self.assertEqual("CREDITS 2", self.machine.variables.get_machine_var("credits_string"))
        self.assertEqual(10, credits_mode.earnings["1 Total Coins money"])
        print("earnings:", credits_mode.earnings)
        # ten coins of 0.10 were accepted: the earnings are 1.00
        self.assertEqual(1.0, credits_mode.earnings["2 Total Earnings money"])
        self.assertEqual(1.0, credits_mode.earnings["Dime Earnings money"])


if __name__ == "__main__":
    unittest.main()
