"""C08 finding 4: a safety limit configured as 0 is treated as "not configured".

driver.py tests the limits by truthiness (`if self.config['max_hold_power']:`,
`if self.config['max_pulse_power']:`, `if self.config['max_pulse_ms'] and ...`).
The config spec allows 0 for all of them (float(0,1) / ms), so:

* max_hold_power: 0.0 + default_hold_power: 0.3  -> enable() holds at 0.3
* max_hold_power: 0.0 + allow_enable: true       -> enable() holds at 1.0
* max_pulse_power: 0.0 + default_pulse_power: 0.5 -> pulses at 0.5
* max_pulse_ms: 0                                 -> pulse(200) (any length) accepted

whereas with a tiny non-zero limit (0.01 / 1ms) the same requests are refused
with DriverLimitsError (or the machine does not start because default > max).
Commands above the configured limit reach the platform.
"""
import os
import shutil
import tempfile
import unittest

from mpf.tests.MpfTestCase import MpfTestCase

CONFIG = """#config_version=6
coils:
    c_hold_default:
        number: 1
        max_hold_power: 0.0
        default_hold_power: 0.3
    c_hold_allow:
        number: 2
        max_hold_power: 0.0
        allow_enable: true
    c_pulse_power:
        number: 3
        max_pulse_power: 0.0
        default_pulse_power: 0.5
    c_pulse_ms:
        number: 4
        max_pulse_ms: 0
"""

_HERE = os.path.dirname(os.path.abspath(__file__))
_MACHINE = tempfile.mkdtemp(prefix="c08_f4_", dir=_HERE)
os.makedirs(os.path.join(_MACHINE, "config"))
with open(os.path.join(_MACHINE, "config", "config.yaml"), "w") as f:
    f.write(CONFIG)


def tearDownModule():
    shutil.rmtree(_MACHINE, ignore_errors=True)


class ZeroLimits(MpfTestCase):

    def get_config_file(self):
        return 'config.yaml'

    def get_machine_path(self):
        return _MACHINE

    def get_platform(self):
        return 'virtual'

    def _spy(self, coil):
        commands = []
        hw = coil.hw_driver
        orig_enable, orig_pulse = hw.enable, hw.pulse

        def enable(pulse_settings, hold_settings):
            commands.append(("enable", pulse_settings, hold_settings))
            return orig_enable(pulse_settings, hold_settings)

        def pulse(pulse_settings):
            commands.append(("pulse", pulse_settings))
            return orig_pulse(pulse_settings)

        hw.enable = enable
        hw.pulse = pulse
        return commands

    def _check(self, coil_name, action):
        coil = self.machine.coils[coil_name]
        commands = self._spy(coil)
        try:
            action(coil)
        except Exception:   # refusal is what the property asks for
            pass
        self.advance_time_and_run(.1)
        for command in commands:
            pulse_settings = command[1]
            if coil.config['max_pulse_ms'] is not None:
                self.assertLessEqual(pulse_settings.duration, coil.config['max_pulse_ms'],
                                     "{}: {}".format(coil_name, command))
            if pulse_settings.duration:
                self.assertLessEqual(pulse_settings.power, coil.config['max_pulse_power'],
                                     "{}: {}".format(coil_name, command))
            if command[0] == "enable" and coil.config['max_hold_power'] is not None:
                self.assertLessEqual(command[2].power, coil.config['max_hold_power'],
                                     "{}: {}".format(coil_name, command))

    def test_max_hold_power_zero_with_default_hold_power(self):
        self.assertEqual(0.0, self.machine.coils["c_hold_default"].config['max_hold_power'])
        self._check("c_hold_default", lambda coil: coil.enable())

    def test_max_hold_power_zero_with_allow_enable(self):
        self._check("c_hold_allow", lambda coil: coil.enable())

    def test_max_hold_power_zero_explicit_request(self):
        self._check("c_hold_allow", lambda coil: coil.event_enable(hold_power=0.9))

    def test_max_pulse_power_zero(self):
        self.assertEqual(0.0, self.machine.coils["c_pulse_power"].config['max_pulse_power'])
        self._check("c_pulse_power", lambda coil: coil.pulse())

    def test_max_pulse_ms_zero(self):
        self.assertEqual(0, self.machine.coils["c_pulse_ms"].config['max_pulse_ms'])
        self._check("c_pulse_ms", lambda coil: coil.pulse(200))


if __name__ == '__main__':
    unittest.main()
