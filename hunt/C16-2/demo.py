"""C16 finding 2: index access (machine["x"], current_player["x"]) is never subscribed.

BasePlaceholderManager._eval_subscript returns only the subscriptions of the
indexed object (for the ``machine`` / ``current_player`` placeholders that is a
future which never completes / only player-turn changes) and never adds
``subscribe_attribute(<key>)`` as _eval_attribute does.  A template that reads a
variable via index access therefore evaluates fine but is never notified when
that variable changes: a condition-driven player keeps acting on the stale value.
In addition the ValueError of PlayerPlaceholder.__getitem__ ("Not in a game") is
not converted to a TemplateEvalError in the constant-index branch, so the same
template crashes in evaluate_and_subscribe outside of a game instead of yielding
the default.

Run: cd /tmp/hunt_C16 && PYTHONPATH=/tmp/hunt_C16 /venv/bin/python -W ignore demo.py
"""
import os
import tempfile
import unittest

from mpf.tests.MpfFakeGameTestCase import MpfFakeGameTestCase

CONFIG = """#config_version=6

machine_vars:
  level:
    initial_value: 1
    value_type: int

event_player:
  "{machine.level >= 3}": level_reached_attr
  "{machine['level'] >= 3}": level_reached_item
"""


class SubscriptSubscriptionDemo(MpfFakeGameTestCase):

    def get_config_file(self):
        return 'config.yaml'

    def get_machine_path(self):
        self._tmp = tempfile.mkdtemp(prefix="c16_f2_")
        os.makedirs(os.path.join(self._tmp, "config"))
        with open(os.path.join(self._tmp, "config", "config.yaml"), "w") as f:
            f.write(CONFIG)
        return self._tmp

    def test_machine_item_is_notified(self):
        pm = self.machine.placeholder_manager
        by_attr = pm.build_int_template("machine.level", -1)
        by_item = pm.build_int_template("machine['level']", -1)
        value_attr, future_attr = by_attr.evaluate_and_subscribe({})
        value_item, future_item = by_item.evaluate_and_subscribe({})
        self.assertEqual(1, value_attr)
        self.assertEqual(1, value_item)

        self.machine.variables.set_machine_var("level", 2)
        self.advance_time_and_run(1)
        self.assertEqual(2, by_item.evaluate({}))
        self.assertTrue(future_attr.done())     # control: attribute access is notified
        self.assertTrue(future_item.done(), "machine['level'] changed 1 -> 2 but the subscriber was not notified")

    def test_condition_driven_event_player(self):
        """Same condition written with attribute and with index access in an event_player."""
        self.mock_event("level_reached_attr")
        self.mock_event("level_reached_item")
        self.machine.variables.set_machine_var("level", 5)
        self.advance_time_and_run(1)
        self.assertEventCalled("level_reached_attr")    # control
        self.assertEventCalled("level_reached_item")    # never posted: still acting on level == 1

    def test_player_item_is_notified(self):
        pm = self.machine.placeholder_manager
        self.start_game()
        by_attr = pm.build_int_template("current_player.hits", -1)
        by_item = pm.build_int_template("current_player['hits']", -1)
        _, future_attr = by_attr.evaluate_and_subscribe({})
        value, future_item = by_item.evaluate_and_subscribe({})
        self.assertEqual(0, value)
        self.machine.game.player.hits = 7
        self.advance_time_and_run(1)
        self.assertEqual(7, by_item.evaluate({}))
        self.assertTrue(future_attr.done())     # control
        self.assertTrue(future_item.done(), "current_player['hits'] changed 0 -> 7 but the subscriber was not notified")

    def test_player_item_outside_game_yields_default(self):
        pm = self.machine.placeholder_manager
        self.assertIsNone(self.machine.game)
        # control: attribute access yields the default
        self.assertEqual(-1, pm.build_int_template("current_player.hits", -1).evaluate_and_subscribe({})[0])
        # index access raises AssertionError("Failed to evaluate and subscribe template ...")
        self.assertEqual(-1, pm.build_int_template("current_player['hits']", -1).evaluate_and_subscribe({})[0])


if __name__ == "__main__":
    unittest.main()
