"""C09 finding 4: the default key (None) cannot be removed with the key it was set with.

color()/on()/off() default to key=None and _add_to_stack() stores None as the key "". remove_from_stack_by_key()
normalises its key with str(key), so None becomes the four-letter string "None", which matches nothing.
The entry stays in the stack and the light stays on.
"""
import unittest

from mpf.core.rgb_color import RGBColor
from mpf.tests.MpfTestCase import MpfTestCase


class TestRemoveDefaultKey(MpfTestCase):

    def get_config_file(self):
        return 'light.yaml'

    def get_machine_path(self):
        return 'tests/machine_files/light/'

    def _hw(self, led):
        return tuple(round(led.hw_drivers[c][0].current_brightness * 255) for c in ("red", "green", "blue"))

    def test_remove_key_none(self):
        led = self.machine.lights["led1"]
        led.color("blue", key="base", priority=0, fade_ms=0)
        # key=None spelled out. it is also the default of color(), on() and off()
        led.color("red", key=None, priority=1, fade_ms=0)
        self.advance_time_and_run(1)
        self.assertEqual(RGBColor("red"), led.get_color())

        # remove "the key of the settings to remove (based on the 'key' parameter that was originally passed to
        # the color() method)"
        led.remove_from_stack_by_key(None, fade_ms=0)
        self.advance_time_and_run(1)
        # removing a key restores exactly the colour beneath it
        self.assertEqual(RGBColor("blue"), led.get_color(),
                         "key None was not removed. stack: {}".format(led.stack))
        self.assertEqual((0, 0, 255), self._hw(led))

        # ... and removing all keys turns the light off
        led.remove_from_stack_by_key("base", fade_ms=0)
        self.advance_time_and_run(1)
        self.assertEqual(RGBColor("off"), led.get_color())
        self.assertEqual((0, 0, 0), self._hw(led))


if __name__ == "__main__":
    unittest.main()
