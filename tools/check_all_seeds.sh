#!/bin/bash
# every stored seed must still be caught (exit 1) by its property's check; runs 4 at a time
cd /verif
ls -d seeded/*/ | sed 's#/$##' | xargs -P 4 -I{} sh -c 'python3 tools/confirm_seed.py {} --no-suite 2>/dev/null | grep -v WARNING'
