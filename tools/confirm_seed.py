"""Confirm a seeded defect in a scratch worktree and run the property's check against it.
usage: python3 tools/confirm_seed.py seeded/<name> [--no-suite]
Steps: demo passes on the clean tree; patch applies; demo fails with it; the stable baseline tests still pass;
then ./check <pid> is run with PYVC_REPO pointing at the patched worktree.  Results go into meta.json."""
import json
import os
import subprocess
import sys
import xml.etree.ElementTree as ET

d = os.path.abspath(sys.argv[1])
no_suite = "--no-suite" in sys.argv
name = os.path.basename(d)
meta = json.load(open(os.path.join(d, "meta.json")))
pid = meta.get("property") or name.split("-")[0]
wt = "/tmp/confirm_%s" % name
subprocess.run(["git", "-C", "/repo", "worktree", "remove", "--force", wt], capture_output=True)
subprocess.check_call(["git", "-C", "/repo", "worktree", "add", "-q", "--detach", wt, "HEAD"])
res = {}
try:
    env = dict(os.environ, PYTHONPATH=wt)

    def demo():
        r = subprocess.run(["/venv/bin/python", os.path.join(d, "demo.py")], cwd=wt, env=env, capture_output=True,
                           text=True, timeout=900)
        return r.returncode, (r.stdout + r.stderr)[-600:]
    rc0, out0 = demo()
    res["demo_clean_rc"] = rc0
    r = subprocess.run(["git", "-C", wt, "apply", os.path.join(d, "patch.diff")], capture_output=True, text=True)
    res["patch_applies"] = r.returncode == 0
    rc1, out1 = demo()
    res["demo_patched_rc"] = rc1
    res["demo_patched_tail"] = out1[-300:]
    if not no_suite:
        junit = "/tmp/confirm_%s.xml" % name
        subprocess.run(["/venv/bin/python", "-m", "pytest", "-q", "-p", "no:cacheprovider", "--timeout=900",
                        "--continue-on-collection-errors", "--junitxml=" + junit], cwd=wt, capture_output=True,
                       text=True, timeout=3000)
        passed = set()
        for tc in ET.parse(junit).getroot().iter("testcase"):
            if not list(tc):
                passed.add("%s::%s" % (tc.get("classname"), tc.get("name")))
        stable = set(json.load(open("/root/.vp/BASELINE.json"))["stable_pass"])
        missing = sorted(stable - passed)
        res["suite_stable_pass"] = len(stable)
        res["suite_stable_now_failing"] = missing[:10]
        os.unlink(junit)
    r = subprocess.run(["./check", pid, "--tier", "quick"], cwd="/verif", capture_output=True, text=True,
                       env=dict(os.environ, PYVC_REPO=wt))
    res["check_exit"] = r.returncode
    res["check_lines"] = [l[:300] for l in r.stdout.splitlines()
                          if l.startswith(("VIOLATION", "UNDECIDED", "CHECKER", "VACUOUS", "  refuted"))][:8]
    res["caught"] = r.returncode == 1
    res["confirmed"] = bool(rc0 == 0 and res["patch_applies"] and rc1 != 0 and
                            (no_suite or not res.get("suite_stable_now_failing")))
finally:
    subprocess.run(["git", "-C", "/repo", "worktree", "remove", "--force", wt], capture_output=True)
meta["confirmation"] = res
json.dump(meta, open(os.path.join(d, "meta.json"), "w"), indent=1)
print(name, "confirmed" if res.get("confirmed") else "NOT CONFIRMED", "caught" if res.get("caught") else "MISSED",
      res.get("suite_stable_now_failing"))
