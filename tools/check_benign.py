"""Run a property's check against behaviour-preserving patches (benign refactorings): every one must stay exit 0.
usage: python3 tools/check_benign.py <pid> <dir with benign*/patch.diff>"""
import glob
import os
import subprocess
import sys

pid, base = sys.argv[1], sys.argv[2]
bad = 0
for d in sorted(glob.glob(os.path.join(base, "benign*"))):
    wt = "/tmp/benwt_%s_%s" % (pid, os.path.basename(d))
    subprocess.run(["git", "-C", "/repo", "worktree", "remove", "--force", wt], capture_output=True)
    subprocess.check_call(["git", "-C", "/repo", "worktree", "add", "-q", "--detach", wt, "HEAD"])
    try:
        r = subprocess.run(["git", "-C", wt, "apply", os.path.join(d, "patch.diff")], capture_output=True, text=True)
        if r.returncode != 0:
            print("%s %s: PATCH DOES NOT APPLY %s" % (pid, os.path.basename(d), r.stderr[:200]))
            continue
        r = subprocess.run(["./check", pid, "--tier", "quick"], cwd="/verif", capture_output=True, text=True,
                           env=dict(os.environ, PYVC_REPO=wt))
        lines = [l[:260] for l in r.stdout.splitlines() if l.startswith(("VIOLATION", "UNDECIDED", "CHECKER", "VACUOUS",
                                                                         "  refuted"))]
        print("%s %s: exit %d" % (pid, os.path.basename(d), r.returncode))
        for l in lines[:5]:
            print("     " + l)
        if r.returncode != 0:
            bad += 1
    finally:
        subprocess.run(["git", "-C", "/repo", "worktree", "remove", "--force", wt], capture_output=True)
print("%s: %d benign change(s) raised an alarm / were undecided" % (pid, bad))
