#!/bin/bash
# every behaviour-preserving change kept under benign/ must leave its property's check at exit 0 (3 at a time)
cd /verif
ls -d benign/*/ | sed 's#/$##' | xargs -P 3 -I{} sh -c 'n=$(basename {}); P=${n%%-*}; mkdir -p /tmp/benall/$n; rm -rf /tmp/benall/$n/*; cp -r {} /tmp/benall/$n/benign_$n; python3 tools/check_benign.py $P /tmp/benall/$n | grep -v "benign change(s)"'
