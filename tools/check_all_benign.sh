#!/bin/bash
# every behaviour-preserving change kept under benign/ must leave its property's check at exit 0
cd /verif
for d in benign/*/; do
  n=$(basename $d); P=${n%%-*}
  mkdir -p /tmp/benall/$n; rm -rf /tmp/benall/$n/*; cp -r $d /tmp/benall/$n/benign_$n
  python3 tools/check_benign.py $P /tmp/benall/$n | grep -v "benign change(s)"
done
