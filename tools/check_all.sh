#!/bin/bash
# all 20 checks on /repo (regenerates evidence/); usage: tools/check_all.sh [quick|thorough]
cd /verif
T=${1:-quick}
for p in C01 C02 C03 C04 C05 C06 C07 C08 C09 C10 C11 C12 C13 C14 C15 C16 C17 C18 C19 C20; do
  s=$(date +%s); ./check $p --tier $T > /tmp/checkall_$p.log 2>&1; rc=$?
  echo "$p exit $rc $(( $(date +%s) - s ))s $(grep -c '^VIOLATION' /tmp/checkall_$p.log) violations $(grep -c '^KNOWN-FINDING' /tmp/checkall_$p.log) known"
done
