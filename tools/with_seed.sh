#!/bin/bash
# usage: tools/with_seed.sh <seeded/name> <command...>   runs the command with PYVC_REPO = scratch worktree of /repo + the seed's patch
S=$1; shift
WT=/tmp/ws_$(basename $S)_$$
git -C /repo worktree add -q --detach $WT HEAD || exit 9
git -C $WT apply /verif/$S/patch.diff || { git -C /repo worktree remove --force $WT; exit 9; }
PYVC_REPO=$WT "$@"; RC=$?
git -C /repo worktree remove --force $WT
exit $RC
