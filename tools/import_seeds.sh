#!/bin/bash
# usage: tools/import_seeds.sh <pid> <srcdir> <first index>   copies <srcdir>/seed{1,2,3} to seeded/<pid>-<n> and confirms them
P=$1; SRC=$2; N=$3
cd /verif
for i in 1 2 3; do
  if [ -d $SRC/seed$i ]; then
    D=seeded/$P-$N; rm -rf $D; cp -r $SRC/seed$i $D
    python3 tools/confirm_seed.py $D --no-suite
    N=$((N+1))
  fi
done
