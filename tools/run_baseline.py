"""Run the repository's baseline suite on /repo (guard off: there are no hooks) and compare with BASELINE.json."""
import json
import subprocess
import sys
import xml.etree.ElementTree as ET

junit = "/tmp/mpf_baseline_off.junit.xml"
subprocess.run(["/venv/bin/python", "-m", "pytest", "-ra", "-q", "-p", "no:cacheprovider", "--timeout=900",
                "--continue-on-collection-errors", "--junitxml=" + junit], cwd="/repo", capture_output=True,
               text=True, timeout=3600)
passed = set()
for tc in ET.parse(junit).getroot().iter("testcase"):
    if not list(tc):
        passed.add("%s::%s" % (tc.get("classname"), tc.get("name")))
stable = set(json.load(open("/root/.vp/BASELINE.json"))["stable_pass"])
missing = sorted(stable - passed)
print("stable_pass: %d, passing now: %d, stable tests not passing: %d" % (len(stable), len(stable & passed), len(missing)))
for m in missing[:30]:
    print("  NOT PASSING:", m)
sys.exit(1 if missing else 0)
