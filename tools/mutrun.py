"""Apply hand-written mutations one at a time to a scratch worktree of /repo and run a check against it.
usage: python3 tools/mutrun.py <pid> <mutfile.py>   (mutfile defines MUTS = [(id, relfile, old, new), ...])"""
import importlib.util
import os
import subprocess
import sys

pid, mutfile = sys.argv[1], sys.argv[2]
spec = importlib.util.spec_from_file_location("m", mutfile)
m = importlib.util.module_from_spec(spec)
spec.loader.exec_module(m)
WT = "/tmp/wt_mut_%s" % pid
subprocess.run(["git", "-C", "/repo", "worktree", "remove", "--force", WT], capture_output=True)
subprocess.check_call(["git", "-C", "/repo", "worktree", "add", "-q", "--detach", WT, "HEAD"])
try:
    caught = missed = 0
    for mid, rel, old, new in m.MUTS:
        subprocess.check_call(["git", "-C", WT, "checkout", "-q", "--", "."])
        p = os.path.join(WT, rel)
        s = open(p).read()
        if old not in s:
            print("== %s: PATTERN NOT FOUND" % mid)
            continue
        open(p, "w").write(s.replace(old, new, 1))
        r = subprocess.run(["./check", pid, "--tier", "quick"], cwd="/verif", capture_output=True, text=True,
                           env=dict(os.environ, PYVC_REPO=WT))
        lines = [l for l in r.stdout.splitlines() if l.startswith(("VIOLATION", "UNDECIDED", "CHECKER", "VACUOUS",
                                                                    "  refuted"))]
        print("== %s: exit %d" % (mid, r.returncode))
        for l in lines[:6]:
            print("    " + l[:230])
        if r.returncode == 1:
            caught += 1
        else:
            missed += 1
    print("caught %d, not caught %d" % (caught, missed))
finally:
    subprocess.run(["git", "-C", "/repo", "worktree", "remove", "--force", WT], capture_output=True)
