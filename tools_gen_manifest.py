"""Regenerates MANIFEST.json from the per-property table below (keeps it schema-valid)."""
import json

BASELINE_OFF = ("cd /repo && /venv/bin/python -m pytest -ra -q -p no:cacheprovider --timeout=900 "
                "--continue-on-collection-errors --junitxml=/tmp/mpf_baseline_off.junit.xml")
TECH = "sidecar contracts on the real functions + AST->SMT VC generation (pyvc), discharged by z3/cvc5; native replay"

CLAIMED = {
    "C04": dict(
        category="proof",
        text="PARTIAL (step accounting + readiness gate). Playfield bookkeeping: the balls setter (events iff the "
             "count changes, ball search enabled iff balls > 0), add_missing_balls, _ball_removed_handler2, "
             "_source_device_ejecting_ball / eject_failed / eject_success / ball_lost and add_ball each move exactly n "
             "balls between balls, available_balls and num_balls_requested and touch nothing else, for all values and "
             "targets. BallCountHandler: _set_ball_count (count, device mirror, has-balls flag iff > 0, one change "
             "event), start_eject / end_eject (counting lock taken once and released on every path; -1 iff the ball "
             "left; +1 first when the ball had already left), entrance_during_eject (+1, arrival reported once). "
             "Readiness gate: wait_for_ready_to_receive returns True only when, with no await since they were read, "
             "capacity - count > incoming balls, the counter is ready and the device is not ejecting.",
        note="NOT decided (stated in DESIGN 4.C04/5): equality of counts with physical ball positions, sums equal to "
             "num_balls_known, global non-negativity / capacity bounds across the device's tasks, the counters "
             "(switch_counter, entrance_switch_counter), incoming/outgoing handlers and ball_controller. Known "
             "finding F-C04-a (playfield count goes negative transiently). Bounded: <= 2 waiting futures in "
             "_set_ball_count and its callers. Trusted: asyncio primitives, event posting, the rely at awaits.",
        ref="4.C04"),
    "C05": dict(
        text="PARTIAL (safety fragment of the eject machinery, outgoing_balls_handler.py). _ejecting, the eject loop, "
             "with a loop invariant over the attempt counter, for all requests and outcomes of the awaited futures: "
             "every pass makes at most one physical attempt and only after the eject_attempt queue event and the "
             "target's readiness gate; a failed attempt is followed by exactly one ball_eject_failed report with the "
             "new number of attempts - retry=True and another pass, or, iff max_tries is set and reached, retry=False, "
             "state eject_broken, balldevice_<n>_broken and the loop returns False (the device reports itself broken "
             "rather than hanging); True only after a successful attempt, a cancel or a confirmed skip. "
             "_handle_late_confirm_or_missing: the full outcome table after a missed confirmation (late confirm => "
             "success; ball returned / unknown ball => did_not_arrive, retry; timeout => did_not_arrive, failed "
             "report, lost_ejected_ball), the incoming ball at the target resolved at most once. _handle_confirm and "
             "the event words of _prepare_eject, _failed_eject, _post_ejecting_event, _handle_eject_success.",
        note="NOT decided: liveness ('eventually delivered', 'returns to idle', 'no queued request that could still be "
             "served') - outside this family. _eject_ball, _skipping_ball and _handle_playfield_timeout_confirm are "
             "ASSUMED (opaque results); BallDevice's request queue, the incoming balls handler, the ejectors, ball "
             "save and multiball are not under contract. Trusted: asyncio future / Util.first model, event posting.",
        ref="4.C05"),
    "C06": dict(
        text="Every lifecycle coroutine of modes/game/code/game.py is verified against the fixed word of events it "
             "must post, with the right kinds (plain / queue / relay) and the right player, player number, ball number "
             "and balls remaining: _start_game, _start_player_turn (ball counter +1), _start_ball, _end_ball, "
             "_end_player_turn, _end_game; _rotate_players selects the next player in order (number+1, wrapping); "
             "the balls_in_play setter clamps to [0, balls known], posts balls_in_play iff > 0 and sets the end-of-ball "
             "flag exactly when the count reaches zero; ball_drained, end_ball, end_game, request_player_add (the three "
             "refusal conditions) and _player_add_request_complete (exactly one new Player with the next index). The "
             "game loop Game._run is verified against the callee CONTRACTS with loop invariants G1-G3: one pass = one "
             "turn of one player (turn start, one ball, extra balls, turn end, at most one rotation), no rotation => "
             "game ending, and an extra ball is played only while the game is neither ending nor slam-tilted. Every "
             "await of an event is a rely point where handlers may end the ball/game, tilt, award extra balls, add "
             "players or change balls in play.",
        note="Bounded: _end_game's score-variable loop (<= 2 players). Trusted: pyvc encoding, z3, asyncio.Event and "
             "event-posting models, the rely (handlers never change the current player or a player's number / ball "
             "counter), player list abstracted as 'entry i is player i+1' (established by P3). Liveness of awaited "
             "queue events, AsyncMode task start/stop, mode_stop and 'exactly balls_per_game balls per player' (T2 + "
             "L2 by induction, stated) are not VCs.",
        ref="4.C06"),
    "C07": dict(
        text="Every lifecycle function of core/mode.py (start, _started, _mode_started_callback, stop, _stopped, "
             "_mode_stopped_callback, add_mode_event_handler, the three _remove_* functions, the active setter) is "
             "verified against a typestate over the real flags plus ghost registries: each transition is accepted "
             "only from its source state and posts exactly its events, in order, with the right completion callback "
             "(will_start, starting(queue) -> _started; events_when_started, started -> _mode_started_callback; "
             "will_stop, stopping(queue) -> _stopped; events_when_stopped, stopped -> _mode_stopped_callback, "
             "clear); stop removes every switch handler and clears the delays; _stopped runs every stop method once "
             "and releases a held wait queue; after _mode_stopped_callback every handler key registered through the "
             "mode is removed from the event manager, every device told it was removed, every stop callback ran "
             "once, and the registries are empty. ModeController.set_mode_state: active_modes = old +/- mode, sorted "
             "by (priority, name) descending.",
        note="All functions that iterate a registry are BOUNDED (registries / configured event lists of <= 2 entries; "
             "<= 1 mode already active) and not counted as proved; the typestate and event-order clauses do not "
             "depend on the bound. Known finding F-C07-a (start accepted while clean-up is pending). Trusted: event "
             "manager / switch controller / delay manager client contracts (C01, C03, C13), user hooks, "
             "_add_mode_devices and _setup_device_control_events are opaque; liveness of the queue events is not "
             "decided; registrations made outside the mode's registries are A-RELY.",
        ref="4.C07"),
    "C08": dict(
        text="Every function of mpf/devices/driver.py that can reach the platform driver is verified, for all "
             "inputs and configurations, against the preconditions of hw_driver.pulse/enable/timed_enable, which are "
             "the statement's limits (max_pulse_ms, max_pulse_power, max_hold_power, hold only if allowed, "
             "software-timed pulses and max_hold_duration always schedule the switch-off); the verifiers are proved "
             "to raise for every negative or over-limit request. Call sites of hw_driver.* under mpf/ are "
             "enumerated exhaustively each run.",
        note="Trusted: pyvc encoding (A-ENGINE), z3/cvc5, floats as reals, config value types/ranges (A-CONFIG, "
             "C12), zero-valued limits treated as unset (as the code does), DelayManager/PSU/BCP client-view "
             "contracts. Platform back ends themselves are outside.",
        ref="4.C08"),
    "C10": dict(
        text="Every public method of Flipper (enable, disable, sw_flip, sw_release, _ball_search, the four event "
             "handlers) and of AutofireCoil/Kickback (enable, disable, _hit, _ball_search, event handlers) is verified "
             "against a ghost map of installed (switch, driver) rule pairs, for all five flipper wirings and both "
             "autofire rule kinds: the class invariant 'enabled <=> exactly the rules of the wiring table are "
             "installed and held; disabled => none of the device's pairs installed; software flip only while "
             "enabled' is re-established by every method; set_*_rule is only called for pairs that are not "
             "installed (installs each rule once), clear_hw_rule only for installed rules (removes each once); "
             "disable releases a software-flipped flipper (both coils disabled last) and cancels a pending autofire "
             "timeout re-enable on every path. Interleavings follow by induction over the per-call contracts. The "
             "config_spec defaults (disable on ball_will_end, service_mode_entered) and disable>enable handler "
             "priorities are re-read every run.",
        note="The contracts of PlatformController.set_*_rule / clear_hw_rule that the device proofs assume are themselves "
             "proved (second contract set: PC1-PC3: one platform call for exactly the pairs given, the returned "
             "HardwareRule holds what was written, clear removes exactly that) and below them the virtual platform's "
             "rule table (V1, V2); the ghost 'installed pairs' of the device proofs and the HardwareRule of PC1-PC3 "
             "are linked by the assumed model only. Trusted: pyvc encoding, z3; real hardware platforms; devices own "
             "disjoint pairs (A-CONFIG); rule parameter getters are opaque. The flipper invariant allows a prefix of "
             "the wiring table after a platform fault in enable(). The game-lifecycle clause (tilt, service, no game) "
             "rests on the spec defaults plus C06's event order and is not a VC. AutofireCoil._hit abstracts the "
             "hit-time filter as 'some subsequence'.",
        ref="4.C10"),
    "C11": dict(
        text="Every function of core/player.py that reads or writes player variables is proved, for all names, "
             "scalar values and stores, on the slice of the store at the key it is called with (a structural "
             "obligation re-checked each run shows they subscript self.vars with that key only, and that only "
             "__init__/__setattr__ write it): Player.__init__ allocates a NEW dict (no two players share variables), "
             "index/number/score start values; __setattr__/__setitem__/set_with_kwargs/add_with_kwargs store the "
             "value and post exactly one player_<name> event with value, prev_value, change and player_num iff the "
             "value is new or changed, simple and events are on, none otherwise. EnableDisableMixin: a persisted "
             "enable flag is read from / written to the bound player's variable only, device_loaded_in_mode binds "
             "the player whose turn starts and leaves a stored flag exactly as stored (default only when absent), "
             "device_removed_from_mode drops the link. LogicBlock.device_loaded_in_mode: the state object IS the "
             "object in the bound player's variable, unchanged when present, fresh with the start value when "
             "absent; dropped on removal.",
        note="Bounded, not counted as proved: ModeController._player_turn_start/_ended over 3 modes; "
             "Player.enable_events with a 2-variable store. Trusted: pyvc encoding, z3/cvc5, values are scalars in "
             "the Player proofs, instance __dict__ model, subclass _enable/_disable hooks and monitors do not write "
             "player variables. The cross-turn isolation clause is the ownership argument of DESIGN 4.C11 over these "
             "frames (stated, not a VC); shot/shot_group/achievement/timer accessors and player rotation in game.py "
             "are not yet under contract.",
        ref="4.C11"),
    "C15": dict(
        text="FileManager.save proved against a ghost file system for every crash point and injected fault: the only "
             "step that touches the target is os.replace of a completely written temp file whose path differs from "
             "the target for every filename (string lemma over dirname/basename), so the target is the complete old "
             "or new version after every file-system step; a failed save leaves the old version and releases the "
             "global busy flag on every exit. DataManager._writing_thread proved as a sequential contract under a "
             "rely (save_all / stop / busy flag may change at every library call): D1 'no write pending => file == "
             "latest data', no exception leaves the loop, D2 the shutdown flush writes whatever is pending. Machine "
             "variables: configure/set/_write_machine_var_to_disk/get proved for all names, scalar values, flags and "
             "expiry periods (value stored, persisted changes handed to the data manager with value and expiry time, "
             "change announced once).",
        note="Bounded, not counted as proved: _write_machine_vars_to_disk and load_machine_vars (stores / files of "
             "<= 2 variables); native fault-injection (24 scenarios) and writer-schedule enumeration (3864 schedules) "
             "on the real code. Trusted: A-LIB (interface.save touches only its path, os.replace atomic, posix "
             "paths; axioms compared with posixpath on 21845 paths each run), A-THREAD (rely; statement-level "
             "interleavings, the racy check-then-set of is_busy and thread death at process exit are outside), "
             "A-SHUTDOWN, fsync durability and YAML representability not modelled, values are scalars.",
        ref="4.C15"),
    "C20": dict(
        text="Credit arithmetic proved for all balances, coin values, tier positions and configurations: "
             "_add_credit_units yields exactly min(old + units + pricing-table bonus, max) (loop invariant over the "
             "table walk), never negative, never above the maximum; start/add-player requests are approved iff a "
             "full game price is available; _player_added deducts exactly one game price; audits change only the "
             "coin-count/earnings keys by exactly 1/value; clearing rules.",
        note="Trusted: pyvc encoding, z3/cvc5, the machine-variable and settings stores are used through client views of "
             "contracts proved under C15 / C16 and re-checked here (C20m, C20v); whole-store frame of set_machine_var "
             "rests on C15's structural check (the store is subscripted with `name` only), template "
             "evaluation is a constant number, pricing table entries >= 0 for positions 1..wrap (establishment by "
             "_calculate_pricing_tiers not yet under contract), no re-entrancy between approval and player_added.",
        ref="4.C20"),
    "C17": dict(
        text="RunningShow (assets/show.py) per operation, for all step tables, speeds, loop counts and states, "
             "against a ghost of the event loop's timer handles: _run_next_step hands every player named in the "
             "step exactly one show_play_callback carrying the PLANNED time of the step, the show's context and the "
             "step number, remembers the player for clean-up, and - iff the show advances by itself - plans the next "
             "step at next_step_time + duration/speed and sets exactly one timer for exactly that time (absolute "
             "schedule, no cumulative drift by induction); loop counter and completion (stop, completed events once, "
             "nothing scheduled); a stopped show cannot be revived. stop(): idempotent, cancels the timer, calls "
             "show_stop_callback(context) exactly once for every player that was handed a step, posts stopped events "
             "once. pause/resume/advance/step_back/_start_now/_start_play re-establish the class invariant 'every "
             "live timer of the show is the one in _delay_handler; a stopped show has no live timer and no player "
             "holding state', and call _run_next_step only with no step pending.",
        note="Trusted: pyvc encoding, z3 (nonlinear real arithmetic for duration/speed), floats as reals, asyncio "
             "timer model, players' clear_context (light removal is C09). A step names 0..2 players, event lists "
             "hold at most one event; update(), token substitution, show_player/instance bookkeeping and players "
             "other than through show_stop_callback are not under contract.",
        ref="4.C17"),
    "C18": dict(
        text="Every public operation of Counter, Sequence and Accrual (count/hit, enable, disable, reset, restart, "
             "complete, timeout) is verified against a transition contract: a hit while disabled or inside the hit "
             "window changes nothing and posts nothing; an accepted hit adds exactly one interval; hit events carry "
             "the new count; complete() fires its events once and is a no-op when already complete, then resets / "
             "disables as configured; sequences advance only in order. 'For all histories' follows by induction "
             "over the per-operation contracts (DESIGN 2.8).",
        note="Trusted: pyvc encoding, z3/cvc5, client view of DelayManager (C13) and event posting (C01), "
             "DeviceMonitor __setattr__ side effect ignored, A-CONFIG. Accrual contracts are for 3-step accruals and "
             "event lists of length 2 (stated as bounded in the evidence); control events add/subtract/jump not yet "
             "under contract.",
        ref="4.C18"),
    "C13": dict(
        text="DelayManager (add/remove/reset/add_if_doesnt_exist/check/run_now/_process_delay_callback) verified "
             "against representation invariant D1 (delay names and this manager's live loop handles are in bijection, "
             "each handle carrying name, callback and stored kwargs): a replaced or removed delay's handle is "
             "cancelled, check() is truthful, run_now() calls the stored callback with the stored arguments after "
             "freeing the name; scheduled time is exactly now+ms/1000. PeriodicTask: _last_call advances by exactly "
             "one interval per tick and the next tick is scheduled at an absolute time (no drift), never when "
             "cancelled. Exactly-once then follows from the asyncio loop contract.",
        note="Trusted: asyncio loop model (fresh handles, cancel prevents the call, a live handle fires once not "
             "before its time), uuid4 freshness, reals for floats, rely on user callbacks using only the public API. "
             "Quantified invariants are discharged by z3 with ground instantiation; a candidate counterexample from "
             "the instantiated query is reported only when the native replay confirms it. DelayManager.clear and the "
             "Timer device are not yet under contract.",
        ref="4.C13"),
    "C03": dict(
        text="process_switch_obj proved for every report (raw/logical, NO/NC, duplicate): logical state = report "
             "(inverted for raw NC), duplicates invoke nothing and change nothing, a real change time-stamps, mirrors "
             "the hardware state, cancels pending timed handlers and then dispatches exactly once (unless muted); "
             "is_state/is_active/is_inactive; add_switch_handler_obj registers exactly one entry and arms a handler "
             "added mid-interval for the ORIGINAL deadline iff it is still ahead. remove_switch_handler_obj (a removed "
             "handler never fires) is checked by the same engine on bounded lists (labelled bounded).",
        note="Trusted: pyvc encoding, z3, reals for times, loop clock. _call_handlers, _add_timed_switch_handler, "
             "_cancel_timed_handlers, _process_active_timed_switches are assumed contracts at their call sites (not yet "
             "verified); Switch._post_events not under contract. Bounded: remove_switch_handler_obj with 2 registered "
             "handlers per state and 2x3 timed entries (symbolic contents) - not counted as proved.",
        ref="4.C03"),
    "C12": dict(
        text="Every scalar validator (int, float, num, bool, bool_int, ms, secs, str, pow2, enum, numeric range) and "
             "Util.string_to_ms are verified for ALL items (None/bool/int/float/str/list/dict): normal exit implies the "
             "declared type and range, any other input raises; time strings equal value x unit for every suffix "
             "(strings via cvc5/z3 with uninterpreted int()/float()/upper()). An exhaustive native sweep of all "
             "1760 (section,key) entries of the real config_spec.yaml checks three-part specs, item types, validator "
             "resolution, defaults accepted with the declared type, and that the range parameters are the ones the "
             "contracts are instantiated with.",
        note="Trusted: pyvc encoding, z3/cvc5, floats as reals, int(str)/float(str)/upper as uninterpreted functions, "
             "string_to_secs and is_power2 as assumed contracts. _validate_config (unknown keys, spec untouched), "
             "lists/sets/dicts normalisation and template validators are not yet under contract. Known finding "
             "F-C12-b (pow2 returns str) is listed, not suppressed for other inputs.",
        ref="4.C12"),
    "C16": dict(
        text="(1) exhaustive: every entry of OPERATORS, COMPARISONS, BOOL_OPERATORS and of the node-dispatch table of "
             "the real module is the operator/handler the language assigns to that AST class; (2) deductive: each "
             "_eval_X (bin op, unary op, compare, bool op, if, attribute, subscript) returns exactly the table "
             "operator applied to the sub-results, evaluates all operands once and left to right, maps TypeError to "
             "TemplateEvalError, returns the subscriptions of everything it read; BaseTemplate.evaluate returns the "
             "converted result or the default. Python's operators are uninterpreted symbols.",
        note="Trusted: pyvc encoding, z3, the structural-induction hypothesis on _eval (used through its contract), "
             "placeholder notifier side (events / DeviceMonitor). _eval_bool_op is bounded to 3 operands. Known "
             "finding F-C16-a: item reads (machine['x']) are not subscribed.",
        ref="4.C16"),
    "C19": dict(
        text="Per-parameter round trip decode(encode(c, k=v)) = (c, {k: v}) with equal type for every str/int/float/"
             "bool/None value: encode is verified to produce command?quote(k)=enc(v); a pure lemma shows that this wire "
             "form plus the urllib axioms gives decode's precondition; decode is verified to return exactly (c, {k: v}). "
             "Strings are solved by cvc5/z3 with urllib/json functions uninterpreted.",
        note="Trusted: pyvc encoding, z3/cvc5, A-LIB axioms for quote/unquote/parse_qs/urlsplit/urlunparse, "
             "int(str(i))=i, float(str(f))=f. One parameter per message; the JSON path (lists/dicts) and the framing of "
             "read_message (undecided string obligations) are not claimed. Known findings F-C19-a/b: str values that "
             "look like typed values or contain % do not round-trip (re-proved outside that input class every run).",
        ref="4.C19"),
    "C14": dict(
        text="Exhaustive: the OPP CRC-8 table equals polynomial 0x07 at all 256 indices. Proved: calc_crc8_whole_msg/"
             "calc_crc8_part_msg return the table-driven CRC of exactly the bytes given (loop invariants over a "
             "recursively defined spec function); read_gen2_inp_resp never changes a switch state for a short frame "
             "or a frame whose checksum does not match; FAST parse_incoming_raw_bytes cuts exactly the first "
             "<CR>-terminated segment per step and stops only when no <CR> is left (chunk independence by induction); "
             "FAST _socket_writer writes exactly the command it took from the FIFO queue and must not take the next "
             "one while a confirmation is outstanding (invariant W1 - fails on the real code: known finding F-C14-a).",
        note="Trusted: pyvc encoding, z3/cvc5 (strings via cvc5), asyncio Event/Queue semantics, integer bit operators "
             "uninterpreted, bytes as code-point strings. OPP/PKONE _parse_msg (resynchronisation), matrix inputs, "
             "retry logic of send_and_wait_for_response_processed are not yet under contract.",
        ref="4.C14"),
    "C01": dict(
        text="Proved for all states: _post never runs a handler, appends at the end of the queue (or takes the "
             "no-listener fast path) and schedules the drain exactly when the queue was empty; _process_event "
             "dispatches once and queues the completion callback once, after the handlers. Checked by the same "
             "engine on bounded structures (labelled bounded, not counted as proved): _run_handlers on 2 registered "
             "handlers with symbolic priorities/kwargs/conditions/results (each snapshot handler whose condition holds "
             "is called once, in order, handler kwargs override, boolean stops at first False, relay hands on updated "
             "kwargs); add_handler keeps the list sorted (stable) and remove_* drop exactly the matching entries; "
             "process_event_queue on every posting tree with <= 5 events dispatches depth-first and runs each "
             "completion callback once after the transitive closure.",
        note="Trusted: pyvc encoding, z3, rely on handlers using only the public API, asyncio call_soon. The "
             "signature-inspection prologue of add_handler is abstracted (production mode), relative_priority absent. "
             "Bounded parts are stated with their bounds in the evidence (bounded_checks).",
        ref="4.C01"),
    "C02": dict(
        text="QueuedEvent.wait/clear/is_empty proved as a typestate (free/held; double wait and clear-when-free raise, "
             "clear wakes the sleeping dispatcher). _run_handlers_sequential checked on 2 registered handlers (each "
             "may or may not register a wait): handlers run once each in order, never while an earlier wait is "
             "outstanding, and the completion callback fires exactly once, last - including when the handlers "
             "vanished before the task started. The wait-queue protocol obligation of post_queue (never forward a "
             "held queue into a nested queue event) is proved at Mode.start. Relay/boolean rules: C01 _run_handlers.",
        note="Trusted: pyvc encoding, z3, asyncio Event semantics, rely that holders eventually clear (liveness not "
             "decided). _run_handlers_sequential is bounded (2 handlers) and not counted as proved. Queue/relay "
             "config players and AsyncMode are not under contract.",
        ref="4.C02"),
    "C09": dict(
        text="RGBColor.blend proved for all colours and fractions: every channel of a running fade lies between its "
             "endpoints and the endpoints are hit exactly (nonlinear real arithmetic). LightPlatformDirectFade.set_fade "
             "proved to leave the channel's eventual brightness (ghost: last direct command, or the target of the live "
             "fade task) equal to the target of the latest command; VirtualLight.set_fade/current_brightness. Stack "
             "representation invariant checked on bounded stacks (2 existing entries, all fields symbolic): "
             "_add_to_stack keeps (priority,key) order and one entry per key, ignores lower-priority commands for an "
             "existing key; _remove_from_stack_by_key removes exactly that key; clear_stack empties and pushes an update.",
        note="Trusted: pyvc encoding, z3 (NRA), floats as reals, asyncio task model. _schedule_update, "
             "_get_color_and_fade/_get_color_and_target_time (recursive interpolation), gamma/colour correction, the "
             "software _fade coroutine and the batch light system are not yet under contract.",
        ref="4.C09"),
}

NA = {}

# contracts added after the first version of the table above (second seeding round); appended to the texts
ADDED = {
    "C01": ("Later additions: posted kwargs may be empty and a relay result may introduce new arguments; a decorated "
            "handler's relative_priority is symbolic in add_handler; conditions of two handlers may share their text.",
            ""),
    "C02": ("Later additions: _async_handler_done (the wait of a coroutine handler is cleared when its task finished OR "
            "was cancelled); C01's _run_handlers (relay / boolean dispatch) and add_handler (priority order) are "
            "re-checked under this property.", ""),
    "C04": ("Later additions: BallCountHandler._handle_missing_balls (every ball that leaves the count of an idle device "
            "is reported lost exactly once: symbolic number of balls, loop invariant over a ghost counter); "
            "EntranceSwitchCounter (_entrance_switch_handler, _entrance_switch_full_handler, _ball_left, "
            "count_balls_sync: the counter's own count stays within 0..capacity whatever the spacing of activations); "
            "the eject loop's readiness gate before EVERY attempt incl. retries (C05's _ejecting, re-checked here).",
            "EntranceSwitchCounter.__init__, the switch counter and BallCountHandler._run remain outside."),
    "C05": ("Later additions: _eject_ball (J1/J2), _handle_playfield_timeout_confirm (Q5), BallSave._schedule_balls, "
            "find_available_ball_in_path and BallDevice.find_one_available_ball (bounded to 3 devices) are under "
            "contract.", "The sentence of this note that lists _eject_ball / _handle_playfield_timeout_confirm / ball "
            "save as assumed is superseded: they are verified."),
    "C06": ("Later additions: _run_ball clears the end-of-ball flag only BEFORE the ball's start sequence (an end "
            "request made while the ball starts is not lost); _end_ball removes the drain handler exactly once however "
            "the ball ended.", ""),
    "C07": ("Later additions: a rejected start leaves the priority unchanged; _setup_device_control_events (bounded: 2 "
            "control events) registers delayed control events only through handlers whose delay lives in the mode's own "
            "delay manager, DeviceManager._control_event_handler (D1); Timer.device_removed_from_mode / Timer.stop "
            "(C13) re-checked here.", ""),
    "C12": ("Later additions: Util.string_to_secs (a time string without a unit letter is seconds, also negative / "
            "relative values) and ConfigValidator.check_for_invalid_sections (every unknown key is rejected wherever it "
            "stands; bounded to sections of 2-3 keys).", "Regular expressions and any(c.isalpha() for c in s) are "
            "decided with ASCII character classes (A-ASCII)."),
    "C13": ("Later additions: Timer.start (no un-pause delay survives a start); C07's Mode.stop (the mode's delays are "
            "cleared at once, before the stopping queue event) re-checked here.", ""),
    "C14": ("Later additions: _bad_crc leaves the cached input state; FAST Neuron _process_sa (every report after "
            "initialisation is stored and applied exactly once; bounded: 1 report byte, all 256 bit patterns) and "
            "update_switches_from_hw_data (bounded: 2 switches); send_and_wait_for_response_processed (W3: a lost "
            "response is retried as configured; the defect found there was repaired, 8bc3a8a).", ""),
    "C16": ("Later additions: notifier side for the state machine device (state setter, device_loaded_in_mode, "
            "device_removed_from_mode announce every change of the observable state); C01's _run_handlers (each "
            "conditional handler's condition is evaluated for that handler, right before its turn) re-checked here.",
            ""),
    "C17": ("Later additions: a synchronised start lies exactly on the sync grid (3 intervals), stop() runs a pending "
            "start callback whether or not a timer is pending, ShowPlayer.play leaves the configuration it is handed "
            "untouched (bounded: 2 shows).", ""),
    "C18": ("Later addition: Sequence.setup_event_handlers registers the handlers of later steps with a higher "
            "priority (bounded: 3 steps).", ""),
    "C19": ("Later additions: BcpInterface.process_bcp_message hands the decoded parameters on unchanged (bounded: one "
            "command); helper functions behind functools.lru_cache are executed with a key-confusion model (1 == 1.0 "
            "== True share an entry).", ""),
    "C20": ("Later additions: the game side of a denied player_add_request (C06's P1-P3) is re-checked here; the "
            "set-up path (mode_start, enable_credit_play, enable_free_play, toggle_credit_play, mode_stop, "
            "_calculate_credit_units) is under contract: in credit play every coin switch, the service switch and every "
            "credit event has exactly one credit handler and the price is calculated (bounded: 2 coin switches); two "
            "genuine defects found there were repaired (e62e4b1, 209f925).", "_calculate_pricing_tiers stays assumed."),
    "C03": ("Later addition: _process_active_timed_switches (hold-time handlers: H1/H2, bounded 1..3 deadlines).", ""),
    "C08": ("Later additions: PlatformController._get_configured_driver_no_hold / _with_hold keep rule settings within "
            "the driver's limits; DriverLight.set_brightness passes the brightness on.", ""),
    "C09": ("Later additions: _schedule_update (channel shares), done callbacks of a cancelled fade task, "
            "remove_from_stack_by_key K1/K2.", "The earlier remark that _schedule_update is assumed is superseded."),
    "C10": ("Later additions: PlatformController set_*_rule / clear_hw_rule (PC1-PC3), VirtualHardwarePlatform rule "
            "store (V1/V2), SoftwareEosRepulseManager (SE1/SE2).", "The earlier remark that the platform controller "
            "is assumed is superseded."),
}


# third seeding round: further functions and structural obligations
ADDED3 = {
    "C01": "Round 3: DelayManager._process_delay_callback is executed in line where it is called directly (run_now never "
           "drains); SwitchController._add_timed_switch_handler (AT3: nothing synchronous) re-checked here.",
    "C02": "Round 3: ModeController._ball_ending / _mode_stopped_callback (C11) re-checked; QueueRelayPlayer.play / "
           "_callback / clear_context (one wait and one handler per relay; bounded: 3 relays).",
    "C03": "Round 3: _add_timed_switch_handler (one wake-up at the earliest deadline, bounded 0..3 pending), "
           "remove_switch_handler_by_key(s) (exactly the key's switch, callback, state, ms), Switch._post_events / "
           "_post_events_with_recycle / _recycle_passed (events follow the logical state; ignore window), "
           "BcpInterface._bcp_receive_switch (flip of the logical state). Removal matches every entry registered FOR the "
           "callback (is_callback relation; defect 6879b7b repaired), native history as finite check.",
    "C04": "Round 3: BallCountHandler._run (loop invariants under a rely: arrivals = rise of the count, lock released per "
           "pass, no silent lowering), BallDevice.lost_idle_ball / lost_incoming_ball / lost_ejected_ball / "
           "handle_mechanical_eject_during_idle (each lost ball added to the ball_missing_target once), BallSearch.give_up "
           "(writes off exactly playfield.balls), balls in transit reserve space (C05's incoming set).",
    "C05": "Round 3: IncomingBall (one outcome, one confirmation, one removal) and IncomingBallsHandler (arrival matched to "
           "the first ball that can arrive; bounded: 3 balls in transit).",
    "C06": "Round 3: Game._stop_game_modes / _game_mode_stopped (bounded: 3 modes), BallController._ball_drained_handler "
           "(relay carries the unclaimed balls), Tilt.slam_tilt (always recorded), C11 _ball_ending and C02 Mode.stop "
           "re-checked. Game._player_adding_complete (P4) under contract instead of assumed; one player-add request in "
           "flight at a time (defect c3a53ba repaired).",
    "C07": "Round 3: C06's game stop set and C02's queue relay set re-checked here.",
    "C08": "Round 3: the actuation-site enumeration covers the platform packages; structural obligation: no module touches "
           "another device's switch-off timers ('timed_disable', 'enable_limit_reached').",
    "C09": "Round 3: FAST LED channel / LED dirty flag (FL1-FL4), LightController._update_brightness (subscription renewed "
           "on every notification), DriverLight.set_brightness (C08) re-checked, _get_color_and_target_time / "
           "_get_color_and_fade (bounded stacks).",
    "C10": "Round 3: FASTDriver.clear_autofire (FD1), C03's key-removal set and C06's _run_ball re-checked.",
    "C11": "Round 3: Bonus.mode_start (subtotal starts from zero), ScoreQueue._handle_score_queue (empty flag only while "
           "nothing is queued or rung up; bounded: scores below 100), mixin enable / disable announce every change.",
    "C12": "Round 3: _validate_type_or_token (the returned closure is exercised by an environment step: all arguments are "
           "forwarded), Show.get_show_steps_with_token (nothing cached when validation fails).",
    "C13": "Round 3: Mode._control_event_handler (C07 L5) re-checked.",
    "C14": "Round 3: read_gen2_inp_resp_initial (CRC gate at start-up), structural obligation on write_to_port call sites.",
    "C15": "Round 3: DataManager._setup_file (boot never writes), SettingsController.set_setting_value (always marked "
           "persistent), _load_initial_machine_vars (reloaded values kept, also falsy ones; bounded). Known finding "
           "F-C15-a (expiry lost across a reload).",
    "C16": "Round 3: Driver._calculate_pulse_ms_placeholder / _calculate_timed_enable_ms_placeholder (re-armed by "
           "themselves), SettingsController.get_setting_value (read through on every access, falsy values included), mixin "
           "enable / disable announcements (C11) re-checked.",
    "C17": "Round 3: ShowController.replace_or_advance_show (a synced replacement stops its predecessor at the sync point).",
    "C18": "Round 3: Mode._control_event_handler (C07 L5) re-checked.",
    "C19": "Round 3: _process_command (payload of any length handed on; defect f6d7550 repaired), "
           "BcpTransportManager._receive_loop (each command handled to completion before the next is read).",
    "C20": "Round 3: Credits._game_ended (tier restart re-armed at every game end), SettingsController.get_setting_value "
           "(C16) re-checked. Game.request_player_add / _player_add_request_complete / _player_adding_complete (C06 "
           "P1-P4: one request in flight at a time; defect c3a53ba repaired) re-checked, three native histories as finite "
           "checks.",
}


ADDED4 = {
    "C01": "Round 4: replace_handler (only registrations with equal kwargs are replaced), remove_handler (every "
           "registration of the method), add_handler files and keys by the PARSED event name, "
           "get_event_and_condition_from_string (first dot, int() of the suffix, negative priorities; strings via cvc5).",
    "C02": "Round 4: the event string parser (C01p) re-checked.",
    "C03": "Round 4: add_switch_handler_obj AK1 (the returned key names the callback as registered).",
    "C04": "Round 4: BallController._balance_playfields (bounded: two playfields).",
    "C05": "Round 4: BallSave.device_removed_from_mode (saved balls still requested), Multiball.start (locks asked for "
           "at most their available balls; bounded: 2 locks).",
    "C07": "Round 4: add_handler / remove_handler_by_key (C01: the key names the list the handler is filed under) "
           "re-checked; L5: a delayed control event is a NEW delay.",
    "C08": "Round 4: CoilPlayer.play (entries reach Driver.pulse / enable unchanged; bounded: one entry).",
    "C10": "Round 4: add_switch_handler_obj AK1 (C03) re-checked, DeviceManager.create_machinewide_device_control_events "
           "(undelayed control events are the device methods themselves; bounded: 2 events).",
    "C11": "Round 4: VariablePlayer._set_variable (the addressed player; bounded: 3 players), Timer.ticks setter (tick "
           "variable written for the current player).",
    "C12": "Round 4: Util.string_to_list / string_to_event_list for non-string items, "
           "ConfigValidator.load_mode_config_spec (registered as declared).",
    "C13": "Round 4: the whole public surface of the timer device: add, subtract, jump, reset, restart, timer_complete "
           "(no longer assumed), pause with a duration, set_tick_interval, change_tick_interval.",
    "C14": "Round 4: _process_sa SA2 (the switch walk is unrestricted), FastSerialCommunicator._socket_reader (every "
           "chunk read reaches the parser).",
    "C15": "Round 4: load_machine_vars P3c (every restored value is announced; bounded).",
    "C16": "Round 4: load_machine_vars P3c (C15) re-checked.",
    "C17": "Round 4: ShowController.create_show_config (explicit settings kept, sync_ms 0 included), "
           "ShowPool.play_with_config (every argument forwarded).",
    "C18": "Round 4: device_removed_from_mode of Counter / Accrual / Sequence (own timers left alone), "
           "Sequence.setup_event_handlers also found when pulled up into the base class.",
    "C20": "Round 4: EventManager.remove_handler (C01) and SwitchController.process_switch_obj (C03) re-checked.",
}


ADDED5 = {
    "C02": "Review round: QueueEventPlayer.play (QP1; defect 0cf83b9 repaired), Mode.start W0 / W1 (the triggering queue "
           "event's QueuedEvent is never posted on; defect e769362 repaired).",
    "C05": "Round 4b: BallDevice._setup_or_queue_eject_to_target / _source_device_balls_available / request_ball (RQ1-RQ3: "
           "a request is served or stays queued, never dropped; bounded: 0..2 queued requests).",
    "C06": "Review round: C11's late-player set re-checked (the turn of a player who is still being added; defect 6ae4dc1 "
           "repaired).",
    "C03": "Review round: _process_active_timed_switches H3 (a due handler that registers another hold-time handler: one "
           "live wake-up, the recorded one; defect 24a70ff repaired; bounded).",
    "C07": "Review round: _mode_stopped_callback M12 / M13 (no delay and no switch handler of the mode left; defects "
           "0fe3d76, c6d9b62 repaired).",
    "C09": "Review round: Light.get_color_below GB1 (no longer assumed; defect 602acfe repaired; bounded: 3 layers, keys "
           "modelled as integers), _add_to_stack AS1 / AS2 (defect a0c27b8 repaired).",
    "C11": "Review round: ModeController._player_turn_start / _player_added / _ball_starting (PT0 / PT1; defect 6ae4dc1), "
           "VP1 rewritten (defect 3aeb834), logic-block removal re-checked natively (defect 1c72f9d).",
    "C13": "Review round: Timer.pause PA1 (defect 7360f73), Timer._setup_control_events TC1 (defect e6d20e2; bounded: 2 "
           "entries), Mode._mode_stopped_callback M12 re-checked (defect 0fe3d76).",
    "C16": "Review round: _eval_tuple TU1 (defect 73a224e; bounded: 2 elements), DeviceMonitor inherited attributes "
           "(native history; defect 98fd186).",
    "C17": "Review round: pause / resume / advance / step_back WS (a show waiting for its synchronised start keeps it; "
           "defect c8db8af), first step time '0s' (native history; defect c48912c).",
    "C18": "Review round: RM1 rewritten from the property (the block drops every timer of its own; defect 1c72f9d).",
    "C20": "Round 4b: bounded native check of the pricing table builder (522 tier configurations). Known finding F-C20-a "
           "(decimal prices truncated by float division; native history).",
}


ADDED6 = {
    "C01": "Review round 2: remove_handler RH1 / replace_handler RP1, get_event_and_condition_from_string G1 / G2 (the "
           "parsed event name keys the registration). Known findings F-C01-a / -b / -c (queue-event callback before the "
           "transitively posted events, queue event dispatched out of its slot, event dropped at post time): native "
           "histories; the deductive clauses D1-D6 cover the plain dispatch loop.",
    "C04": "Review round 2: handle_mechanical_eject_during_idle L4b (defect eca30e1 repaired), balance set BP1-BP3. Known "
           "findings F-C04-b (two sources, one free slot) and F-C04-c (double eject with a queued eject): native histories.",
    "C05": "Review round 2: native histories of mechanical ejects from idle (defects cbb5204, f274300 repaired; bounded). "
           "Known finding F-C05-a (a player-controlled eject has no timeout).",
    "C06": "Review round 2: _start_game G4b and _run L1b (defects 95b5846, 1de68c7 repaired). Known finding F-C06-a (a "
           "player added after the rotation back to player 1 gives that player an extra ball).",
    "C08": "Review round 2: _pulse_now PN0 (pulse(0) never holds the coil; defect 463a35a repaired), CoilPlayer.play CP1, "
           "Driver.enable EN3 / disable DS2 (a postponed enable does not outlive the disable; defect 01a0404 repaired).",
    "C10": "Review round 2: SoftwareEosRepulseManager under contract (class invariant SE0, SE3-SE5; defect 93358a5 "
           "repaired), clear_hw_rule PC4. Known finding F-C10-a (a tilt while no ball is in play leaves the next ball "
           "tilted with live flippers; native history).",
    "C12": "Review round 2: nan rejected by every ranged validator (native history; defect 63f6616 repaired); elements "
           "without settings in lists / dicts of sub-configs validated against the sub-spec (native history; defect 9478d53 "
           "repaired). Known finding F-C12-c (time strings one ms short through float truncation).",
    "C14": "Review round 2: reader RD1, SA2. Known findings F-C14-b (an unrelated frame cancels the retry) and F-C14-c "
           "(exhausted retries wedge the channel): native histories; W3 holds under its stated rely. F-C14-d (a non-UTF-8 "
           "byte ends the FAST reader): parse_incoming_raw_bytes restated from the property (raises nothing), refuted, "
           "re-proved for ignore_decode_errors.",
    "C15": "Review round 2: _writing_thread D3 (a failing snapshot does not end the thread; defect 5ab3294 repaired). Known "
           "finding F-C15-b (the writer thread is not joined at shutdown).",
    "C19": "Review round 2: known finding F-C19-c (the payload marker inside a JSON-mode value breaks the framing; native "
           "history).",
}


ADDED7 = {
    "C20": "Round 5: the machine-variable store is no longer only assumed to behave as a map: MachineVariables."
           "set_machine_var / get_machine_var / configure_machine_var (mpf/core/machine_vars.py, C15's contracts: the "
           "value is stored, get returns it or None, persist flag / expiry kept) are re-checked in this run as set C20m; "
           "the model of the store used by the credits contracts is the client view of exactly those clauses. "
           "DataManager.save_all / _writing_thread (earnings hand-over) re-checked in the same set. Seed C20-12 (get "
           "returns None after the expiry time) is refuted by it with the counter-model replayed natively.",
}


def main():
    props = [json.loads(l) for l in open("properties.jsonl")]
    checks = []
    for p in props:
        pid = p["id"]
        if pid in CLAIMED:
            c = dict(CLAIMED[pid])
            if pid in ADDED:
                c["text"] = c["text"] + " " + ADDED[pid][0]
                if ADDED[pid][1]:
                    c["note"] = c["note"] + " " + ADDED[pid][1]
            if pid in ADDED3:
                c["text"] = c["text"] + " " + ADDED3[pid]
            if pid in ADDED4:
                c["text"] = c["text"] + " " + ADDED4[pid]
            if pid in ADDED5:
                c["text"] = c["text"] + " " + ADDED5[pid]
            if pid in ADDED6:
                c["text"] = c["text"] + " " + ADDED6[pid]
            if pid in ADDED7:
                c["text"] = c["text"] + " " + ADDED7[pid]
            checks.append({
                "property_id": pid,
                "quick_cmd": "./check %s --tier quick" % pid,
                "thorough_cmd": "./check %s --tier thorough" % pid,
                "evidence_file": "/verif/evidence/%s.json" % pid,
                "replay_cmd_template": "./check %s --replay {path}" % pid,
                "engine": "pyvc",
                "level_claimed": {"category": c.get("category", "proof"), "text": c["text"],
                                  "design_ref": "DESIGN.md " + c["ref"]},
                "level_note": c["note"],
                "technique": c.get("technique", TECH),
            })
    na = []
    for p in props:
        pid = p["id"]
        if pid not in CLAIMED:
            na.append({"property_id": pid, "reason": NA.get(pid, "contracts for this property are not built yet "
                                                              "(planned in DESIGN.md section 4); not claimed until "
                                                              "its obligations are discharged by the verifier")})
    m = {
        "version": 1,
        "setup_cmd": "python3-vt -m pyvc.selftest",
        "hooks": {"guard": "MPF_VERIF",
                  "enable": "none needed: contracts are sidecar files under /verif/contracts; /repo is not "
                            "instrumented (no hook commits)",
                  "baseline_off_cmd": BASELINE_OFF, "source_commits": [], "add_only": True},
        "engines": [{"name": "pyvc", "path": "/verif/pyvc",
                     "serves_properties": sorted(CLAIMED),
                     "kind_free_text": "deductive verifier for a Python subset: re-reads the real function bodies "
                                       "from /repo with ast on every run, symbolic execution per path against sidecar "
                                       "contracts, VCs discharged by z3 5.1 / cvc5 1.0.3, counter-models replayed on "
                                       "the real code under /venv/bin/python"}],
        "checks": checks,
        "not_applicable": na,
        "notes": "Contract-based deductive verification of the real code; see DESIGN.md. Exit codes of ./check: 0 all "
                 "obligations discharged, 1 refuted obligation (VIOLATION line), 2 undecided, 3 checker/contract "
                 "error or vacuity.",
    }
    json.dump(m, open("MANIFEST.json", "w"), indent=1)


main()
