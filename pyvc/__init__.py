"""pyvc - contract-based deductive verification of (a subset of) Python.

Reads the real function bodies from /repo with ``ast`` on every run, executes
them symbolically path by path, and discharges verification conditions
against sidecar contracts with z3 / cvc5.  See /verif/DESIGN.md.
"""
