"""Symbolic values and shapes.

A value is a single-tag ``Val`` or a guarded union of them (``VUnion``).  The
z3 terms inside stay in native sorts (Int/Real/Bool/String/Seq/Array); the
dynamic typing of Python is handled by case-splitting in the interpreter.
"""
import z3


class Val:
    tag = "?"

    def __repr__(self):
        return "<%s>" % self.tag


class VNone(Val):
    tag = "none"


NONE = VNone()


class VBool(Val):
    tag = "bool"

    def __init__(self, t):
        self.t = z3.BoolVal(t) if isinstance(t, bool) else t

    def __repr__(self):
        return "<bool %s>" % self.t


class VInt(Val):
    tag = "int"

    def __init__(self, t):
        self.t = z3.IntVal(t) if isinstance(t, int) else t

    def __repr__(self):
        return "<int %s>" % self.t


class VReal(Val):
    tag = "real"

    def __init__(self, t):
        if isinstance(t, (int, float)):
            t = z3.RealVal(repr(float(t)) if isinstance(t, float) else t)
        self.t = t

    def __repr__(self):
        return "<real %s>" % self.t


class VStr(Val):
    tag = "str"

    def __init__(self, t, is_bytes=False):
        if isinstance(t, bytes):
            t = z3.StringVal("".join(chr(b) for b in t))
            is_bytes = True
        elif isinstance(t, str):
            t = z3.StringVal(t)
        self.t = t
        self.is_bytes = is_bytes

    def __repr__(self):
        return "<%s %s>" % ("bytes" if self.is_bytes else "str", self.t)


class Obj:
    """A heap object with concrete identity (objects never alias symbolically)."""
    _n = 0

    def __init__(self, cls, shape, name, kind="obj"):
        self.cls = cls
        self.shape = shape          # ObjS / Rec (may be None for fresh objects)
        self.name = name            # access path used to name symbols
        self.kind = kind            # 'obj' | 'rec'
        self.versions = {}

    def __repr__(self):
        return "Obj(%s:%s)" % (self.cls, self.name)


class VObj(Val):
    tag = "obj"

    def __init__(self, ref):
        self.ref = ref

    def __repr__(self):
        return "<obj %s>" % self.ref.name


class VTuple(Val):
    tag = "tuple"

    def __init__(self, items, ntname=None, fields=None):
        self.items = tuple(items)
        self.ntname = ntname
        self.fields = tuple(fields) if fields else None

    def __repr__(self):
        return "<tuple %s %r>" % (self.ntname or "", self.items)


class Ref:
    """Identity of a mutable container; content lives in the heap."""

    def __init__(self, name):
        self.name = name


class VList(Val):
    tag = "list"

    def __init__(self, ref):
        self.ref = ref


class VDict(Val):
    tag = "dict"

    def __init__(self, ref):
        self.ref = ref


class VSet(Val):
    tag = "set"

    def __init__(self, ref):
        self.ref = ref


# heap contents of containers
class LConc:
    def __init__(self, items):
        self.items = tuple(items)


class LSeq:
    """Abstract sequence: z3 Seq term + element shape."""

    def __init__(self, term, elem):
        self.term = term
        self.elem = elem


class DConc:
    """dict with concrete (python) keys, insertion-ordered."""

    def __init__(self, entries):
        self.entries = tuple(entries)     # ((pykey, Val), ...)

    @staticmethod
    def _keq(a, b):
        """python-constant keys by value; symbolic keys (Val) only by syntactic identity of their term"""
        if isinstance(a, VObj):
            a = a.ref               # objects have concrete identity: compare the heap objects
        if isinstance(b, VObj):
            b = b.ref
        if isinstance(a, Obj) or isinstance(b, Obj):
            return a is b
        if isinstance(a, Val) or isinstance(b, Val):
            return isinstance(a, Val) and isinstance(b, Val) and hasattr(a, "t") and hasattr(b, "t") and a.t.eq(b.t)
        return a == b and type(a) is type(b)

    def get(self, k):
        for kk, v in self.entries:
            if self._keq(kk, k):
                return v
        return None

    def set(self, k, v):
        out = []
        done = False
        for kk, vv in self.entries:
            if self._keq(kk, k):
                out.append((kk, v))
                done = True
            else:
                out.append((kk, vv))
        if not done:
            out.append((k, v))
        return DConc(out)

    def remove(self, k):
        return DConc([(kk, vv) for kk, vv in self.entries if not self._keq(kk, k)])


class DMap:
    """Abstract map: z3 Array (values) + z3 Array key->Bool (domain)."""

    def __init__(self, arr, dom, kshape, vshape):
        self.arr = arr
        self.dom = dom
        self.kshape = kshape
        self.vshape = vshape


class SConc:
    def __init__(self, items):
        self.items = tuple(items)


class VFn(Val):
    tag = "fn"

    def __init__(self, kind, **data):
        self.kind = kind
        self.__dict__.update(data)

    def __repr__(self):
        return "<fn %s %s>" % (self.kind, {k: v for k, v in self.__dict__.items() if k != "kind"})


class VCls(Val):
    tag = "cls"

    def __init__(self, name):
        self.name = name

    def __repr__(self):
        return "<cls %s>" % self.name


class VExc(Val):
    tag = "exc"

    def __init__(self, cls, args=()):
        self.cls = cls
        self.args = tuple(args)

    def __repr__(self):
        return "<exc %s>" % self.cls


class VOpaque(Val):
    """A value of an uninterpreted sort (handles, callbacks, keys, ...)."""
    tag = "opaque"

    def __init__(self, sort, t):
        self.sort = sort
        self.t = t

    def __repr__(self):
        return "<opaque %s %s>" % (self.sort, self.t)


class VUnion(Val):
    tag = "union"

    def __init__(self, alts):
        self.alts = tuple(alts)       # ((guard BoolRef, Val), ...)

    def __repr__(self):
        return "<union %s>" % ", ".join("%s" % v.tag for _, v in self.alts)


# ---------------------------------------------------------------- shapes
class Shape:
    def __repr__(self):
        return self.__class__.__name__


class _Int(Shape):
    pass


class _Real(Shape):
    pass


class _Bool(Shape):
    pass


class _Str(Shape):
    pass


class _Bytes(Shape):
    pass


class _None(Shape):
    pass


class _Fn(Shape):
    """opaque callable"""
    pass


Int, Real, Bool, Str, Bytes, NoneT, Fn = _Int(), _Real(), _Bool(), _Str(), _Bytes(), _None(), _Fn()


class Union(Shape):
    def __init__(self, *alts):
        self.alts = alts

    def __repr__(self):
        return "Union(%s)" % ", ".join(map(repr, self.alts))


def Opt(t):
    return Union(NoneT, t)


Num = Union(Int, Real)
Scalar = Union(NoneT, Bool, Int, Real, Str)


class Rec(Shape):
    """dict with constant string keys (a validated config section)."""

    def __init__(self, fields=None, **kw):
        self.fields = dict(fields or {})
        self.fields.update(kw)


class ObjS(Shape):
    def __init__(self, cls, fields=None, **kw):
        self.cls = cls
        self.fields = dict(fields or {})
        self.fields.update(kw)


class Seq(Shape):
    def __init__(self, elem):
        self.elem = elem


class ListOf(Shape):
    """concrete-length list of n elements of a shape (unrolled)"""

    def __init__(self, elem, n):
        self.elem = elem
        self.n = n


class MapS(Shape):
    def __init__(self, k, v):
        self.k = k
        self.v = v


class TupleS(Shape):
    def __init__(self, *items, ntname=None, fields=None):
        self.items = items
        self.ntname = ntname
        self.fields = fields


class Opaque(Shape):
    def __init__(self, sort):
        self.sort = sort

    def __repr__(self):
        return "Opaque(%s)" % self.sort


class Const(Shape):
    def __init__(self, value):
        self.value = value


class Init(Shape):
    """value built by a function (I, name) -> Val (objects with ghost state)"""

    def __init__(self, fn):
        self.fn = fn


class Lazy(Shape):
    """shape given by name, resolved in the contract set (recursive shapes)"""

    def __init__(self, name):
        self.name = name


_sorts = {}


def usort(name):
    if name not in _sorts:
        _sorts[name] = z3.DeclareSort(name)
    return _sorts[name]


_tuple_sorts = {}


def tuple_sort(shape):
    """z3 datatype for a tuple of natively-sorted components"""
    sorts = tuple(z3sort(s) for s in shape.items)
    key = tuple(str(x) for x in sorts)
    if key not in _tuple_sorts:
        name = "Tup_" + "_".join(k.replace(" ", "").replace("(", "").replace(")", "") for k in key)
        _tuple_sorts[key] = z3.TupleSort(name, list(sorts))
    return _tuple_sorts[key]


MK_PARTIAL = None
EMPTY_KW = None


def fn_terms():
    """uninterpreted constructor for functools.partial(fn, **kw) values and the empty-kwargs constant"""
    global MK_PARTIAL, EMPTY_KW
    if MK_PARTIAL is None:
        MK_PARTIAL = z3.Function("mk_partial", usort("Fn"), usort("Kwargs"), usort("Fn"))
        EMPTY_KW = z3.Const("EMPTY_KWARGS", usort("Kwargs"))
    return MK_PARTIAL, EMPTY_KW


OBJREG = {}     # sexpr of an ObjRef term -> Obj (reset per path by the interpreter)


def obj_term(obj):
    t = getattr(obj, "term", None)
    if t is None:
        t = z3.Const("ref!" + obj.name, usort("ObjRef"))
        obj.term = t
    OBJREG[t.sexpr()] = obj
    return t


def z3sort(shape):
    if isinstance(shape, TupleS):
        return tuple_sort(shape)[0]
    if isinstance(shape, (ObjS, Rec)):
        return usort("ObjRef")
    if shape is Int:
        return z3.IntSort()
    if shape is Real:
        return z3.RealSort()
    if shape is Bool:
        return z3.BoolSort()
    if shape is Str or shape is Bytes:
        return z3.StringSort()
    if isinstance(shape, Opaque):
        return usort(shape.sort)
    if shape is Fn:
        return usort("Fn")
    if isinstance(shape, Seq):
        return z3.SeqSort(z3sort(shape.elem))
    raise TypeError("no native z3 sort for shape %r" % (shape,))


def to_term(v, shape):
    """Val -> z3 term of the native sort of shape."""
    if shape is Int and v.tag in ("int", "bool"):
        return v.t if v.tag == "int" else z3.If(v.t, 1, 0)
    if shape is Real and v.tag in ("int", "real", "bool"):
        if v.tag == "real":
            return v.t
        return z3.ToReal(v.t if v.tag == "int" else z3.If(v.t, 1, 0))
    if shape is Bool and v.tag == "bool":
        return v.t
    if (shape is Str or shape is Bytes) and v.tag == "str":
        return v.t
    if isinstance(shape, Opaque) and v.tag == "opaque" and v.sort == shape.sort:
        return v.t
    if isinstance(shape, Opaque) and v.tag in ("tuple", "obj", "dict", "list", "fn"):
        # an arbitrary value stored into a sequence of abstract entries: represented by a fresh abstract entry
        return z3.FreshConst(usort(shape.sort), "entry")
    if shape is Fn and v.tag == "opaque" and v.sort == "Fn":
        return v.t
    if shape is Fn and v.tag == "fn":
        if v.kind == "bound":
            o = v.obj
            return z3.Const("method:%s.%s" % (o.name if isinstance(o, Obj) else o, v.name), usort("Fn"))
        if v.kind == "partial" and not v.args and set(v.kwargs) <= {"**"}:
            mk, empty = fn_terms()
            kw = v.kwargs.get("**")
            return mk(to_term(v.fn, Fn), kw.t if kw is not None else empty)
        if v.kind == "partial" and set(v.kwargs) <= {"**"}:
            # partial with positional arguments: an uninterpreted constructor over the argument terms
            mk, empty = fn_terms()
            kw = v.kwargs.get("**")
            ats = []
            for a in v.args:
                if isinstance(a, VUnion):
                    raise TypeError("union argument in a stored partial")
                if a.tag in ("int", "real", "bool", "str", "opaque"):
                    ats.append(a.t)
                elif a.tag == "fn":
                    ats.append(to_term(a, Fn))
                else:
                    raise TypeError("argument %r in a stored partial" % a)
            f = z3.Function("mk_partial_args_" + "_".join(str(t.sort()) for t in ats),
                            *([usort("Fn")] + [t.sort() for t in ats] + [usort("Kwargs"), usort("Fn")]))
            return f(to_term(v.fn, Fn), *(ats + [kw.t if kw is not None else empty]))
    if isinstance(shape, (ObjS, Rec)) and v.tag == "obj":
        return obj_term(v.ref)
    if isinstance(shape, TupleS) and v.tag == "tuple" and len(v.items) == len(shape.items):
        srt, mk, accs = tuple_sort(shape)
        return mk(*[to_term(x if not isinstance(x, VUnion) else _single(x), s) for x, s in zip(v.items, shape.items)])
    raise TypeError("value %r does not fit shape %r" % (v, shape))


def _single(u):
    raise TypeError("union inside an abstract container element")


def from_term(t, shape):
    if shape is Int:
        return VInt(t)
    if shape is Real:
        return VReal(t)
    if shape is Bool:
        return VBool(t)
    if shape is Str:
        return VStr(t)
    if shape is Bytes:
        return VStr(t, True)
    if isinstance(shape, Opaque):
        return VOpaque(shape.sort, t)
    if shape is Fn:
        return VOpaque("Fn", t)
    if isinstance(shape, (ObjS, Rec)):
        t = z3.simplify(t)
        key = t.sexpr()
        o = OBJREG.get(key)
        if o is None:
            o = Obj(getattr(shape, "cls", "dict"), shape, "elem[%s]" % key.replace(" ", "_")[:80],
                    kind="obj" if isinstance(shape, ObjS) else "rec")
            o.term = t
            OBJREG[key] = o
        return VObj(o)
    if isinstance(shape, TupleS):
        srt, mk, accs = tuple_sort(shape)
        return VTuple([from_term(z3.simplify(a(t)), sh) for a, sh in zip(accs, shape.items)], shape.ntname, shape.fields)
    raise TypeError("no value for shape %r" % (shape,))
