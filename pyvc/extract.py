"""Locate the real functions in /repo and normalise them mechanically.

Nothing is hand-copied: the FunctionDef node of the current working tree is
what gets executed symbolically.  The normalisation pass drops exactly the
statement kinds listed in DESIGN.md 2.1 and records every dropped statement.
"""
import ast
import hashlib
import os

REPO = os.environ.get("PYVC_REPO", "/repo")

LOG_METHODS = {"debug_log", "info_log", "warning_log", "error_log"}
LOG_OBJ_METHODS = {"debug", "info", "warning", "error", "exception", "critical", "log"}

_file_cache = {}


class ExtractError(Exception):
    pass


def load_module(relpath):
    path = os.path.join(REPO, relpath)
    st = os.stat(path)
    key = (path, st.st_mtime_ns, st.st_size)
    if key not in _file_cache:
        with open(path, "r", encoding="utf-8") as f:
            src = f.read()
        _file_cache[key] = (src, ast.parse(src, filename=path))
    return _file_cache[key]


def find_def(relpath, qualname):
    """Return (node, source_text) for ``Class.method`` / ``func`` in relpath.  A method that the class does not define
    itself is looked up in its base classes defined in the same file (it is the code that runs for that class: a method
    pulled up into a base class is still found)."""
    try:
        return _find_def(relpath, qualname)
    except ExtractError:
        parts = qualname.split(".")
        if len(parts) == 2:
            seen = set()
            todo = [parts[0]]
            while todo:
                c = todo.pop(0)
                if c in seen:
                    continue
                seen.add(c)
                try:
                    bases = class_bases(relpath, c)
                except ExtractError:
                    continue
                for b in bases:
                    b = b.split(".")[-1]
                    try:
                        return _find_def(relpath, b + "." + parts[1])
                    except ExtractError:
                        todo.append(b)
        raise


def _find_def(relpath, qualname):
    src, tree = load_module(relpath)
    parts = qualname.split(".")
    body = tree.body
    node = None
    for i, part in enumerate(parts):
        found = None
        for n in body:
            if isinstance(n, (ast.FunctionDef, ast.AsyncFunctionDef, ast.ClassDef)) and n.name == part:
                # for properties take the getter unless '@setter' requested
                found = n
                if isinstance(n, (ast.FunctionDef, ast.AsyncFunctionDef)):
                    want_setter = qualname.endswith("@setter")
                    is_setter = any(isinstance(d, ast.Attribute) and d.attr == "setter" for d in n.decorator_list)
                    if want_setter != is_setter:
                        found = None
                        continue
                break
        if found is None and part.endswith("@setter"):
            base = part[:-len("@setter")]
            for n in body:
                if isinstance(n, (ast.FunctionDef, ast.AsyncFunctionDef)) and n.name == base and any(
                        isinstance(d, ast.Attribute) and d.attr == "setter" for d in n.decorator_list):
                    found = n
                    break
        if found is None:
            raise ExtractError("%s: %s not found (at %r)" % (relpath, qualname, part))
        node = found
        body = getattr(found, "body", [])
    seg = ast.get_source_segment(src, node) or ""
    return node, seg


def class_bases(relpath, clsname):
    src, tree = load_module(relpath)
    for n in tree.body:
        if isinstance(n, ast.ClassDef) and n.name == clsname:
            return [ast.unparse(b) for b in n.bases]
    raise ExtractError("%s: class %s not found" % (relpath, clsname))


def namedtuple_fields(relpath, name):
    """Find ``name = namedtuple("name", [...])`` and defaults, from the AST."""
    src, tree = load_module(relpath)
    fields = None
    defaults = ()
    for n in ast.walk(tree):
        if isinstance(n, ast.Assign) and len(n.targets) == 1:
            t = n.targets[0]
            if isinstance(t, ast.Name) and t.id == name and isinstance(n.value, ast.Call) and \
                    ast.unparse(n.value.func) in ("namedtuple", "collections.namedtuple"):
                arg = n.value.args[1]
                if isinstance(arg, (ast.List, ast.Tuple)):
                    fields = [ast.literal_eval(e) for e in arg.elts]
                else:
                    fields = ast.literal_eval(arg).replace(",", " ").split()
            if isinstance(t, ast.Attribute) and ast.unparse(t) == name + ".__new__.__defaults__":
                defaults = ast.literal_eval(n.value)
    if fields is None:
        raise ExtractError("%s: namedtuple %s not found" % (relpath, name))
    return fields, tuple(defaults)


def module_constant(relpath, name):
    """Return the AST node assigned to a module- or class-level NAME (``A`` or ``Cls.A``)."""
    src, tree = load_module(relpath)
    parts = name.split(".")
    body = tree.body
    for p in parts[:-1]:
        for n in body:
            if isinstance(n, ast.ClassDef) and n.name == p:
                body = n.body
                break
        else:
            raise ExtractError("%s: class %s not found" % (relpath, p))
    for n in body:
        if isinstance(n, ast.Assign) and any(isinstance(t, ast.Name) and t.id == parts[-1] for t in n.targets):
            return n.value
        if isinstance(n, ast.AnnAssign) and isinstance(n.target, ast.Name) and n.target.id == parts[-1] and n.value:
            return n.value
    raise ExtractError("%s: constant %s not found" % (relpath, name))


def _is_log_call(call):
    if not isinstance(call, ast.Call):
        return False
    f = call.func
    if isinstance(f, ast.Attribute):
        if f.attr in LOG_METHODS:
            return True
        if f.attr in LOG_OBJ_METHODS and isinstance(f.value, ast.Attribute) and f.value.attr == "log":
            return True
        if f.attr in LOG_OBJ_METHODS and isinstance(f.value, ast.Name) and f.value.id in ("log", "logger"):
            return True
    return False


_SAFE_CALLS = {"format", "str", "join", "len", "repr", "int", "float", "list", "tuple", "type", "id",
               "_pretty_format_handler", "get_time", "ljust", "rjust", "abs", "min", "max", "round", "bool", "sorted"}


def _args_are_pure(call):
    for a in list(call.args) + [k.value for k in call.keywords]:
        for n in ast.walk(a):
            if isinstance(n, ast.Call):
                fn = n.func
                nm = fn.attr if isinstance(fn, ast.Attribute) else (fn.id if isinstance(fn, ast.Name) else None)
                if nm not in _SAFE_CALLS:
                    return False
            if isinstance(n, (ast.Await, ast.Yield, ast.YieldFrom, ast.NamedExpr)):
                return False
    return True


def _is_debug_test(test):
    s = ast.unparse(test)
    return "_debug" in s or s in ("self.debug", "debug")


class Normaliser:
    """Drops docstrings/string statements, pure logging calls, ``del <name>``."""

    def __init__(self, relpath):
        self.relpath = relpath
        self.dropped = []
        self.unsupported = []

    def _drop(self, stmt, why):
        self.dropped.append({"line": stmt.lineno, "why": why, "text": ast.unparse(stmt)[:160]})

    def block(self, stmts):
        out = []
        for s in stmts:
            r = self.stmt(s)
            if r is not None:
                out.append(r)
        if not out:
            p = ast.Pass()
            p.lineno = stmts[0].lineno if stmts else 0
            p.col_offset = 0
            out.append(p)
        return out

    def stmt(self, s):
        if isinstance(s, ast.Expr):
            if isinstance(s.value, ast.Constant) and isinstance(s.value.value, str):
                self._drop(s, "docstring/string statement")
                return None
            if _is_log_call(s.value):
                if _args_are_pure(s.value):
                    self._drop(s, "logging call")
                    return None
                self.unsupported.append("line %d: logging call with impure arguments" % s.lineno)
                return s
        if isinstance(s, ast.Delete):
            if all(isinstance(t, ast.Name) for t in s.targets):
                self._drop(s, "del of local name")
                return None
        if isinstance(s, ast.AnnAssign) and s.value is None:
            self._drop(s, "annotation-only statement")
            return None
        if isinstance(s, ast.If):
            if _is_debug_test(s.test) and not s.orelse:
                body_all_logs = all(isinstance(b, ast.Expr) and _is_log_call(b.value) and _args_are_pure(b.value)
                                    for b in s.body)
                if body_all_logs:
                    self._drop(s, "debug-only logging block")
                    return None
            s.body = self.block(s.body)
            s.orelse = self.block(s.orelse) if s.orelse else []
            return s
        if isinstance(s, ast.For) and not s.orelse:
            body = self.block(s.body)
            call_free = not any(isinstance(n, ast.Call) and not (isinstance(n.func, ast.Name) and n.func.id in
                                                                 ("list", "tuple", "enumerate", "sorted", "reversed"))
                                for n in ast.walk(s.iter))
            if all(isinstance(b, ast.Pass) for b in body) and call_free and self.dropped:
                self._drop(s, "loop whose body is only logging")
                return None
            s.body = body
            return s
        for fld in ("body", "orelse", "finalbody"):
            if hasattr(s, fld) and isinstance(getattr(s, fld), list) and getattr(s, fld) and \
                    isinstance(getattr(s, fld)[0], ast.stmt):
                setattr(s, fld, self.block(getattr(s, fld)))
        if isinstance(s, ast.Try):
            for h in s.handlers:
                h.body = self.block(h.body)
        return s


class Extracted:
    def __init__(self, relpath, qualname):
        import copy
        node, seg = find_def(relpath, qualname)
        self.relpath = relpath
        self.qualname = qualname
        self.sha256 = hashlib.sha256(seg.encode("utf-8")).hexdigest()
        self.lineno = node.lineno
        self.end_lineno = node.end_lineno
        self.is_async = isinstance(node, ast.AsyncFunctionDef)
        self.decorators = [ast.unparse(d) for d in node.decorator_list]
        node = copy.deepcopy(node)
        nz = Normaliser(relpath)
        node.body = nz.block(node.body)
        self.node = node
        self.dropped = nz.dropped
        self.unsupported = nz.unsupported
        self.extra_decorators = []
        for d in self.decorators:
            base = d.split("(")[0]
            if base not in ("property", "staticmethod", "classmethod", "event_handler", "abc.abstractmethod",
                            "abstractmethod") and not base.endswith(".setter"):
                self.extra_decorators.append(d)

    def describe(self):
        return {"file": self.relpath, "qualname": self.qualname, "sha256": self.sha256,
                "lines": [self.lineno, self.end_lineno], "async": self.is_async,
                "decorators": self.decorators, "dropped": self.dropped}
