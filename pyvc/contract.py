"""Sidecar contract data model (DESIGN.md 2.3)."""
from . import extract
from .vals import Shape


class LoopSpec:
    def __init__(self, invariant=(), modifies=(), decreases=None, unroll=False, index=None, assume=(),
                 body_ensures=(), roles=None):
        # contract name -> role of a loop-local variable ("target": the for-loop variable, "acc": the one local whose
        # new value is computed from its old value in the body); used when a clean-up has renamed the local
        self.roles = dict(roles or {})
        self.body_ensures = list(body_ensures)   # clauses about ONE iteration (trace helpers see only its events)
        self.assume = list(assume)      # definitional unfoldings of spec functions, assumed at the loop head
        self.invariant = list(invariant)
        self.modifies = list(modifies)
        self.decreases = decreases
        self.unroll = unroll
        self.index = index


class FnContract:
    def __init__(self, cset, key, file=None, qualname=None, params=None, requires=(), ensures=(), raises=None,
                 ensures_exc=(), modifies=(), loops=None, external=False, model=None, inline=False, result=None,
                 is_property=False, setter=False, note=None, lets=None, await_havoc=None, trusted_reason=None,
                 pure=False, emits=None, opaque_calls=(), findings=(), no_inv=False, defs=(), bounded=None, replay_seeds=None, call_ensures=None,
                 call_modifies=None, ghosts=None, inline_calls=False, fresh_result=False,
                 allow_decorators=(), skip_frame=None, loops_by_text=None, epilogue=None, shards=None):
        self.cset = cset
        self.key = key
        self.file = file
        self.qualname = qualname or key
        self.params = dict(params or {})
        self.requires = [_lab(c, "requires", i) for i, c in enumerate(requires)]
        self.ensures = [_lab(c, "ensures", i) for i, c in enumerate(ensures)]
        self.ensures_exc = [_lab(c, "ensures_exc", i) for i, c in enumerate(ensures_exc)]
        self.raises = dict(raises) if raises is not None else {}
        self.modifies = list(modifies)
        self.loops = dict(loops or {})
        self.external = external
        self.model = model
        self.inline = inline
        self.result = result
        self.is_property = is_property
        self.setter = setter
        self.note = note
        self.lets = dict(lets or {})
        self.await_havoc = await_havoc
        self.trusted_reason = trusted_reason
        self.pure = pure
        self.emits = emits
        self.opaque_calls = list(opaque_calls)
        self.defs = list(defs)          # definitional unfoldings of spec functions (assumed, never proved)
        self.shards = shards           # prove the paths of a heavy function in this many parallel workers
        self.replay_seeds = dict(replay_seeds or {})   # param -> concrete values tried natively after the model
        # weaker summary used at call sites instead of ensures/modifies (sound: callers learn less)
        self.call_ensures = None if call_ensures is None else [_lab(c, "ensures", i) for i, c in enumerate(call_ensures)]
        self.call_modifies = call_modifies
        self.fresh_result = fresh_result        # the result must be a new object per call (no memoisation)
        self.allow_decorators = list(allow_decorators)
        self.loops_by_text = dict(loops_by_text or {})   # loop-test fragment -> LoopSpec (fallback to ordinals)
        self.epilogue = epilogue        # environment step run after a normal return, before the postconditions
        self.skip_frame = skip_frame            # reason why the frame (modifies) check is not made for this function
        self.inline_calls = inline_calls        # verified on its own AND executed (not summarised) at call sites
        self.ghosts = dict(ghosts or {})        # universally quantified specification variables (name -> shape)
        self.bounded = bounded          # text of the bound if this function is only checked up to a bound
        self.no_inv = no_inv            # helper that neither assumes nor re-establishes the class invariants
        self._extracted = None

    @property
    def extracted(self):
        if self._extracted is None and self.file:
            self._extracted = extract.Extracted(self.file, self.qualname)
        return self._extracted

    @property
    def verified(self):
        return not self.external and self.file is not None and not self.inline


def _lab(c, kind, i):
    """clause -> (label, text_or_callable)"""
    if isinstance(c, tuple):
        return (c[0], c[1])
    return ("%s[%d]" % (kind, i), c)


class ClassSpec:
    def __init__(self, name, file=None, fields=None, bases=(), invariants=()):
        self.name = name
        self.file = file
        self.fields = dict(fields or {})
        self.bases = list(bases)
        self.invariants = [_lab(c, "inv", i) for i, c in enumerate(invariants)]


class ContractSet:
    def __init__(self, pid, title=""):
        self.pid = pid
        self.replay_pid = pid       # replay/<replay_pid>.py holds the native helper twins (kept when pid is re-labelled)
        self.title = title
        self.classes = {}
        self.fns = {}
        self.namedtuples = {}       # name -> (fields, defaults)
        self.exceptions = {}        # name -> base
        self.globals = {}           # name -> Val or ('module', ...)
        self.helpers = {}           # spec helper name -> callable(interp, *vals)
        self.opaque_attrs = {}      # (opaque sort, attribute) -> 'int' | 'bool': typed attribute of an unknown object
        self.shapes = {}
        self.ghost = {}             # ghost field -> shape
        self.assumptions = []
        self.finite_checks = []     # callables returning list of (name, ok, detail)
        self.mutants = []           # mutation catalogue
        self.native_setup = None
        self.opaque_info = {}       # opaque sort -> fn(I, concretizer, val, heap) -> dict of ghost facts for replay
        self.only_verify = None     # when set: only these keys are verified in this set (others serve as contracts)
        self.havoc_hooks = {}       # (class, field) -> fn(I, obj): custom havoc of ghost fields
        self.replay = {}

    # -- declaration helpers
    def cls(self, name, file=None, fields=None, bases=(), invariants=(), check_bases=True):
        if file and check_bases and bases:
            real = extract.class_bases(file, name)
            for b in bases:
                if b not in [r.split(".")[-1] for r in real]:
                    raise extract.ExtractError("%s: class %s no longer has base %s (has %s)" % (file, name, b, real))
        self.classes[name] = ClassSpec(name, file, fields, bases, invariants)
        return self.classes[name]

    def fn(self, key, file=None, **kw):
        if file is None and "." in key:
            c = self.classes.get(key.split(".")[0])
            if c is not None and not kw.get("external"):
                file = c.file
        fc = FnContract(self, key, file=file, **kw)
        self.fns[key] = fc
        return fc

    def ext(self, key, **kw):
        """assumed contract of an external / unverified dependency"""
        kw.setdefault("external", True)
        fc = FnContract(self, key, file=None, **kw)
        self.fns[key] = fc
        return fc

    def namedtuple(self, file, name):
        self.namedtuples[name] = extract.namedtuple_fields(file, name)

    def exc(self, name, base, file=None):
        if file:
            real = extract.class_bases(file, name)
            if base not in [r.split(".")[-1] for r in real]:
                raise extract.ExtractError("%s: exception %s no longer derives from %s" % (file, name, base))
        self.exceptions[name] = base

    def assume(self, text):
        self.assumptions.append(text)

    def lookup_method(self, clsname, meth, setter=False):
        seen = set()
        stack = [clsname]
        while stack:
            c = stack.pop(0)
            if c in seen:
                continue
            seen.add(c)
            k = "%s.%s" % (c, meth) + ("@setter" if setter else "")
            if k in self.fns:
                return self.fns[k]
            spec = self.classes.get(c)
            if spec:
                stack.extend(spec.bases)
        return None

    def class_field_shape(self, clsname, field):
        seen = set()
        stack = [clsname]
        while stack:
            c = stack.pop(0)
            if c in seen:
                continue
            seen.add(c)
            spec = self.classes.get(c)
            if spec:
                if field in spec.fields:
                    return spec.fields[field]
                stack.extend(spec.bases)
        return None

    def is_subclass(self, clsname, base):
        seen = set()
        stack = [clsname]
        while stack:
            c = stack.pop(0)
            if c == base:
                return True
            if c in seen:
                continue
            seen.add(c)
            spec = self.classes.get(c)
            if spec:
                stack.extend(spec.bases)
        return False
