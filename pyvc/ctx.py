"""Per-path context: decision log (re-execution based forking), path
condition, incremental z3 solver, obligations."""
import os
import subprocess
import tempfile
import re
import time

import z3

FEAS_TIMEOUT_MS = int(os.environ.get("PYVC_FEAS_MS", "2000"))
VC_TIMEOUT_MS = int(os.environ.get("PYVC_VC_MS", "10000"))
CVC5 = "/usr/bin/cvc5"


class PathAbort(Exception):
    """path infeasible or deliberately ended (e.g. end of an arbitrary loop iteration)"""

    def __init__(self, why="infeasible"):
        super().__init__(why)
        self.why = why


class WouldFork(Exception):
    """raised instead of forking while an expression is evaluated speculatively"""


class Unsupported(Exception):
    """construct outside the supported subset / missing shape or contract"""


class SpecError(Exception):
    """a contract clause is ill-formed (raises, refers to an unknown name, ...)"""


def _has_strings(exprs):
    seen = set()
    stack = list(exprs)
    while stack:
        e = stack.pop()
        i = e.get_id()
        if i in seen:
            continue
        seen.add(i)
        s = e.sort()
        if s.kind() == z3.Z3_SEQ_SORT:
            return True
        stack.extend(e.children())
    return False


def run_cvc5(smt2, timeout_s, want_model=False):
    """returns (status, output)"""
    with tempfile.NamedTemporaryFile("w", suffix=".smt2", delete=False, dir=os.environ.get("PYVC_TMP")) as f:
        f.write(smt2)
        path = f.name
    try:
        cmd = [CVC5, "--strings-exp", "--tlimit=%d" % int(timeout_s * 1000)]
        if want_model:
            cmd += ["--produce-models", "--strings-fmf"]
        try:
            r = subprocess.run(cmd + [path], capture_output=True, text=True, timeout=timeout_s + 2)
        except subprocess.TimeoutExpired:
            return "unknown", "timeout"
        out = r.stdout.strip()
        first = out.splitlines()[0].strip() if out else ""
        if first in ("sat", "unsat"):
            return first, out
        return "unknown", out + r.stderr[:300]
    finally:
        try:
            os.unlink(path)
        except OSError:
            pass


def _is_ground(t, cache):
    i = t.get_id()
    if i in cache:
        return cache[i]
    if z3.is_var(t):
        cache[i] = False
        return False
    if z3.is_quantifier(t):
        cache[i] = False
        return False
    r = all(_is_ground(c, cache) for c in t.children())
    cache[i] = r
    return r


def _ground_terms(exprs, limit=60):
    """ground subterms by sort (candidates for instantiating quantified assumptions)"""
    by_sort = {}
    seen = set()
    gcache = {}
    stack = list(exprs)
    while stack:
        e = stack.pop()
        i = e.get_id()
        if i in seen:
            continue
        seen.add(i)
        if z3.is_quantifier(e):
            stack.append(e.body())
            continue
        stack.extend(e.children())
        if z3.is_app(e) and _is_ground(e, gcache):
            k = e.sort().kind()
            if k in (z3.Z3_BOOL_SORT,):
                continue
            key = str(e.sort())
            lst = by_sort.setdefault(key, {})
            if len(lst) < limit:
                lst[i] = e
    return {k: list(v.values()) for k, v in by_sort.items()}


def _split_quantified(pc):
    plain, quant = [], []
    for f in pc:
        parts = f.children() if z3.is_and(f) else [f]
        for p in parts:
            if z3.is_and(p):
                for q in p.children():
                    (quant if _has_quant(q) else plain).append(q)
            else:
                (quant if _has_quant(p) else plain).append(p)
    return plain, quant


def _has_quant(e):
    seen = set()
    stack = [e]
    while stack:
        x = stack.pop()
        if x.get_id() in seen:
            continue
        seen.add(x.get_id())
        if z3.is_quantifier(x):
            return True
        stack.extend(x.children())
    return False


def ground_instances(pc, goal_neg, rounds=2):
    """replace universally quantified assumptions by their instances over the ground terms of the query.
    Every instance is implied by the assumption, so `unsat` of the result is a valid proof; `sat` is only a
    candidate counterexample (it may not extend to a model of the quantified assumptions)."""
    plain, quant = _split_quantified(pc)
    if not quant:
        return None
    insts = []
    pool = plain + [goal_neg]
    for _ in range(rounds):
        terms = _ground_terms(pool + insts)
        new = []
        for q in quant:
            if not (z3.is_quantifier(q) and q.is_forall()):
                # quantifier nested under connectives: keep it out (weakening)
                continue
            n = q.num_vars()
            cands = []
            ok = True
            for j in range(n):
                ts = terms.get(str(q.var_sort(j)), [])
                if not ts:
                    ok = False
                    break
                cands.append(ts[:25] if n == 1 else ts[:8])
            if not ok:
                continue
            import itertools
            for combo in itertools.product(*cands):
                # de Bruijn: var 0 is the LAST bound variable
                new.append(z3.substitute_vars(q.body(), *reversed(combo)))
        insts = new
    return plain + insts


_DEF = re.compile(r'\(define-fun\s+(\|[^|]*\||\S+)\s+\(\)\s+(String|Int|Bool|Real)\s+(.*)\)\s*$')


def _unescape_smt(sv):
    sv = sv.replace('""', '"')
    return re.sub(r'\\u\{([0-9a-fA-F]+)\}', lambda m: chr(int(m.group(1), 16)), sv)


def _zmodel_from_cvc5(text, assertions):
    """a z3 model that agrees with cvc5's values of the constants (so that the counterexample can be made concrete
    and replayed): the constants are pinned and z3 only has to pick the uninterpreted functions; None on failure"""
    try:
        consts = {}
        stack = list(assertions)
        seen = set()
        while stack:
            e = stack.pop()
            if e.get_id() in seen:
                continue
            seen.add(e.get_id())
            if z3.is_const(e) and e.decl().kind() == z3.Z3_OP_UNINTERPRETED:
                consts[e.decl().name()] = e
            stack.extend(e.children())
        eqs = []
        for line in text.splitlines():
            m = _DEF.match(line.strip())
            if not m:
                continue
            nm, sort, val = m.group(1).strip("|"), m.group(2), m.group(3).strip()
            c = consts.get(nm)
            if c is None:
                continue
            if sort == "String" and val.startswith('"') and c.sort() == z3.StringSort():
                eqs.append(c == z3.StringVal(_unescape_smt(val[1:-1])))
            elif sort == "Bool" and val in ("true", "false") and c.sort() == z3.BoolSort():
                eqs.append(c == z3.BoolVal(val == "true"))
            elif sort == "Int" and c.sort() == z3.IntSort():
                v = val.replace("(", "").replace(")", "").replace(" ", "")
                eqs.append(c == z3.IntVal(int(v)))
            elif sort == "Real" and c.sort() == z3.RealSort():
                mm = re.match(r'^\(?(-)?\s*\(?/?\s*(-?[0-9.]+)\s*([0-9.]+)?\)?\)?$', val)
                if mm and "/" not in val:
                    eqs.append(c == z3.RealVal(("-" if mm.group(1) else "") + mm.group(2)))
        s = z3.Solver()
        s.set("timeout", 5000)
        for a in assertions:
            s.add(a)
        for e in eqs:
            s.add(e)
        r = s.check()
        if r == z3.sat:
            return s.model()
        if os.environ.get("PYVC_DEBUG"):
            print("cvc5 model -> z3: %s (%d constants pinned)" % (r, len(eqs)))
    except Exception as e:       # noqa
        if os.environ.get("PYVC_DEBUG"):
            print("cvc5 model -> z3 failed: %r" % e)
        return None
    return None


class Obligation:
    def __init__(self, name, clause, status, backend, secs, model=None, info=None, path=None, smt=None):
        self.name = name            # stable id: "<fn>:<kind>[<label>]"
        self.clause = clause        # text of the clause
        self.status = status        # discharged | refuted | undecided
        self.backend = backend
        self.secs = secs
        self.model = model          # dict (refuted)
        self.info = info or {}
        self.path = path
        self.smt = smt

    def to_json(self):
        d = {"name": self.name, "clause": self.clause, "status": self.status, "backend": self.backend,
             "secs": round(self.secs, 4), "path": self.path}
        if self.model is not None:
            d["model"] = self.model
        if self.info:
            d["info"] = self.info
        return d


class PathCtx:
    def __init__(self, prefix, strings=False):
        self.prefix = list(prefix)
        self.log = []                 # decisions taken on this path
        self.k = 0
        self.pending = []             # new prefixes discovered
        self.solver = z3.Solver()
        self.solver.set("timeout", FEAS_TIMEOUT_MS)
        self.pc = []
        self.known = set()            # ids of guards known true
        self.obligations = []
        self.solver_time = 0.0
        self.checks = 0
        self.fresh_n = 0
        self.strings = strings
        self.notes = []

    # ------------------------------------------------------------ assume
    def assume(self, f):
        if z3.is_true(f):
            return
        self.pc.append(f)
        self.solver.add(f)
        self.known.add(f.get_id())

    def _feasible(self, g):
        t0 = time.time()
        self.checks += 1
        if self.strings and _has_strings(self.pc + [g]):
            r, _ = self._cvc5_check(self.pc + [g], 3)
            self.solver_time += time.time() - t0
            if r == "unknown":
                return True
            return r == "sat"
        r = self.solver.check(g)
        self.solver_time += time.time() - t0
        return r != z3.unsat

    def _cvc5_check(self, assertions, timeout_s, want_model=False):
        s = z3.Solver()
        for a in assertions:
            s.add(a)
        smt = "(set-logic ALL)\n" + s.to_smt2()
        if want_model:
            smt = smt.replace("(check-sat)", "(check-sat)\n(get-model)")
        st, out = run_cvc5(smt, timeout_s, want_model)
        return st, out

    # ------------------------------------------------------------ forking
    def choose(self, guards):
        """Pick one of the alternatives (guards: z3 Bools); forks the path."""
        gs = [z3.simplify(g) if not isinstance(g, bool) else z3.BoolVal(g) for g in guards]
        live = [i for i, g in enumerate(gs) if not z3.is_false(g)]
        if not live:
            raise PathAbort()
        for i in live:
            if z3.is_true(gs[i]) or gs[i].get_id() in self.known:
                return i
        if getattr(self, "no_fork", 0):
            feas = [i for i in live if self._feasible(gs[i])]
            if len(feas) == 1:
                return feas[0]
            raise WouldFork()
        if self.k < len(self.prefix):
            i = self.prefix[self.k]
            self.k += 1
            self.log.append(i)
            self.assume(gs[i])
            return i
        feas = [i for i in live if self._feasible(gs[i])]
        if not feas:
            raise PathAbort()
        i = feas[0]
        for j in feas[1:]:
            self.pending.append(self.log + [j])
        self.log.append(i)
        self.k += 1
        self.assume(gs[i])
        return i

    def fork(self, n):
        """unconditional n-way fork"""
        if getattr(self, "no_fork", 0):
            raise WouldFork()
        if self.k < len(self.prefix):
            i = self.prefix[self.k]
            self.k += 1
            self.log.append(i)
            return i
        for j in range(1, n):
            self.pending.append(self.log + [j])
        self.log.append(0)
        self.k += 1
        return 0

    def branch(self, cond):
        return self.choose([cond, z3.Not(cond)]) == 0

    # ------------------------------------------------------------ proving
    def prove(self, name, clause_text, f, info=None, assume_after=True):
        """Obligation: pc => f."""
        if getattr(self, "skip_prove", False):
            # this path's obligations are proved by another shard of the same function (contract option `shards`)
            if assume_after:
                self.assume(f if not isinstance(f, bool) else z3.BoolVal(f))
            return None
        t0 = time.time()
        f = z3.simplify(f) if not isinstance(f, bool) else z3.BoolVal(f)
        status, backend, model = None, "syntactic", None
        zmodel = None
        if z3.is_true(f):
            status = "discharged"
        else:
            neg = z3.Not(f)
            use_cvc5_first = _has_strings(self.pc + [neg])
            order = ["cvc5", "z3"] if use_cvc5_first else ["z3", "cvc5"]
            weak_model = None
            gi = ground_instances(self.pc, neg) if any(_has_quant(p) for p in self.pc) else None
            if gi is not None:
                # quantified assumptions: first try with their ground instances only (a valid proof if unsat)
                s2 = z3.Solver()
                s2.set("timeout", VC_TIMEOUT_MS)
                for a in gi:
                    s2.add(a)
                s2.add(neg)
                r = s2.check()
                if r == z3.unsat:
                    status, backend = "discharged", "z3(ground instances)"
                elif r == z3.sat:
                    weak_model = s2.model()
                    # further candidates (the native replay decides which one is real): block the truth values of the
                    # boolean constants of each model found
                    weak_more = []
                    try:
                        cur = weak_model
                        for _ in range(3):
                            blk = []
                            for d in cur.decls():
                                if d.arity() == 0 and d.range() == z3.BoolSort():
                                    c = d()
                                    blk.append(c != cur[d])
                            if not blk:
                                break
                            s2.add(z3.Or(blk))
                            if s2.check() != z3.sat:
                                break
                            cur = s2.model()
                            weak_more.append(cur)
                    except z3.Z3Exception:
                        pass
                order = [] if status else ["z3"]
            for be in order:
                if be == "z3":
                    self.solver.push()
                    self.solver.set("timeout", VC_TIMEOUT_MS if not use_cvc5_first else min(VC_TIMEOUT_MS, 3000))
                    self.solver.add(neg)
                    r = self.solver.check()
                    if r == z3.unsat:
                        status, backend = "discharged", "z3"
                    elif r == z3.sat:
                        status, backend = "refuted", "z3"
                        zmodel = self.solver.model()
                        model = self._model_dict(zmodel)
                    self.solver.pop()
                    self.solver.set("timeout", FEAS_TIMEOUT_MS)
                else:
                    try:
                        st, out = self._cvc5_check(self.pc + [neg], VC_TIMEOUT_MS / 1000.0, want_model=False)
                    except Exception as e:      # noqa
                        st, out = "unknown", str(e)
                    if st == "unsat":
                        status, backend = "discharged", "cvc5"
                    elif st == "sat":
                        status, backend = "refuted", "cvc5"
                        try:
                            st2, out2 = self._cvc5_check(self.pc + [neg], VC_TIMEOUT_MS / 1000.0, want_model=True)
                            model = {"cvc5_model": out2[:4000]} if st2 == "sat" else {"cvc5_model": None}
                            if st2 == "sat":
                                zmodel = _zmodel_from_cvc5(out2, self.pc + [neg])
                        except Exception:       # noqa
                            model = {"cvc5_model": None}
                if status:
                    break
            if not status and weak_model is not None:
                # candidate counterexample from the instantiated query: reported only if the native replay
                # confirms it (report.py); otherwise the obligation counts as undecided
                status, backend = "refuted", "z3(ground instances; candidate)"
                zmodel = weak_model
                model = self._model_dict(weak_model)
                info = dict(info or {})
                info["weak"] = True
            if not status:
                status, backend = "undecided", "z3+cvc5"
                dd = os.environ.get("PYVC_DUMP_DIR")
                if dd:
                    s3 = z3.Solver()
                    for a_ in self.pc + [neg]:
                        s3.add(a_)
                    with open(os.path.join(dd, "undecided_%d.smt2" % len(self.obligations)), "w") as fh:
                        fh.write("(set-logic ALL)\n" + s3.to_smt2())
        dt = time.time() - t0
        self.solver_time += dt
        ob = Obligation(name, clause_text, status, backend, dt, model, info, path=list(self.log))
        ob.zmodel = zmodel
        self.obligations.append(ob)
        if status == "refuted" and (info or {}).get("weak") and zmodel is weak_model:
            for wm in locals().get("weak_more", []):
                ob2 = Obligation(name, clause_text, status, backend, 0.0, self._model_dict(wm), dict(info),
                                 path=list(self.log))
                ob2.zmodel = wm
                self.obligations.append(ob2)
        if assume_after and status != "refuted":
            self.assume(f)
        return ob

    def _model_dict(self, m):
        out = {}
        for d in m.decls():
            try:
                if d.arity() == 0:
                    out[d.name()] = str(m[d])
            except z3.Z3Exception:
                pass
        return out

    def model_of_pc(self):
        self.solver.push()
        r = self.solver.check()
        m = self._model_dict(self.solver.model()) if r == z3.sat else None
        self.solver.pop()
        return m
