"""Verification-condition generation per function: run every path of the real
body against its sidecar contract and discharge the obligations."""
import ast
import time
import traceback

import z3

from .ctx import PathCtx, PathAbort, Unsupported, SpecError
from .interp import Interp, Frame, Raised, ReturnEx, BreakEx, ContinueEx, MISSING, _ctext
from .vals import *   # noqa

import os as _os


def _max_paths():
    return 40000 if _os.environ.get("PYVC_TIER") == "thorough" else 4000


class FnResult:
    def __init__(self, key):
        self.key = key
        self.obligations = []     # Obligation objects (one per path x clause)
        self.paths = 0
        self.paths_infeasible = 0
        self.paths_completed = 0
        self.unsupported = []
        self.spec_errors = []
        self.crashes = []
        self.notes = []
        self.secs = 0.0
        self.solver_secs = 0.0
        self.describe = None
        self.exits = {"return": 0, "raise": 0, "loop-iteration": 0}
        self.witnesses = []       # refuted obligations with concrete input description
        self.callsites = {}
        self.abort_reasons = {}

    def to_json(self):
        return {"key": self.key, "paths": self.paths, "paths_infeasible": self.paths_infeasible,
                "paths_completed": self.paths_completed, "exits": self.exits,
                "unsupported": self.unsupported, "spec_errors": self.spec_errors, "crashes": self.crashes,
                "notes": self.notes, "secs": round(self.secs, 3), "solver_secs": round(self.solver_secs, 3),
                "describe": self.describe, "abort_reasons": self.abort_reasons,
                "callsites": [{"callee": k[0], "line": k[1], "reached": v[0], "returns": v[1]}
                              for k, v in sorted(self.callsites.items(), key=str)],
                "obligations": [o.to_json() for o in self.obligations]}


def _default_shape(a, nm):
    """a parameter the contract does not mention (e.g. an optional one added later) is explored at its literal default"""
    import ast as _ast
    from .vals import Const
    pos = a.posonlyargs + a.args
    names = [x.arg for x in pos]
    d = None
    if nm in names:
        i = names.index(nm) - (len(pos) - len(a.defaults))
        if i >= 0:
            d = a.defaults[i]
    else:
        for x, dv in zip(a.kwonlyargs, a.kw_defaults):
            if x.arg == nm:
                d = dv
    if isinstance(d, _ast.Constant) and (d.value is None or isinstance(d.value, (bool, int, float, str))):
        return Const(d.value)
    return None


def make_entry_env(I, fc):
    ex = fc.extracted
    a = ex.node.args
    env = {}
    I.frames = [Frame(fc, env)]
    for g, shape in fc.ghosts.items():
        env[g] = I.fresh(shape, "ghost:" + g)
    names = [x.arg for x in a.posonlyargs + a.args]
    is_static = "staticmethod" in ex.decorators
    is_clsm = "classmethod" in ex.decorators
    clsname = fc.key.split(".")[0] if "." in fc.key else None
    for i, nm in enumerate(names):
        if i == 0 and clsname and not is_static:
            if is_clsm:
                env[nm] = VCls(clsname)
            else:
                shape = fc.params.get(nm) or ObjS(clsname, {})
                env[nm] = I.fresh(shape, nm)
            continue
        shape = fc.params.get(nm)
        if shape is None:
            shape = _default_shape(a, nm)
        if shape is None:
            raise Unsupported("no shape declared for parameter %s of %s" % (nm, fc.key))
        env[nm] = I.fresh(shape, nm)
    for x in a.kwonlyargs:
        shape = fc.params.get(x.arg)
        if shape is None:
            shape = _default_shape(a, x.arg)
        if shape is None:
            raise Unsupported("no shape declared for parameter %s of %s" % (x.arg, fc.key))
        env[x.arg] = I.fresh(shape, x.arg)
    if a.vararg is not None:
        shape = fc.params.get(a.vararg.arg)
        env[a.vararg.arg] = I.fresh(shape, a.vararg.arg) if shape is not None else VTuple(())
    if a.kwarg is not None:
        shape = fc.params.get(a.kwarg.arg)
        env[a.kwarg.arg] = I.fresh(shape, a.kwarg.arg) if shape is not None else I.new_dict(())
    return env


def allowed_locs(I, fc, entry_env, old_heap):
    """resolve the modifies clause to heap keys (evaluated in the entry state)"""
    allowed = set()
    star_objs = set()
    saved_heap = I.heap
    I.heap = old_heap
    I.frames.append(Frame(fc, dict(entry_env)))
    I.spec_depth += 1
    try:
        for loc in fc.modifies:
            # "post:<loc>": the location is resolved in the FINAL state (e.g. a field of the object a pointer has
            # been moved to during the call)
            I.heap = old_heap
            if loc.startswith("post:"):
                loc = loc[5:]
                I.heap = saved_heap
            if loc.endswith(".**"):
                # every container reachable from the value (nested lists / dicts)
                try:
                    v0 = I.eval(ast.parse(loc[:-3], mode="eval").body)
                except SpecError:
                    continue        # the base is None on this path: nothing to allow
                stack = [v0]
                while stack:
                    v = stack.pop()
                    for alt in (v.alts if isinstance(v, VUnion) else [(None, v)]):
                        x = alt[1]
                        if x.tag in ("list", "dict", "set") and (x.ref, "$") not in allowed:
                            allowed.add((x.ref, "$"))
                            c = old_heap.data.get((x.ref, "$"))
                            if isinstance(c, (LConc, SConc)):
                                stack.extend(c.items)
                            elif isinstance(c, DConc):
                                stack.extend(vv for _, vv in c.entries)
                continue
            star = loc.endswith(".*")
            l2 = loc[:-2] if star else loc
            node = ast.parse(l2, mode="eval").body
            if star:
                o = I.force(I.eval(node))
                if o.tag == "obj":
                    star_objs.add(o.ref)
                elif o.tag in ("list", "dict", "set"):
                    allowed.add((o.ref, "$"))
                continue
            try:
                if isinstance(node, ast.Attribute):
                    o = I.force(I.eval(node.value))
                    fld = node.attr
                elif isinstance(node, ast.Subscript):
                    o = I.force(I.eval(node.value))
                    fld = ast.literal_eval(node.slice)
                else:
                    raise SpecError("bad modifies location %r" % loc)
            except Raised:
                continue            # the location does not exist on this path (e.g. missing dict key)
            except SpecError as e:
                if "of None in clause" in str(e):
                    continue        # an object on the way to the location is None on this path: nothing to allow
                raise
            if o.tag == "none":
                continue            # no such object on this path: nothing to allow
            if o.tag != "obj":
                raise SpecError("modifies %r: base is not an object" % loc)
            allowed.add((o.ref, fld))
            cur = I.read_field(o.ref, fld)
            if cur is not MISSING:
                for alt in (cur.alts if isinstance(cur, VUnion) else [(None, cur)]):
                    v = alt[1]
                    if v.tag in ("list", "dict", "set"):
                        allowed.add((v.ref, "$"))
    finally:
        I.spec_depth -= 1
        I.frames.pop()
        I.heap = saved_heap
    return allowed, star_objs


def run_path(cset, fc, prefix, res, opts):
    strings = opts.get("strings", False)
    ctx = PathCtx(prefix, strings=strings)
    I = Interp(cset, ctx)
    res.paths += 1
    sh = opts.get("shard")
    if sh:
        ctx.skip_prove = (res.paths - 1) % sh[1] != sh[0]
    outcome = None
    try:
        env = make_entry_env(I, fc)
        entry_env = dict(env)
        I.frames = [Frame(fc, env)]
        entry = I.heap.snapshot()
        I.snapshots.append(entry)
        I.entry_heap = entry
        I.entry_env = entry_env
        # --- assume invariants and preconditions
        I.old_heap = entry
        clsname = fc.key.split(".")[0] if "." in fc.key else None
        cspec = cset.classes.get(clsname) if clsname else None
        if cspec is not None and "self" in env and not fc.key.endswith(".__init__") and not fc.no_inv:
            for label, inv in class_invariants(cset, clsname):
                ctx.assume(I.spec_bool(inv))
        for label, req in fc.requires:
            ctx.assume(I.spec_bool(req))
        for req in (opts.get("extra_requires") or {}).get(fc.key, []):
            ctx.assume(I.spec_bool(req))
        for name, text in fc.lets.items():
            env[name] = I.spec_val(text)
            entry_env[name] = env[name]
        for d in fc.defs:
            ctx.assume(I.spec_bool(d))
        I.old_heap = None
        if not ctx._feasible(z3.BoolVal(True)):
            raise PathAbort("precondition unsatisfiable on this path")
        I.modified = set()
        # --- execute the real body
        try:
            I.exec_block(fc.extracted.node.body)
            outcome = ("return", NONE)
        except ReturnEx as r:
            outcome = ("return", r.val)
        except Raised as r:
            outcome = ("raise", r.exc)
        except (BreakEx, ContinueEx):
            raise Unsupported("break/continue outside loop")
        if outcome[0] == "return" and fc.epilogue is not None:
            # what the environment does next (e.g. the event loop running callbacks that became due during the call)
            try:
                I.result = outcome[1]            # the returned value is visible to the environment step
                fc.epilogue(I, I.frames[0].env)
            except Raised as r:
                outcome = ("raise", r.exc)
        # --- postconditions
        I.frames = [Frame(fc, dict(entry_env))]
        I.old_heap = entry
        I.old_trace_len = 0
        if outcome[0] == "return":
            res.exits["return"] += 1
            I.result = outcome[1]
            for label, ens in fc.ensures:
                f = I.spec_bool(ens)
                ctx.prove("%s:%s" % (fc.key, label), _ctext(ens), f, info={"kind": "ensures"})
            if cspec is not None and "self" in entry_env and not fc.no_inv:
                for label, inv in class_invariants(cset, clsname):
                    f = I.spec_bool(inv)
                    ctx.prove("%s:%s" % (fc.key, label), _ctext(inv), f, info={"kind": "class-invariant"})
        else:
            res.exits["raise"] += 1
            exc = outcome[1]
            I.result = None
            match = None
            for nm, cond in fc.raises.items():
                if nm == "*" or I.exc_is(exc.cls, nm):
                    match = (nm, cond)
                    break
            if match is None:
                ctx.prove("%s:raises-only-declared" % fc.key,
                          "no exception other than %s escapes (got %s)" % (sorted(fc.raises) or "none", exc.cls),
                          z3.BoolVal(False), info={"kind": "raises", "exception": exc.cls}, assume_after=False)
            else:
                nm, cond = match
                if cond is not True and cond is not None:
                    saved = I.heap
                    I.heap = entry
                    try:
                        f = I.spec_bool(cond)
                    finally:
                        I.heap = saved
                    ctx.prove("%s:raises[%s]" % (fc.key, nm), _ctext(cond), f,
                              info={"kind": "raises", "exception": exc.cls})
                for label, ens in fc.ensures_exc:
                    f = I.spec_bool(ens)
                    ctx.prove("%s:%s" % (fc.key, label), _ctext(ens), f,
                              info={"kind": "ensures_exc", "exception": exc.cls})
        # --- frame
        allowed, star_objs = allowed_locs(I, fc, entry_env, entry)
        for key in sorted(I.modified, key=lambda k: (getattr(k[0], "name", ""), str(k[1]))):
            if fc.skip_frame:
                break
            if key in getattr(I, "undeclared_fields", ()):
                continue
            if key in allowed or key[0] in star_objs:
                continue
            if key not in entry.data and entry.ver.get(key, 0) == 0 and not _reachable_at_entry(key, entry):
                continue        # object/container created during the call
            new = I.heap.data.get(key)
            old = entry.data.get(key)
            same = None
            if new is not None and old is not None:
                if new is old:
                    continue
                try:
                    same = _content_eq(I, old, new)
                except (Unsupported, TypeError):
                    same = None
            nm = "%s.%s" % (getattr(key[0], "name", "?"), key[1])
            ctx.prove("%s:frame[%s]" % (fc.key, nm), "%s is not in modifies and must be unchanged" % nm,
                      same if same is not None else z3.BoolVal(False), info={"kind": "frame"})
        res.paths_completed += 1
    except PathAbort as e:
        if e.why.startswith("end of arbitrary iteration"):
            res.exits["loop-iteration"] += 1
            res.paths_completed += 1
        else:
            res.paths_infeasible += 1
            res.abort_reasons[e.why] = res.abort_reasons.get(e.why, 0) + 1
    except Unsupported as e:
        msg = str(e)
        if msg not in res.unsupported:
            res.unsupported.append(msg)
    except SpecError as e:
        msg = str(e)
        import os
        if os.environ.get("PYVC_DEBUG"):
            msg += "\n" + traceback.format_exc()[-2500:]
        if msg not in res.spec_errors:
            res.spec_errors.append(msg)
    except Exception as e:    # noqa  engine crash
        res.crashes.append("%s: %s\n%s" % (type(e).__name__, e, traceback.format_exc()[-1500:]))
    # collect
    for ob in ctx.obligations:
        if ob.status == "refuted":
            ob.info["outcome"] = outcome[0] if outcome else None
            zm = getattr(ob, "zmodel", None)
            if zm is not None and hasattr(I, "entry_env"):
                try:
                    from .concretize import concretize_path
                    ob.info["replay"] = concretize_path(I, I.entry_env, I.entry_heap, zm, outcome, I.ext_returns)
                except Exception as e:      # noqa
                    ob.info["replay_error"] = "%s: %s" % (type(e).__name__, e)
        ob.zmodel = None
        res.obligations.append(ob)
    for k, v in I.callsites.items():
        a = res.callsites.setdefault(k, [0, 0])
        a[0] += v[0]
        a[1] += v[1]
    for n in I.notes + ctx.notes:
        if n not in res.notes:
            res.notes.append(n)
    res.solver_secs += ctx.solver_time
    return ctx.pending


def _reachable_at_entry(key, entry):
    """a container whose ref was created by fresh() at entry is in entry.data; others are new"""
    return False


def _content_eq(I, old, new):
    if isinstance(old, Val) and isinstance(new, Val):
        return I.eq(old, new)
    if isinstance(old, LConc) and isinstance(new, LConc):
        if len(old.items) != len(new.items):
            return z3.BoolVal(False)
        return z3.And([I.eq(a, b) for a, b in zip(old.items, new.items)] + [z3.BoolVal(True)])
    if isinstance(old, LSeq) and isinstance(new, (LSeq, LConc)):
        return old.term == I.seq_term(new, old.elem)
    if isinstance(old, DMap) and isinstance(new, DMap):
        return z3.And(old.arr == new.arr, old.dom == new.dom)
    if isinstance(old, DConc) and isinstance(new, DConc):
        if [k for k, _ in old.entries] != [k for k, _ in new.entries]:
            return z3.BoolVal(False)
        return z3.And([I.eq(a[1], b[1]) for a, b in zip(old.entries, new.entries)] + [z3.BoolVal(True)])
    return None


def class_invariants(cset, clsname):
    out = []
    seen = set()
    stack = [clsname]
    while stack:
        c = stack.pop(0)
        if c in seen:
            continue
        seen.add(c)
        spec = cset.classes.get(c)
        if spec:
            out.extend(spec.invariants)
            stack.extend(spec.bases)
    return out


def describe_inputs(I, model):
    """concrete input tree for the replay harness: initial values of every materialised location"""
    if model is None:
        return None
    return {"symbols": model}


def verify_function(cset, key, opts=None):
    opts = opts or {}
    fc = cset.fns[key]
    res = FnResult(key)
    t0 = time.time()
    try:
        ex = fc.extracted
        res.describe = ex.describe()
        if ex.unsupported:
            res.unsupported.extend(ex.unsupported)
        from .ctx import Obligation
        for d in ex.extra_decorators:
            base = d.split("(")[0].split(".")[-1]
            if base in fc.allow_decorators:
                continue
            if base in ("lru_cache", "cache", "cached_property") and fc.fresh_result:
                res.obligations.append(Obligation(
                    "%s:result is a fresh object on every call" % fc.key,
                    "the function returns a new (mutable) object per call; decorator @%s memoises it, so callers that "
                    "mutate the result corrupt later calls" % d, "refuted", "structural", 0.0, model={"decorator": d},
                    info={"kind": "structure", "decorator": d}, path=[]))
            else:
                res.unsupported.append("decorator %s is not covered by the contract" % d)
        if fc.fresh_result and not any(d.split("(")[0].split(".")[-1] in ("lru_cache", "cache") for d in ex.extra_decorators):
            res.obligations.append(Obligation("%s:result is a fresh object on every call" % fc.key,
                                              "no memoising decorator on a function that returns a mutable object",
                                              "discharged", "structural", 0.0, info={"kind": "structure"}, path=[]))
    except Exception as e:    # noqa
        res.unsupported.append("extract: %s" % e)
        res.secs = time.time() - t0
        return res
    work = [[]]
    deadline = t0 + opts.get("fn_timeout", 300)
    while work:
        if res.paths >= _max_paths():
            res.unsupported.append("path limit %d exceeded" % _max_paths())
            break
        if time.time() > deadline:
            res.unsupported.append("function time budget exceeded after %d paths" % res.paths)
            break
        prefix = work.pop(0)        # breadth first: short paths (and their refutations) come first
        pending = run_path(cset, fc, prefix, res, opts)
        work.extend(pending)
    res.secs = time.time() - t0
    return res
