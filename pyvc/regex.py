"""Python `re` patterns (a stated subset) as z3 regular expressions, and character-class quantifiers over strings.

Subset: literals, escapes (\\d \\w \\s \\D \\W \\S and escaped punctuation), '.', character classes with ranges and
negation, groups (capturing / (?:...)), alternation, quantifiers ? * + {m} {m,n} {m,} (greedy or lazy: the same
language).  No flags, no anchors inside the pattern (a leading ^ / trailing $ are dropped: fullmatch semantics are
applied by the caller), no back-references or look-around.  Characters are ASCII (code points 0..127):
str.isalpha / \\w etc. are the ASCII classes (assumption A-ASCII, reported by every contract set that uses this).
"""
import z3

from .ctx import Unsupported

_ALL = None


def _rng(a, b):
    return z3.Range(a, b)


def _any_char():
    return z3.Range(chr(0), chr(127))


def _union(parts):
    if not parts:
        return z3.Empty(z3.ReSort(z3.StringSort()))
    r = parts[0]
    for p in parts[1:]:
        r = z3.Union(r, p)
    return r


CLASSES = {
    "d": lambda: _rng("0", "9"),
    "w": lambda: _union([_rng("a", "z"), _rng("A", "Z"), _rng("0", "9"), z3.Re("_")]),
    "s": lambda: _union([z3.Re(c) for c in " \t\n\r\x0b\x0c"]),
}
STR_PRED = {
    "isalpha": lambda: _union([_rng("a", "z"), _rng("A", "Z")]),
    "isdigit": lambda: _rng("0", "9"),
    "isnumeric": lambda: _rng("0", "9"),
    "isupper": lambda: _rng("A", "Z"),
    "islower": lambda: _rng("a", "z"),
    "isspace": lambda: CLASSES["s"](),
    "isalnum": lambda: _union([_rng("a", "z"), _rng("A", "Z"), _rng("0", "9")]),
}


def _neg(r):
    return z3.Intersect(_any_char(), z3.Complement(r))


class _P:
    def __init__(self, pat):
        self.p, self.i = pat, 0

    def peek(self):
        return self.p[self.i] if self.i < len(self.p) else None

    def take(self):
        c = self.p[self.i]
        self.i += 1
        return c

    def alt(self):
        parts = [self.seq()]
        while self.peek() == "|":
            self.take()
            parts.append(self.seq())
        return _union(parts)

    def seq(self):
        items = []
        while self.peek() is not None and self.peek() not in "|)":
            items.append(self.quant())
        if not items:
            return z3.Re("")
        r = items[0]
        for x in items[1:]:
            r = z3.Concat(r, x)
        return r

    def quant(self):
        a = self.atom()
        while self.peek() is not None and self.peek() in "?*+{":
            c = self.peek()
            if c == "{":
                j = self.p.find("}", self.i)
                body = self.p[self.i + 1:j]
                if j < 0 or not body.replace(",", "").isdigit():
                    raise Unsupported("regex quantifier %r" % self.p[self.i:])
                self.i = j + 1
                if "," in body:
                    lo, hi = body.split(",")
                    lo = int(lo or 0)
                    if hi == "":
                        a = z3.Concat(z3.Loop(a, lo, lo), z3.Star(a)) if lo else z3.Star(a)
                    else:
                        a = z3.Loop(a, lo, int(hi))
                else:
                    a = z3.Loop(a, int(body), int(body))
            else:
                self.take()
                a = {"?": z3.Option, "*": z3.Star, "+": z3.Plus}[c](a)
            if self.peek() == "?":      # lazy quantifier: same language
                self.take()
        return a

    def escape(self):
        c = self.take()
        if c in CLASSES:
            return CLASSES[c]()
        if c.lower() in CLASSES and c.isupper():
            return _neg(CLASSES[c.lower()]())
        if c in "tnr":
            return z3.Re({"t": "\t", "n": "\n", "r": "\r"}[c])
        if c.isalnum():
            raise Unsupported("regex escape \\%s" % c)
        return z3.Re(c)

    def cls(self):
        negate = False
        if self.peek() == "^":
            self.take()
            negate = True
        parts = []
        first = True
        while True:
            c = self.peek()
            if c is None:
                raise Unsupported("unterminated character class")
            if c == "]" and not first:
                self.take()
                break
            first = False
            self.take()
            if c == "\\":
                e = self.take()
                if e in CLASSES:
                    parts.append(CLASSES[e]())
                    continue
                if e.lower() in CLASSES and e.isupper():
                    parts.append(_neg(CLASSES[e.lower()]()))
                    continue
                c = {"t": "\t", "n": "\n", "r": "\r"}.get(e, e)
            if self.peek() == "-" and self.i + 1 < len(self.p) and self.p[self.i + 1] != "]":
                self.take()
                hi = self.take()
                if hi == "\\":
                    hi = self.take()
                parts.append(_rng(c, hi))
            else:
                parts.append(z3.Re(c))
        r = _union(parts)
        return _neg(r) if negate else r

    def atom(self):
        c = self.take()
        if c == "(":
            if self.p.startswith("?:", self.i):
                self.i += 2
            elif self.peek() == "?":
                raise Unsupported("regex group extension %r" % self.p[self.i:self.i + 3])
            r = self.alt()
            if self.peek() != ")":
                raise Unsupported("unbalanced regex group")
            self.take()
            return r
        if c == "[":
            return self.cls()
        if c == ".":
            return _neg(z3.Re("\n"))
        if c == "\\":
            return self.escape()
        if c in "^$":
            raise Unsupported("regex anchor inside the pattern")
        return z3.Re(c)


def to_z3(pattern):
    """z3 regular expression for the language of the python pattern (whole-string match)"""
    if pattern.startswith("^"):
        pattern = pattern[1:]
    if pattern.endswith("$") and not pattern.endswith("\\$"):
        pattern = pattern[:-1]
    p = _P(pattern)
    r = p.alt()
    if p.i != len(p.p):
        raise Unsupported("regex %r: cannot parse at %d" % (pattern, p.i))
    return r


def matches(kind, pattern, s):
    """z3 Bool: re.<kind>(pattern, s) is not None   (kind: fullmatch | match | search)"""
    r = to_z3(pattern)
    anything = z3.Star(z3.Full(z3.ReSort(z3.StringSort()))) if False else z3.Star(z3.AllChar(z3.ReSort(z3.StringSort())))
    if kind == "match" and not pattern.endswith("$"):
        r = z3.Concat(r, anything)
    if kind == "search":
        if not pattern.startswith("^"):
            r = z3.Concat(anything, r)
        if not pattern.endswith("$"):
            r = z3.Concat(r, anything)
    return z3.InRe(s, r)


def quantified_char_pred(which, pred, s):
    """any / all (c.<pred>() for c in s) as a regular-language membership (ASCII classes)"""
    cls = STR_PRED[pred]()
    anything = z3.Star(z3.AllChar(z3.ReSort(z3.StringSort())))
    if which == "any":
        return z3.InRe(s, z3.Concat(anything, cls, anything))
    return z3.InRe(s, z3.Star(cls))


def install(C):
    """declare the `re` module functions as models in a contract set (pattern must be a literal)"""
    from .vals import VFn, VOpaque, NONE, usort

    def mk(kind):
        def model(I, a, k):
            pat = I.pyconst(I.force(a[0]))
            sv = I.force(a[1])
            if not isinstance(pat, str) or sv.tag != "str" or len(a) > 2 or k:
                raise Unsupported("re.%s with a non-literal pattern, flags or a non-string subject" % kind)
            if I.ctx.branch(matches(kind, pat, sv.t)):
                return VOpaque("Match", z3.Const(I.fresh_name("match"), usort("Match")))
            return NONE
        return model
    C.globals["re"] = VFn("module", name="re")
    for kind in ("fullmatch", "match", "search"):
        C.globals["re." + kind] = VFn("model", model=mk(kind))
    C.assume("A-ASCII: regular expressions and str.isalpha()/isdigit() quantified over the characters of a string are "
             "modelled with the ASCII character classes")
