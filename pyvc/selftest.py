"""Engine self-test (MANIFEST.setup_cmd): the encodings of the Python operators used by the
verifier agree with CPython on sampled concrete values; fails closed."""
import ast
import itertools
import sys

import z3

from .ctx import PathCtx
from .contract import ContractSet
from .interp import Interp, Frame, Raised
from .vals import *     # noqa


def ev(expr, env):
    ctx = PathCtx([])
    I = Interp(ContractSet("T"), ctx)
    I.frames = [Frame(None, {k: I.const(v) for k, v in env.items()})]
    try:
        v = I.force(I.eval(ast.parse(expr, mode="eval").body))
    except Raised as r:
        return ("raise", r.exc.cls)
    if v.tag in ("int", "real", "bool", "str"):
        t = z3.simplify(v.t)
        if v.tag == "int":
            return ("int", t.as_long())
        if v.tag == "bool":
            return ("bool", z3.is_true(t))
        if v.tag == "real":
            f = t.as_fraction()
            return ("real", float(f))
        return ("str", t.as_string())
    if v.tag == "none":
        return ("none", None)
    return (v.tag, None)


def py(expr, env):
    try:
        r = eval(expr, {}, dict(env))
    except Exception as e:      # noqa
        return ("raise", type(e).__name__)
    if isinstance(r, bool):
        return ("bool", r)
    if isinstance(r, int):
        return ("int", r)
    if isinstance(r, float):
        return ("real", r)
    if isinstance(r, str):
        return ("str", r)
    if r is None:
        return ("none", None)
    return (type(r).__name__, None)


def main():
    vals = [-7, -2, -1, 0, 1, 2, 5, 0.5, -0.5, 2.0, True, False, None]
    exprs = ["a + b", "a - b", "a * b", "a // b", "a % b", "a / b", "a < b", "a <= b", "a == b", "a != b",
             "0 > a > 1", "0 <= a <= 1", "not a", "a and b", "a or b", "a if b else 0", "a is None", "-a",
             "abs(a)", "min(a, b)", "max(a, b)", "int(a)", "bool(a)", "float(a)", "a is not None and a > b",
             "round(a)", "a ^ b", "isinstance(a, int)", "isinstance(a, float)"]
    n = bad = 0
    for e in exprs:
        for a, b in itertools.product(vals, vals):
            if e in ("a ^ b",) and not (isinstance(a, (int, bool)) and isinstance(b, (int, bool))):
                continue
            if e in ("a ^ b",) and (a < 0 or b < 0):
                continue
            env = {"a": a, "b": b}
            x, y = ev(e, env), py(e, env)
            n += 1
            ok = x == y or (x[0] == y[0] == "real" and abs(x[1] - y[1]) < 1e-9) or \
                (x[0] in ("int", "real", "bool") and y[0] in ("int", "real", "bool") and e.startswith(("min", "max"))
                 and abs(float(x[1]) - float(y[1])) < 1e-9)
            if not ok:
                bad += 1
                print("MISMATCH %s with a=%r b=%r: engine %r, CPython %r" % (e, a, b, x, y))
    print("pyvc selftest: %d operator/value cases, %d mismatches" % (n, bad))
    # tools present
    import shutil
    for tool in ("/usr/bin/cvc5", "/venv/bin/python"):
        if not shutil.os.path.exists(tool):
            print("missing tool", tool)
            bad += 1
    sys.exit(1 if bad else 0)


main()
