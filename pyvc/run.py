"""debug runner: python3-vt -m pyvc.run C08 [fn-substring]"""
import importlib
import sys
import time

from .verify import verify_function


def main():
    pid = sys.argv[1]
    filt = sys.argv[2] if len(sys.argv) > 2 else ""
    mod = importlib.import_module("contracts." + pid)
    sets = [mod.build()] + (mod.build_extra() if hasattr(mod, "build_extra") else [])
    t0 = time.time()
    for C in sets:
        run_set(C, filt)
    print("total %.1fs" % (time.time() - t0))


def run_set(C, filt):
    for key, fc in list(C.fns.items()):
        if not fc.verified or filt not in key or (C.only_verify is not None and key not in C.only_verify):
            continue
        r = verify_function(C, key, {})
        agg = {}
        for o in r.obligations:
            agg.setdefault(o.status, 0)
            agg[o.status] += 1
        print("%-45s paths=%d (inf %d, done %d) %s  %.2fs" % (key, r.paths, r.paths_infeasible, r.paths_completed, agg, r.secs))
        for u in r.unsupported:
            print("    UNSUPPORTED:", u)
        for u in r.spec_errors:
            print("    SPECERROR:", u)
        for u in r.crashes:
            print("    CRASH:", u)
        seen = set()
        for o in r.obligations:
            if o.status != "discharged" and o.name not in seen:
                seen.add(o.name)
                print("    %s %s  [%s]" % (o.status.upper(), o.name, o.clause))
                if o.model:
                    print("        model:", {k: v for k, v in list(o.model.items())[:12]})


main()
