"""Encodings of the Python builtins and container/str methods that the
verified functions use.  Each follows the language reference; what is
approximated is noted (interp.note) and surfaces in the evidence."""
import z3

from .ctx import Unsupported, SpecError
from .vals import *   # noqa

REC_METHODS = {"get", "items", "keys", "values", "copy"}
KNOWN_METHODS = {
    "list": {"append", "extend", "insert", "pop", "remove", "clear", "copy", "index", "count", "sort", "reverse",
             "popleft", "appendleft"},
    "dict": {"get", "items", "keys", "values", "pop", "update", "setdefault", "copy", "clear", "popitem", "fromkeys"},
    "set": {"add", "discard", "remove", "clear", "copy", "update", "union", "intersection", "difference",
            "issubset", "issuperset", "pop"},
}


def _arg(args, kwargs, i, name, default=None):
    if i < len(args):
        return args[i]
    return kwargs.get(name, default)


# ------------------------------------------------------------------ builtins
def b_len(I, args, kw):
    v = I.force(args[0])
    if v.tag == "str":
        return VInt(z3.Length(v.t))
    if v.tag == "tuple":
        return VInt(len(v.items))
    if v.tag in ("list", "set"):
        c = I.container(v.ref)
        if isinstance(c, (LConc, SConc)):
            return VInt(len(c.items))
        return VInt(z3.Length(c.term))
    if v.tag == "dict":
        c = I.container(v.ref)
        if isinstance(c, DConc):
            return VInt(len(c.entries))
        raise Unsupported("len of abstract map")
    if v.tag == "obj" and v.ref.kind == "rec":
        return VInt(len(v.ref.shape.fields))
    if v.tag == "obj":
        fc = I.cset.lookup_method(v.ref.cls, "__len__")
        if fc is not None:
            return I.call_contract(fc, v, [], {}, None)
    if v.tag == "none":
        I.raise_("TypeError", "object of type 'NoneType' has no len()")
    raise Unsupported("len of %r" % v)


def b_isinstance(I, args, kw):
    v = I.force(args[0])
    c = I.force(args[1])
    classes = list(c.items) if c.tag == "tuple" else [c]
    res = False
    for k in classes:
        k = I.force(k)
        name = k.name if k.tag in ("cls", "fn") and hasattr(k, "name") else None
        if name is None:
            raise Unsupported("isinstance against %r" % k)
        if name == "int":
            res = res or v.tag in ("int", "bool")
        elif name == "float":
            res = res or v.tag == "real"
        elif name == "bool":
            res = res or v.tag == "bool"
        elif name == "str":
            res = res or (v.tag == "str" and not v.is_bytes)
        elif name == "bytes":
            res = res or (v.tag == "str" and v.is_bytes)
        elif name == "list":
            res = res or v.tag == "list"
        elif name == "dict":
            res = res or v.tag == "dict" or (v.tag == "obj" and v.ref.kind == "rec")
        elif name == "tuple":
            res = res or v.tag == "tuple"
        elif name == "set":
            res = res or v.tag == "set"
        elif v.tag == "obj":
            res = res or I.cset.is_subclass(v.ref.cls, name)
        elif v.tag == "exc":
            res = res or I.exc_is(v.cls, name)
        elif v.tag == "opaque":
            res = res or v.sort == name
    return VBool(bool(res))


def b_int(I, args, kw):
    if not args:
        return VInt(0)
    v = I.force(args[0])
    if len(args) > 1 or "base" in kw:
        base = I.pyconst(I.force(_arg(args, kw, 1, "base")))
        if v.tag != "str":
            I.raise_("TypeError")
        f = z3.Function("py_int_base%s" % base, z3.StringSort(), z3.IntSort())
        ok = z3.Function("py_int_base%s_ok" % base, z3.StringSort(), z3.BoolSort())
        if I.ctx.branch(z3.Not(ok(v.t))):
            I.raise_("ValueError")
        return VInt(f(v.t))
    if v.tag == "int":
        return v
    if v.tag == "bool":
        return VInt(z3.If(v.t, 1, 0))
    if v.tag == "real":
        return VInt(z3.If(v.t >= 0, z3.ToInt(v.t), -z3.ToInt(-v.t)))
    if v.tag == "str" and z3.is_string_value(v.t):
        try:
            return VInt(int(v.t.as_string()))
        except ValueError:
            I.raise_("ValueError")
    if v.tag == "str":
        ok = z3.Function("py_int_ok", z3.StringSort(), z3.BoolSort())
        f = z3.Function("py_int", z3.StringSort(), z3.IntSort())
        if I.ctx.branch(z3.Not(ok(v.t))):
            I.raise_("ValueError")
        return VInt(f(v.t))
    if v.tag == "none" or v.tag in ("list", "dict", "tuple", "obj", "set"):
        I.raise_("TypeError", "int() argument")
    raise Unsupported("int(%r)" % v)


def b_float(I, args, kw):
    if not args:
        return VReal(0)
    v = I.force(args[0])
    if v.tag == "real":
        return v
    if v.tag == "int":
        return VReal(z3.ToReal(v.t))
    if v.tag == "bool":
        return VReal(z3.If(v.t, z3.RealVal(1), z3.RealVal(0)))
    if v.tag == "str" and z3.is_string_value(v.t):
        try:
            fv = float(v.t.as_string())
            if fv != fv or fv in (float("inf"), float("-inf")):
                raise Unsupported("float literal nan/inf")
            import fractions
            fr = fractions.Fraction(v.t.as_string().strip()) if "e" not in v.t.as_string().lower() else \
                fractions.Fraction(fv)
            return VReal(z3.RealVal(str(fr)))
        except ValueError:
            I.raise_("ValueError")
    if v.tag == "str":
        ok = z3.Function("py_float_ok", z3.StringSort(), z3.BoolSort())
        f = z3.Function("py_float", z3.StringSort(), z3.RealSort())
        if I.ctx.branch(z3.Not(ok(v.t))):
            I.raise_("ValueError")
        return VReal(f(v.t))
    if v.tag in ("none", "list", "dict", "tuple", "obj", "set"):
        I.raise_("TypeError", "float() argument")
    raise Unsupported("float(%r)" % v)


def b_str(I, args, kw):
    if not args:
        return VStr("")
    v = I.force(args[0])
    if v.tag == "str" and not v.is_bytes:
        return v
    if v.tag == "int":
        f = z3.Function("py_str_int", z3.IntSort(), z3.StringSort())
        return VStr(z3.If(v.t >= 0, z3.IntToStr(v.t), f(v.t)))
    if v.tag == "real":
        f = z3.Function("py_str_float", z3.RealSort(), z3.StringSort())
        return VStr(f(v.t))
    if v.tag == "bool":
        return VStr(z3.If(v.t, z3.StringVal("True"), z3.StringVal("False")))
    if v.tag == "none":
        return VStr("None")
    if v.tag in ("list", "dict", "set"):
        return VStr(z3.String("str_of:" + v.ref.name))       # same object, same text (content changes ignored)
    if v.tag == "obj":
        return VStr(z3.String("str_of:" + v.ref.name))
    return VStr(z3.String(I.fresh_name("str")))


def b_bool(I, args, kw):
    if not args:
        return VBool(False)
    return VBool(I.truth(args[0]))


def b_abs(I, args, kw):
    k, t = I.num(args[0])
    if k is None:
        I.raise_("TypeError")
    r = z3.If(t >= 0, t, -t)
    return VInt(r) if k == "int" else VReal(r)


def _minmax(I, args, kw, is_min):
    if len(args) == 1:
        items = _conc_iter(I, args[0])
    else:
        items = list(args)
    if not items:
        if "default" in kw:
            return kw["default"]
        I.raise_("ValueError")
    ks = [I.num(x) for x in items]
    if any(k is None for k, _ in ks):
        if all(I.force(x).tag == "none" for x in items):
            I.raise_("TypeError")
        I.raise_("TypeError")
    real = any(k == "real" for k, _ in ks)
    if real and not all(k == "real" for k, _ in ks):
        # python returns the original object (int stays int); model the numeric value as real union-free:
        I.note("min/max over mixed int/float returns the value as float (numeric value exact)")
    ts = [(z3.ToReal(t) if (real and k == "int") else t) for k, t in ks]
    r = ts[0]
    for t in ts[1:]:
        r = z3.If(t < r, t, r) if is_min else z3.If(t > r, t, r)
    return VReal(r) if real else VInt(r)


def b_min(I, args, kw):
    return _minmax(I, args, kw, True)


def b_max(I, args, kw):
    return _minmax(I, args, kw, False)


def b_round(I, args, kw):
    v = I.force(args[0])
    if len(args) > 1 and I.pyconst(I.force(args[1])) == 0:
        # round(x, 0): float result, round-half-even (exact over the reals)
        k, t = I.num(v)
        if k == "int":
            return VInt(t)
        fl = z3.ToInt(t)
        diff = t - z3.ToReal(fl)
        r = z3.If(diff < 0.5, fl, z3.If(diff > 0.5, fl + 1, z3.If(fl % 2 == 0, fl, fl + 1)))
        return VReal(z3.ToReal(r))
    if len(args) > 1:
        f = z3.Function("py_round_n", z3.RealSort(), z3.IntSort(), z3.RealSort())
        k, t = I.num(v)
        k2, n = I.num(args[1])
        return VReal(f(z3.ToReal(t) if k == "int" else t, n))
    if v.tag == "int":
        return v
    if v.tag == "bool":
        return VInt(z3.If(v.t, 1, 0))
    if v.tag == "real":
        # banker's rounding
        fl = z3.ToInt(v.t)
        diff = v.t - z3.ToReal(fl)
        r = z3.If(diff < 0.5, fl, z3.If(diff > 0.5, fl + 1, z3.If(fl % 2 == 0, fl, fl + 1)))
        return VInt(r)
    I.raise_("TypeError")


def b_range(I, args, kw):
    vals = [I.num(a) for a in args]
    if any(k != "int" for k, _ in vals):
        I.raise_("TypeError")
    ts = [t for _, t in vals]
    if len(ts) == 1:
        lo, hi, step = z3.IntVal(0), ts[0], 1
    elif len(ts) == 2:
        lo, hi, step = ts[0], ts[1], 1
    else:
        lo, hi = ts[0], ts[1]
        st = z3.simplify(ts[2])
        if not z3.is_int_value(st):
            raise Unsupported("range with symbolic step")
        step = st.as_long()
    return VFn("range", lo=lo, hi=hi, step=step)


def _conc_iter(I, v):
    v = I.force(v)
    if v.tag == "fn" and v.kind == "range":
        lo, hi = z3.simplify(v.lo), z3.simplify(v.hi)
        if z3.is_int_value(lo) and z3.is_int_value(hi):
            return [VInt(i) for i in range(lo.as_long(), hi.as_long(), v.step)]
        raise Unsupported("symbolic range used as a concrete iterable")
    if v.tag == "fn" and v.kind == "iter":
        return list(v.items)
    if v.tag == "fn" and v.kind == "enum_live":
        return [VTuple([VInt(v.start + i), x]) for i, x in enumerate(I.container(v.ref).items)]
    return I.iter_conc(v)


def b_enumerate(I, args, kw):
    start = I.pyconst(I.force(_arg(args, kw, 1, "start", VInt(0))))
    a0 = I.force(args[0])
    if a0.tag == "list" and isinstance(I.container(a0.ref), LConc):
        return VFn("enum_live", ref=a0.ref, start=start)     # live, index-based iteration (see Interp.s_For)
    items = _conc_iter(I, args[0])
    return VFn("iter", items=[VTuple([VInt(start + i), x]) for i, x in enumerate(items)])


def b_reversed(I, args, kw):
    return VFn("iter", items=list(reversed(_conc_iter(I, args[0]))))


def b_zip(I, args, kw):
    lists = [_conc_iter(I, a) for a in args]
    return VFn("iter", items=[VTuple(list(t)) for t in zip(*lists)])


def b_list(I, args, kw):
    if not args:
        return I.new_list([])
    v = I.force(args[0])
    if v.tag == "list":
        c = I.container(v.ref)
        if isinstance(c, LSeq):
            ref = Ref(I.fresh_name("copy"))
            I.heap.data[(ref, "$")] = LSeq(c.term, c.elem)
            return VList(ref)
    if v.tag == "fn" and v.kind == "dictview":
        return I.new_list(list(v.items))
    return I.new_list(_conc_iter(I, v))


def b_tuple(I, args, kw):
    if not args:
        return VTuple(())
    return VTuple(_conc_iter(I, args[0]))


def b_set(I, args, kw):
    if not args:
        return I.new_set([])
    return I.new_set(_conc_iter(I, args[0]))


def b_dict(I, args, kw):
    d = DConc(())
    if args:
        v = I.force(args[0])
        if v.tag == "dict" and isinstance(I.container(v.ref), DMap):
            c = I.container(v.ref)
            ref = Ref(I.fresh_name("dictcopy"))
            I.heap.data[(ref, "$")] = DMap(c.arr, c.dom, c.kshape, c.vshape)
            return VDict(ref)
        if v.tag in ("dict",) or (v.tag == "obj" and v.ref.kind == "rec"):
            for k, x in I.dict_items_conc(v):
                d = d.set(k, x)
        else:
            for it in _conc_iter(I, v):
                it = I.force(it)
                k = I.pyconst(I.force(it.items[0]))
                if k is I_MISSING():
                    k = I.force(it.items[0])      # symbolic key (identified by its term)
                d = d.set(k, it.items[1])
    for k, x in kw.items():
        d = d.set(k, x)
    ref = Ref(I.fresh_name("dict"))
    I.heap.data[(ref, "$")] = d
    return VDict(ref)


def I_MISSING():
    from .interp import MISSING
    return MISSING


def b_sum(I, args, kw):
    items = _conc_iter(I, args[0])
    acc = _arg(args, kw, 1, "start", VInt(0))
    import ast
    for x in items:
        acc = I.binop(ast.Add(), acc, x)
    return acc


def _char_quant(I, which, g):
    """any/all(c.<pred>() for c in <symbolic string>) -> regular-language membership, else None"""
    import ast
    g = I.force(g) if not isinstance(g, VFn) else g
    if not (isinstance(g, VFn) and g.kind == "lazygen"):
        return None
    n = g.node
    if len(n.generators) != 1 or n.generators[0].ifs or not isinstance(n.generators[0].target, ast.Name):
        return None
    e = n.elt
    if not (isinstance(e, ast.Call) and not e.args and not e.keywords and isinstance(e.func, ast.Attribute) and
            isinstance(e.func.value, ast.Name) and e.func.value.id == n.generators[0].target.id):
        return None
    from . import regex
    if e.func.attr not in regex.STR_PRED:
        return None
    saved = I.frames[-1].env
    I.frames[-1].env = dict(g.frame_env)
    try:
        sv = I.force(I.eval(n.generators[0].iter))
    finally:
        I.frames[-1].env = saved
    if sv.tag != "str" or z3.is_string_value(sv.t):
        return None
    msg = "A-ASCII: %s(c.%s() for c in <str>) is decided with the ASCII character class" % (which, e.func.attr)
    if msg not in I.ctx.notes:
        I.ctx.notes.append(msg)
    return VBool(regex.quantified_char_pred(which, e.func.attr, sv.t))


def b_any(I, args, kw):
    r = _char_quant(I, "any", args[0])
    if r is not None:
        return r
    items = _conc_iter(I, args[0])
    return VBool(z3.Or([I.truth(x) for x in items] + [z3.BoolVal(False)]))


def b_all(I, args, kw):
    r = _char_quant(I, "all", args[0])
    if r is not None:
        return r
    items = _conc_iter(I, args[0])
    return VBool(z3.And([I.truth(x) for x in items] + [z3.BoolVal(True)]))


def b_sorted(I, args, kw):
    raise Unsupported("sorted() needs a contract-level model")


def b_callable(I, args, kw):
    v = I.force(args[0])
    return VBool(v.tag in ("fn", "cls") or (v.tag == "opaque" and v.sort == "Fn"))


def b_hasattr(I, args, kw):
    v = I.force(args[0])
    name = I.pyconst(I.force(args[1]))
    if v.tag == "obj":
        from .interp import MISSING
        if I.read_field(v.ref, name) is not MISSING or I.cset.lookup_method(v.ref.cls, name):
            return VBool(True)
        return VBool(False)
    raise Unsupported("hasattr on %r" % v)


def b_getattr(I, args, kw):
    v = I.force(args[0])
    name = I.pyconst(I.force(args[1]))
    try:
        return I.getattr(v, name)
    except Unsupported:
        if len(args) > 2:
            return args[2]
        raise


def b_setattr(I, args, kw):
    v = I.force(args[0])
    name = I.pyconst(I.force(args[1]))
    if v.tag != "obj":
        raise Unsupported("setattr on %r" % v)
    I.write_field(v.ref, name, args[2])
    return NONE


def b_print(I, args, kw):
    return NONE


def b_type(I, args, kw):
    v = I.force(args[0])
    names = {"int": "int", "real": "float", "bool": "bool", "str": "str", "none": "NoneType", "list": "list",
             "dict": "dict", "tuple": "tuple"}
    if v.tag in names:
        return VCls(names[v.tag] if not (v.tag == "str" and v.is_bytes) else "bytes")
    if v.tag == "obj":
        return VCls(v.ref.cls)
    raise Unsupported("type() of %r" % v)


def b_id(I, args, kw):
    return VInt(z3.Int(I.fresh_name("id")))


def b_partial(I, args, kw):
    return VFn("partial", fn=args[0], args=tuple(args[1:]), kwargs=dict(kw))


def b_bytes(I, args, kw):
    if not args:
        return VStr(b"")
    v = I.force(args[0])
    if v.tag == "str":
        return VStr(v.t, True)
    if v.tag == "list" and isinstance(I.container(v.ref), LConc):
        parts = [z3.StrFromCode(I.force(x).t) for x in I.container(v.ref).items]
        if not parts:
            return VStr(b"")
        return VStr(z3.Concat(*parts) if len(parts) > 1 else parts[0], True)
    raise Unsupported("bytes(%r)" % v)


def b_chr(I, args, kw):
    k, t = I.num(args[0])
    return VStr(z3.StrFromCode(t))


def b_ord(I, args, kw):
    v = I.force(args[0])
    return VInt(z3.StrToCode(v.t))


def b_divmod(I, args, kw):
    import ast
    return VTuple([I.binop(ast.FloorDiv(), args[0], args[1]), I.binop(ast.Mod(), args[0], args[1])])


def b_floor(I, args, kw):
    k, t = I.num(args[0])
    if k is None:
        I.raise_("TypeError")
    return VInt(t if k == "int" else z3.ToInt(t))


def b_ceil(I, args, kw):
    k, t = I.num(args[0])
    if k is None:
        I.raise_("TypeError")
    return VInt(t if k == "int" else -z3.ToInt(-t))


def b_iter_identity(I, args, kw):
    return args[0]


BUILTINS = {
    "len": b_len, "isinstance": b_isinstance, "int": b_int, "float": b_float, "str": b_str, "bool": b_bool,
    "abs": b_abs, "min": b_min, "max": b_max, "round": b_round, "range": b_range, "enumerate": b_enumerate,
    "reversed": b_reversed, "zip": b_zip, "list": b_list, "tuple": b_tuple, "set": b_set, "dict": b_dict,
    "sum": b_sum, "any": b_any, "all": b_all, "sorted": b_sorted, "callable": b_callable, "hasattr": b_hasattr,
    "getattr": b_getattr, "setattr": b_setattr, "print": b_print, "type": b_type, "id": b_id, "partial": b_partial,
    "bytes": b_bytes, "chr": b_chr, "ord": b_ord, "divmod": b_divmod, "iter": b_iter_identity,
    "frozenset": b_set, "floor": b_floor, "ceil": b_ceil,
}


# ------------------------------------------------------------------ methods
def method(I, fn, args, kw):
    k = fn.kind
    name = fn.name
    if k == "recmeth":
        return rec_method(I, fn.obj, name, args, kw)
    v = fn.val
    if k == "strmeth":
        return str_method(I, v, name, args, kw)
    if k == "listmeth":
        return list_method(I, v, name, args, kw)
    if k == "dictmeth":
        return dict_method(I, v, name, args, kw)
    if k == "setmeth":
        return set_method(I, v, name, args, kw)
    if k == "tuplemeth":
        if name == "_replace":
            items = list(v.items)
            for kk, x in kw.items():
                items[v.fields.index(kk)] = x
            return VTuple(items, v.ntname, v.fields)
    raise Unsupported("method %s.%s" % (k, name))


def rec_method(I, obj, name, args, kw):
    from .interp import MISSING
    if name == "get":
        key = I.pyconst(I.force(args[0]))
        if key is MISSING:
            raise Unsupported("record.get with symbolic key")
        v = I.read_field(obj, key)
        if v is MISSING:
            return _arg(args, kw, 1, "default", NONE)
        return v
    if name == "items":
        return VFn("iter", items=[VTuple([VStr(k), I.read_field(obj, k)]) for k in obj.shape.fields])
    if name == "keys":
        return VFn("iter", items=[VStr(k) for k in obj.shape.fields])
    if name == "values":
        return VFn("iter", items=[I.read_field(obj, k) for k in obj.shape.fields])
    raise Unsupported("record method %s" % name)


def _lit(v):
    return v.tag == "str" and z3.is_string_value(v.t)


def str_method(I, v, name, args, kw):
    s = v.t
    # literal receiver and literal arguments: evaluate with CPython itself (exact)
    if _lit(v) and name in ("upper", "lower", "split", "strip", "lstrip", "rstrip", "startswith", "endswith", "find",
                            "replace", "isdigit", "title", "capitalize", "count", "rsplit"):
        fargs = [I.force(a) for a in args]
        if all(_lit(a) or (a.tag == "int" and z3.is_int_value(a.t)) for a in fargs) and not kw:
            pa = [a.t.as_string() if a.tag == "str" else a.t.as_long() for a in fargs]
            r = getattr(v.t.as_string(), name)(*pa)
            if isinstance(r, list):
                return I.new_list([VStr(x) for x in r])
            if isinstance(r, bool):
                return VBool(r)
            if isinstance(r, int):
                return VInt(r)
            return VStr(r, v.is_bytes)
    if name in ("upper", "lower"):
        f = z3.Function("py_str_" + name, z3.StringSort(), z3.StringSort())
        r = f(s)
        I.ctx.assume(z3.Length(r) == z3.Length(s))
        I.note("str.%s modelled as an uninterpreted length-preserving function" % name)
        return VStr(r, v.is_bytes)
    if name in ("startswith", "endswith"):
        a = I.force(args[0])
        if a.tag == "tuple":
            parts = [I.force(x).t for x in a.items]
        else:
            parts = [a.t]
        f = z3.PrefixOf if name == "startswith" else z3.SuffixOf
        return VBool(z3.Or([f(p, s) for p in parts]))
    if name == "find":
        a = I.force(args[0])
        if len(args) > 1:
            st = I.force(args[1]).t
            return VInt(z3.IndexOf(s, a.t, st))
        return VInt(z3.IndexOf(s, a.t, 0))
    if name == "partition":
        # (head, sep, tail) around the first occurrence of sep; (s, '', '') when sep does not occur
        a = I.force(args[0])
        i = z3.IndexOf(s, a.t, 0)
        found = i >= 0
        isb = getattr(v, "is_bytes", False)
        head = z3.If(found, z3.SubString(s, 0, i), s)
        sep = z3.If(found, a.t, z3.StringVal(""))
        tail = z3.If(found, z3.SubString(s, i + z3.Length(a.t), z3.Length(s) - i - z3.Length(a.t)), z3.StringVal(""))
        return VTuple([VStr(head, isb), VStr(sep, isb), VStr(tail, isb)])
    if name == "index":
        a = I.force(args[0])
        r = z3.IndexOf(s, a.t, 0)
        if I.ctx.branch(r < 0):
            I.raise_("ValueError")
        return VInt(r)
    if name == "replace":
        a, b = I.force(args[0]), I.force(args[1])
        f = z3.Function("py_replace_all", z3.StringSort(), z3.StringSort(), z3.StringSort(), z3.StringSort())
        I.note("str.replace (all occurrences) modelled as an uninterpreted function")
        return VStr(f(s, a.t, b.t), v.is_bytes)
    if name in ("strip", "lstrip", "rstrip"):
        f = z3.Function("py_" + name, z3.StringSort(), z3.StringSort())
        r = f(s)
        I.ctx.assume(z3.Length(r) <= z3.Length(s))
        return VStr(r, v.is_bytes)
    if name == "format" and _lit(v) and not kw:
        fmt = v.t.as_string()
        pieces = fmt.split("{}")
        if len(pieces) == len(args) + 1 and "{" not in "".join(pieces) and "}" not in "".join(pieces):
            out = []
            okf = True
            for i, pc in enumerate(pieces):
                if pc:
                    out.append(z3.StringVal(pc))
                if i < len(args):
                    a = args[i] if isinstance(args[i], VUnion) else I.force(args[i])
                    if isinstance(a, VUnion) or a.tag not in ("str", "int", "bool", "none", "real"):
                        okf = False
                        break
                    out.append(b_str(I, [a], {}).t)
            if okf:
                return VStr(z3.Concat(*out) if len(out) > 1 else (out[0] if out else z3.StringVal("")))
    if name == "format":
        # deterministic uninterpreted function of the format string and the (stringified) arguments
        parts = []
        ok = not kw
        for a in args:
            a = I.force(a) if not isinstance(a, VUnion) else a
            if isinstance(a, VUnion):
                ok = False
                break
            if a.tag in ("str", "int", "bool", "none", "real"):
                parts.append(b_str(I, [a], {}).t)
            else:
                ok = False
                break
        if ok and len(parts) <= 4:
            f = z3.Function("py_format%d" % len(parts), *([z3.StringSort()] * (len(parts) + 2)))
            return VStr(f(s, *parts))
        return VStr(z3.String(I.fresh_name("fmt")))
    if name == "join":
        try:
            parts = [I.force(x) for x in _conc_iter(I, args[0])] if len(args) == 1 else None
        except Unsupported:
            parts = None
        if parts is not None and all(p_.tag == "str" for p_ in parts):
            if not parts:
                return VStr(z3.StringVal(""), v.is_bytes)
            out = parts[0].t
            for p_ in parts[1:]:
                out = z3.Concat(out, s, p_.t)
            return VStr(out, v.is_bytes)
        return VStr(z3.String(I.fresh_name("join")))
    if name in ("isdigit", "isalpha") and getattr(I.ctx, "strings", False):
        # string-solver route: the ASCII class, at least one character (A-ASCII)
        from . import regex as _rx
        return VBool(z3.InRe(s, z3.Plus(_rx.STR_PRED[name]())))
    if name in ("isdigit", "isnumeric", "isalpha", "isupper", "islower"):
        f = z3.Function("py_" + name, z3.StringSort(), z3.BoolSort())
        return VBool(f(s))
    if name == "rfind" and len(args) == 1:
        # last occurrence: r = -1 and no occurrence, or an occurrence at r with none starting behind it
        a = I.force(args[0])
        r = z3.Int(I.fresh_name("rfind"))
        ln = z3.Length(a.t)
        I.ctx.assume(z3.Or(z3.And(r == -1, z3.Not(z3.Contains(s, a.t))),
                           z3.And(r >= 0, r + ln <= z3.Length(s), z3.SubString(s, r, ln) == a.t,
                                  z3.IndexOf(s, a.t, r + 1) == -1)))
        return VInt(r)
    if name in ("decode", "encode"):
        if name == "decode" and v.is_bytes and not args and getattr(I.cset, "decode_may_fail", False):
            # opt-in (per contract set): bytes.decode() fails for input that is not UTF-8.  Which byte strings are
            # well-formed is left open except that pure ASCII always decodes (so a counterexample needs a byte >= 0x80)
            ok = z3.Function("py_utf8_ok", z3.StringSort(), z3.BoolSort())
            I.ctx.assume(z3.Implies(z3.InRe(s, z3.Star(z3.Range(chr(0), chr(0x7f)))), ok(s)))
            if not I.ctx.branch(ok(s)):
                I.raise_("UnicodeDecodeError", VStr(z3.StringVal("utf-8")))
        return VStr(s, name == "encode")
    if name == "split" and len(args) == 1 and _lit(I.force(args[0])):
        # split on a literal separator: case split on the number of occurrences (0, 1, more)
        sep = I.force(args[0]).t
        i1 = z3.IndexOf(s, sep, 0)
        if I.ctx.branch(i1 < 0):
            return I.new_list([VStr(s, v.is_bytes)])
        ln = z3.Length(sep)
        rest = z3.SubString(s, i1 + ln, z3.Length(s) - i1 - ln)
        first = z3.SubString(s, 0, i1)
        if I.ctx.branch(z3.IndexOf(rest, sep, 0) < 0):
            return I.new_list([VStr(first, v.is_bytes), VStr(rest, v.is_bytes)])
        # three or more parts: only the count matters to the callers we verify (tuple unpacking fails)
        return I.new_list([VStr(first, v.is_bytes), VStr(z3.String(I.fresh_name("part")), v.is_bytes),
                           VStr(z3.String(I.fresh_name("part")), v.is_bytes)])
    if name == "split":
        raise Unsupported("str.split needs a contract-level model")
    if name == "count":
        f = z3.Function("py_count", z3.StringSort(), z3.StringSort(), z3.IntSort())
        r = f(s, I.force(args[0]).t)
        I.ctx.assume(r >= 0)
        return VInt(r)
    if name == "hex":
        return VStr(z3.String(I.fresh_name("hex")))
    if name == "title" or name == "capitalize":
        f = z3.Function("py_str_" + name, z3.StringSort(), z3.StringSort())
        return VStr(f(s))
    raise Unsupported("str.%s" % name)


def list_method(I, v, name, args, kw):
    import ast
    ref = v.ref
    c = I.container(ref)
    if name == "popleft":           # collections.deque modelled as a list
        return list_method(I, v, "pop", [VInt(0)], {})
    if name == "appendleft":
        return list_method(I, v, "insert", [VInt(0), args[0]], {})
    if name == "append":
        if isinstance(c, LConc):
            I.set_container(ref, LConc(c.items + (args[0],)))
        else:
            I.set_container(ref, LSeq(z3.Concat(c.term, z3.Unit(to_term(I.force(args[0]), c.elem))), c.elem))
        return NONE
    if name == "extend":
        list_extend(I, v, args[0])
        return NONE
    if name == "insert":
        idx = I.pyconst(I.force(args[0]))
        if isinstance(c, LConc) and idx is not I_MISSING():
            items = list(c.items)
            items.insert(idx, args[1])
            I.set_container(ref, LConc(items))
            return NONE
        if isinstance(c, LSeq) and idx == 0:
            I.set_container(ref, LSeq(z3.Concat(z3.Unit(to_term(I.force(args[1]), c.elem)), c.term), c.elem))
            return NONE
        raise Unsupported("list.insert at symbolic position")
    if name == "pop":
        if isinstance(c, LConc):
            idx = I.pyconst(I.force(args[0])) if args else -1
            if not c.items:
                I.raise_("IndexError")
            items = list(c.items)
            x = items.pop(idx)
            I.set_container(ref, LConc(items))
            return x
        n_ = z3.Length(c.term)
        if I.ctx.branch(n_ == 0):
            I.raise_("IndexError")
        if args:
            idx = I.pyconst(I.force(args[0]))
            if idx != 0:
                raise Unsupported("list.pop(i) on abstract sequence, i != 0")
            x = from_term(c.term[0], c.elem)
            I.set_container(ref, LSeq(z3.SubSeq(c.term, 1, n_ - 1), c.elem))
            return x
        x = from_term(c.term[n_ - 1], c.elem)
        I.set_container(ref, LSeq(z3.SubSeq(c.term, 0, n_ - 1), c.elem))
        return x
    if name == "remove":
        if isinstance(c, LConc):
            items = list(c.items)
            for i, x in enumerate(items):
                if I.ctx.branch(I.eq(x, args[0])):
                    del items[i]
                    I.set_container(ref, LConc(items))
                    return NONE
            I.raise_("ValueError")
        x = to_term(I.force(args[0]), c.elem)
        i = z3.IndexOf(c.term, z3.Unit(x), 0)
        if I.ctx.branch(i < 0):
            I.raise_("ValueError")
        n_ = z3.Length(c.term)
        I.set_container(ref, LSeq(z3.Concat(z3.SubSeq(c.term, 0, i), z3.SubSeq(c.term, i + 1, n_ - i - 1)), c.elem))
        return NONE
    if name == "clear":
        I.set_container(ref, LConc(()) if isinstance(c, LConc) else LSeq(z3.Empty(c.term.sort()), c.elem))
        return NONE
    if name == "copy":
        if isinstance(c, LConc):
            return I.new_list(c.items)
        r2 = Ref(I.fresh_name("copy"))
        I.heap.data[(r2, "$")] = LSeq(c.term, c.elem)
        return VList(r2)
    if name == "index":
        if isinstance(c, LConc):
            for i, x in enumerate(c.items):
                if I.ctx.branch(I.eq(x, args[0])):
                    return VInt(i)
            I.raise_("ValueError")
        x = to_term(I.force(args[0]), c.elem)
        i = z3.IndexOf(c.term, z3.Unit(x), 0)
        if I.ctx.branch(i < 0):
            I.raise_("ValueError")
        return VInt(i)
    if name == "count":
        if isinstance(c, LConc):
            acc = VInt(0)
            for x in c.items:
                acc = VInt(acc.t + z3.If(I.eq(x, args[0]), 1, 0))
            return acc
    if name == "sort":
        h = I.cset.helpers.get("list_sort")
        if h is not None:
            return h(I, v, args, kw)
        raise Unsupported("list.sort needs a contract-level model (helper 'list_sort')")
    if name == "reverse":
        if isinstance(c, LConc):
            I.set_container(ref, LConc(tuple(reversed(c.items))))
            return NONE
    raise Unsupported("list.%s on %s" % (name, type(c).__name__))


def list_extend(I, v, other):
    c = I.container(v.ref)
    o = I.force(other)
    if isinstance(c, LConc):
        I.set_container(v.ref, LConc(c.items + tuple(_conc_iter(I, o))))
        return
    if o.tag == "list":
        co = I.container(o.ref)
        I.set_container(v.ref, LSeq(z3.Concat(c.term, I.seq_term(co, c.elem)), c.elem))
        return
    raise Unsupported("extend of abstract list with %r" % o)


def dict_method(I, v, name, args, kw):
    from .interp import MISSING
    ref = v.ref
    c = I.container(ref)
    if isinstance(c, DConc):
        if name == "get":
            key = I.force(args[0])
            k = I.pyconst(key)
            default = _arg(args, kw, 1, "default", NONE)
            if k is MISSING:
                for kk, vv in c.entries:
                    if I.ctx.branch(I.eq(key, I.const(kk))):
                        return vv
                return default
            r = c.get(k)
            return r if r is not None else default
        if name == "items":
            return VFn("iter", items=[VTuple([I.const(k), x]) for k, x in c.entries])
        if name == "keys":
            return VFn("iter", items=[I.const(k) for k, _ in c.entries])
        if name == "values":
            return VFn("iter", items=[x for _, x in c.entries])
        if name == "pop":
            k = I.pyconst(I.force(args[0]))
            if k is MISSING:
                raise Unsupported("dict.pop symbolic key on concrete dict")
            r = c.get(k)
            if r is None:
                if len(args) > 1:
                    return args[1]
                I.raise_("KeyError")
            I.set_container(ref, c.remove(k))
            return r
        if name == "update":
            d = c
            if args:
                for k, x in I.dict_items_conc(args[0]):
                    d = d.set(k, x)
            for k, x in kw.items():
                d = d.set(k, x)
            I.set_container(ref, d)
            return NONE
        if name == "setdefault":
            k = I.pyconst(I.force(args[0]))
            r = c.get(k)
            if r is None:
                r = _arg(args, kw, 1, "default", NONE)
                I.set_container(ref, c.set(k, r))
            return r
        if name == "copy":
            r2 = Ref(I.fresh_name("dictcopy"))
            I.heap.data[(r2, "$")] = DConc(c.entries)
            return VDict(r2)
        if name == "clear":
            I.set_container(ref, DConc(()))
            return NONE
    else:
        if name == "get":
            kt = to_term(I.force(args[0]), c.kshape)
            I.dmap_keys.setdefault(ref, []).append(kt)
            default = _arg(args, kw, 1, "default", NONE)
            if I.ctx.branch(z3.Select(c.dom, kt)):
                return from_term(z3.Select(c.arr, kt), c.vshape)
            return default
        if name == "pop":
            kt = to_term(I.force(args[0]), c.kshape)
            I.dmap_keys.setdefault(ref, []).append(kt)
            if I.ctx.branch(z3.Select(c.dom, kt)):
                r = from_term(z3.Select(c.arr, kt), c.vshape)
                I.set_container(ref, DMap(c.arr, z3.Store(c.dom, kt, False), c.kshape, c.vshape))
                return r
            if len(args) > 1:
                return args[1]
            I.raise_("KeyError")
        if name == "clear":
            I.set_container(ref, DMap(c.arr, z3.K(z3sort(c.kshape), z3.BoolVal(False)), c.kshape, c.vshape))
            return NONE
        if name == "copy":
            r2 = Ref(I.fresh_name("dictcopy"))
            I.heap.data[(r2, "$")] = DMap(c.arr, c.dom, c.kshape, c.vshape)
            return VDict(r2)
    raise Unsupported("dict.%s on %s" % (name, type(c).__name__))


def set_method(I, v, name, args, kw):
    ref = v.ref
    c = I.container(ref)
    if name == "add":
        if I.ctx.branch(z3.Or([I.eq(x, args[0]) for x in c.items] + [z3.BoolVal(False)])):
            return NONE
        I.set_container(ref, SConc(c.items + (args[0],)))
        return NONE
    if name in ("discard", "remove"):
        items = list(c.items)
        for i, x in enumerate(items):
            if I.ctx.branch(I.eq(x, args[0])):
                del items[i]
                I.set_container(ref, SConc(items))
                return NONE
        if name == "remove":
            I.raise_("KeyError")
        return NONE
    if name == "clear":
        I.set_container(ref, SConc(()))
        return NONE
    raise Unsupported("set.%s" % name)


def setitem(I, base, idx, val):
    from .interp import MISSING
    idx = I.force(idx)
    if base.tag == "obj" and base.ref.kind == "rec":
        k = I.pyconst(idx)
        if k is MISSING:
            raise Unsupported("record store with symbolic key")
        I.write_field(base.ref, k, val)
        return
    if base.tag == "obj":
        fc = I.cset.lookup_method(base.ref.cls, "__setitem__")
        if fc is not None:
            I.call_contract(fc, base, [idx, val], {}, None)
            return
    if base.tag == "dict":
        c = I.container(base.ref)
        if isinstance(c, DConc):
            k = I.pyconst(idx)
            if k is MISSING:
                k = idx
                if c.get(idx) is None and c.entries:
                    # symbolic key: case split over the existing keys it may be equal to, else a new entry
                    if not hasattr(idx, "t"):
                        raise Unsupported("concrete dict store with a symbolic key of kind %s" % idx.tag)
                    for kk, _ in c.entries:
                        kkv = kk if isinstance(kk, Val) else I.const(kk)
                        if kkv.tag == idx.tag and I.ctx.branch(I.eq(idx, kkv)):
                            k = kk
                            break
            I.set_container(base.ref, c.set(k, val))
            return
        kt = to_term(idx, c.kshape)
        I.dmap_keys.setdefault(base.ref, []).append(kt)
        I.set_container(base.ref, DMap(z3.Store(c.arr, kt, to_term(I.force(val), c.vshape)),
                                       z3.Store(c.dom, kt, True), c.kshape, c.vshape))
        return
    if base.tag == "list":
        c = I.container(base.ref)
        if isinstance(c, LConc):
            k = I.pyconst(idx)
            if k is MISSING:
                k = I.conc_index(idx, len(c.items))
            if not -len(c.items) <= k < len(c.items):
                I.raise_("IndexError")
            items = list(c.items)
            items[k] = val
            I.set_container(base.ref, LConc(items))
            return
        n_ = z3.Length(c.term)
        t = idx.t
        if I.ctx.branch(z3.Or(t < 0, t >= n_)):
            I.raise_("IndexError")
        new = z3.Concat(z3.SubSeq(c.term, 0, t), z3.Unit(to_term(I.force(val), c.elem)),
                        z3.SubSeq(c.term, t + 1, n_ - t - 1))
        I.set_container(base.ref, LSeq(new, c.elem))
        return
    if base.tag in ("none", "int", "real", "bool"):
        I.raise_("TypeError", "'%s' object does not support item assignment" % base.tag)
    raise Unsupported("item assignment on %r" % base)


def delitem(I, base, idx):
    from .interp import MISSING
    idx = I.force(idx)
    if base.tag == "dict":
        c = I.container(base.ref)
        if isinstance(c, DConc):
            k = I.pyconst(idx)
            if k is MISSING:
                if c.get(idx) is None:
                    raise Unsupported("del on concrete dict with a symbolic key that is not syntactically one of its keys")
                k = idx
            if c.get(k) is None:
                I.raise_("KeyError")
            I.set_container(base.ref, c.remove(k))
            return
        kt = to_term(idx, c.kshape)
        I.dmap_keys.setdefault(base.ref, []).append(kt)
        if I.ctx.branch(z3.Not(z3.Select(c.dom, kt))):
            I.raise_("KeyError")
        I.set_container(base.ref, DMap(c.arr, z3.Store(c.dom, kt, False), c.kshape, c.vshape))
        return
    if base.tag == "list":
        c = I.container(base.ref)
        if isinstance(c, LConc):
            k = I.pyconst(idx)
            items = list(c.items)
            del items[k]
            I.set_container(base.ref, LConc(items))
            return
        n_ = z3.Length(c.term)
        t = idx.t
        if I.ctx.branch(z3.Or(t < 0, t >= n_)):
            I.raise_("IndexError")
        I.set_container(base.ref, LSeq(z3.Concat(z3.SubSeq(c.term, 0, t), z3.SubSeq(c.term, t + 1, n_ - t - 1)),
                                       c.elem))
        return
    raise Unsupported("del item on %r" % base)
