"""Property-level driver: run all functions under contract, aggregate, replay
refuted obligations natively, apply known findings, write evidence, exit code."""
import argparse
import importlib
import json
import multiprocessing as mp
import os
import re
import subprocess
import sys
import time

HERE = os.path.dirname(os.path.dirname(os.path.abspath(__file__)))
REPO = os.environ.get("PYVC_REPO", "/repo")
NATIVE_PY = "/venv/bin/python"


def load_sets(pid):
    mod = importlib.import_module("contracts." + pid)
    sets = [mod.build()]
    if hasattr(mod, "build_extra"):
        sets.extend(mod.build_extra())
    return sets


def _worker(args):
    pid, key, opts = args
    sys.path.insert(0, HERE)
    from pyvc.verify import verify_function
    try:
        si, key = key if isinstance(key, tuple) else (0, key)
        C = load_sets(pid)[si]
        r = verify_function(C, key, opts)
        import json as _json
        return _json.loads(_json.dumps(r.to_json(), default=repr))     # plain data only (no solver objects)
    except Exception as e:      # noqa
        import traceback
        return {"key": key, "crashes": ["%s: %s\n%s" % (type(e).__name__, e, traceback.format_exc()[-1500:])],
                "obligations": [], "paths": 0, "paths_completed": 0, "paths_infeasible": 0, "unsupported": [],
                "spec_errors": [], "notes": [], "secs": 0, "solver_secs": 0, "describe": None, "exits": {}}


def sanitize(s):
    return re.sub(r"[^A-Za-z0-9_.-]+", "_", s)[:120]


def load_known(pid):
    p = os.path.join(HERE, "known_findings.json")
    if not os.path.exists(p):
        return [], []
    d = json.load(open(p))
    return [f for f in d.get("findings", []) if f.get("property") == pid], d.get("fixed", [])


def native_replay(C, pid, fc, ob, extra=None, override=None):
    """run the real function on the model's inputs; returns harness output dict"""
    rp = ob["info"].get("replay")
    if rp and override:
        rp = dict(rp)
        rp["params"] = dict(rp["params"])
        rp["params"].update(override)
    if not rp or fc is None or not fc.file:
        return {"ok": False, "error": "no concrete input tree for this obligation"}
    real_classes = {}
    own = getattr(fc, "cset", None) or C           # the set the function belongs to (an extra set brings its own classes)
    for cname, spec in list(C.classes.items()) + list(own.classes.items()):
        if spec.file:
            real_classes[cname] = spec.file
    requires_of = {}
    for k, f2 in list(C.fns.items()) + [kv for kv in own.fns.items() if kv[0] not in C.fns]:
        if f2.requires and all(isinstance(t, str) for _, t in f2.requires):
            if f2.file:
                try:
                    a = f2.extracted.node.args
                    names = [x.arg for x in a.posonlyargs + a.args]
                    if names and names[0] in ("self", "cls"):
                        names = names[1:]
                except Exception:       # noqa
                    names = list(f2.params)
            else:
                names = list(f2.params)
            requires_of[k] = {"params": names, "requires": [{"label": l, "text": t} for l, t in f2.requires]}
    clauses = []
    from .verify import class_invariants
    inv = class_invariants(C, fc.key.split(".")[0]) if "." in fc.key and not fc.no_inv else []
    for label, text in fc.ensures + fc.ensures_exc + inv:
        if isinstance(text, str):
            clauses.append({"label": label, "text": text, "when": "post"})
    for nm, cond in fc.raises.items():
        if isinstance(cond, str):
            clauses.append({"label": "raises[%s]" % nm, "text": cond, "when": "raise-pre"})
    spec = {"pid": getattr(fc.cset, "replay_pid", pid), "file": fc.file, "qualname": fc.qualname, "params": rp["params"],
            "predicted": rp["predicted"], "ext_returns": rp["ext_returns"], "real_classes": real_classes,
            "requires_of": requires_of, "clauses": clauses, "lets": {k: v for k, v in fc.lets.items()},
            "symbols": ob.get("model") or {}}
    try:
        r = subprocess.run([NATIVE_PY, os.path.join(HERE, "replay", "harness.py")], input=json.dumps(spec, default=repr),
                           capture_output=True, text=True, timeout=120,
                           env=dict(os.environ, PYTHONPATH=REPO, PYVC_REPO=REPO), cwd=HERE)
    except subprocess.TimeoutExpired:
        return {"ok": False, "error": "native replay timed out", "spec": spec}
    try:
        out = json.loads(r.stdout)
    except Exception:       # noqa
        out = {"ok": False, "error": "harness output unreadable", "stdout": r.stdout[-1500:], "stderr": r.stderr[-1500:]}
    out["spec"] = spec
    return out


def judge_replay(ob, out):
    """did the native run exhibit the violation the obligation names?"""
    if not out.get("ok"):
        return False, "native harness failed: %s" % out.get("error")
    kind = ob["info"].get("kind")
    name = ob["name"]
    label = name.split(":", 1)[1] if ":" in name else name
    if kind in ("call-requires", "deferred-call-requires"):
        callee = ob["info"].get("callee")
        lab = label.split("@")[0]
        for v in out.get("violations", []):
            if v["callee"] == callee and v["label"] == lab and v["value"] is False:
                return True, "native run violates precondition %r of %s with args %s %s" % (
                    v["text"], callee, v["args"], v["kwargs"])
        return False, "native run did not violate this precondition (violations seen: %s)" % \
            [(v["callee"], v["label"]) for v in out.get("violations", [])]
    if kind in ("ensures", "ensures_exc", "class-invariant"):
        for c in out.get("clauses", []):
            if c["label"] == label:
                if c.get("value") is False:
                    obs = out.get("observed", {})
                    return True, "clause %r is false natively (observed %s %s)" % (
                        c["text"], obs.get("outcome"), obs.get("value", obs.get("exception")))
                if "error" in c:
                    break
                return False, "clause evaluates to %r natively" % c.get("value")
    if kind == "raises":
        obs = out.get("observed", {})
        if obs.get("outcome") == "raise" and (obs.get("exception") == ob["info"].get("exception") or
                                              ob["info"].get("exception") in obs.get("mro", [])):
            for c in out.get("clauses", []):
                if c["label"] == label and c.get("value") is True:
                    return False, "native run raises %s but the declared condition holds" % obs.get("exception")
            return True, "native run raises %s (%s) although the condition that permits it is false" % (
                obs.get("exception"), obs.get("message"))
    # fallback: predicted behaviour == observed behaviour => the symbolic path is the real one
    pred = out["spec"]["predicted"]
    obs = out.get("observed", {})
    if pred.get("outcome") == obs.get("outcome"):
        if pred.get("outcome") == "raise" and pred.get("exception") == obs.get("exception"):
            return True, "native run follows the predicted path (raises %s)" % obs.get("exception")
        if pred.get("outcome") == "return" and _same(pred.get("value"), obs.get("value")):
            return True, "native run follows the predicted path (returns %r)" % (obs.get("value"),)
    return False, "native behaviour differs from the engine's prediction for this model (predicted %s, observed %s)" % (
        {k: pred.get(k) for k in ("outcome", "value", "exception")},
        {k: obs.get(k) for k in ("outcome", "value", "exception")})


def _same(p, o):
    if isinstance(p, dict) and "$float" in p:
        try:
            return abs(p["$float"][0] / p["$float"][1] - float(o)) < 1e-9
        except Exception:       # noqa
            return False
    if isinstance(p, dict):
        return False
    return p == o


def run_property(pid, tier="quick", seed=0, only=None, jobs=None, no_replay=False):
    t0 = time.time()
    sys.path.insert(0, HERE)
    os.environ["PYVC_TIER"] = tier          # contract sets pick their bounds with contracts.common.bound()
    status = {"violations": [], "known": [], "undecided": [], "crashes": [], "vacuous": []}
    try:
        sets = load_sets(pid)
        C = sets[0]
    except Exception as e:      # noqa
        import traceback
        print("UNDECIDED: cannot build contracts for %s: %s: %s" % (pid, type(e).__name__, e))
        traceback.print_exc()
        return 2
    keys = [(si, k) for si, cs in enumerate(sets) for k, f in cs.fns.items()
            if f.verified and (not only or only in k) and (cs.only_verify is None or k in cs.only_verify)]
    # additional contract sets of the same property (e.g. a bounded scenario with its own models) are merged in
    for extra in sets[1:]:
        for k, f in extra.fns.items():
            if k in C.fns and f.verified:
                k2 = k + "#" + extra.pid
            else:
                k2 = k
            C.fns.setdefault(k2, f)
        C.assumptions.extend(a for a in extra.assumptions if a not in C.assumptions)
        # a restricted copy of another property's set (only_verify) brings the contracts named there, not that property's
        # native histories (they are run - and reported - under their own property)
        if extra.only_verify is None or getattr(extra, "keep_finite", False):
            C.finite_checks.extend(extra.finite_checks)
    opts = {"fn_timeout": 240 if tier == "quick" else 900, "strings": getattr(C, "strings", False), "tier": tier,
            "seed": seed}
    if tier == "thorough":
        os.environ["PYVC_VC_MS"] = os.environ.get("PYVC_VC_MS", "60000")
    tasks = []
    for k in keys:
        fc_ = sets[k[0]].fns.get(k[1]) if isinstance(k, tuple) else None
        n_sh = getattr(fc_, "shards", None) or 1
        if n_sh > 1:
            # the paths of one heavy function are proved by several workers (every worker explores all paths, each
            # proves the obligations of its share)
            tasks.extend((pid, k, dict(opts, shard=(i_, n_sh))) for i_ in range(n_sh))
        else:
            tasks.append((pid, k, opts))
    jobs = jobs or min(16, max(1, len(tasks)))
    with mp.Pool(jobs, maxtasksperchild=4) as pool:
        results = pool.map(_worker, tasks, chunksize=1)
    # ---------------- aggregate
    byname = {}
    vcs = 0
    fn_rows = []
    solver_secs = 0.0
    backends = {}
    for r in results:
        solver_secs += r.get("solver_secs", 0)
        row = {"key": r["key"], "paths": r["paths"], "paths_completed": r["paths_completed"],
               "paths_infeasible": r["paths_infeasible"], "exits": r.get("exits"), "secs": r["secs"],
               "vcs": len(r["obligations"]), "notes": r.get("notes", []),
               "infeasible_reasons": r.get("abort_reasons", {}), "callsites": r.get("callsites", [])}
        if r.get("describe"):
            row.update({"file": r["describe"]["file"], "sha256": r["describe"]["sha256"],
                        "lines": r["describe"]["lines"], "dropped": r["describe"]["dropped"]})
        fn_rows.append(row)
        for u in r.get("unsupported", []):
            status["undecided"].append("%s: unsupported: %s" % (r["key"], u))
        for u in r.get("spec_errors", []):
            status["crashes"].append("%s: contract error: %s" % (r["key"], u))
        for u in r.get("crashes", []):
            status["crashes"].append("%s: engine crash: %s" % (r["key"], u))
        if r["paths_completed"] == 0 and not r.get("unsupported") and not r.get("crashes") and \
                not r.get("spec_errors"):
            status["vacuous"].append("%s: no path reaches an exit (contradictory precondition/contracts)" % r["key"])
        for cs in r.get("callsites", []):
            if cs["reached"] > 0 and cs["returns"] == 0:
                status["vacuous"].append("%s: the call of %s at line %s can never return normally under its contract "
                                         "(postcondition inconsistent with every caller state: contract error)" %
                                         (r["key"], cs["callee"], cs["line"]))
        if not r["obligations"] and r["key"] in C.fns and C.fns[r["key"]].ensures:
            status["vacuous"].append("%s: zero obligations generated" % r["key"])
        for ob in r["obligations"]:
            vcs += 1
            backends[ob["backend"]] = backends.get(ob["backend"], 0) + 1
            a = byname.setdefault(ob["name"], {"name": ob["name"], "clause": ob["clause"], "fn": r["key"],
                                               "vcs": 0, "discharged": 0, "refuted": [], "undecided": 0,
                                               "secs": 0.0, "backends": set()})
            a["vcs"] += 1
            a["secs"] += ob["secs"]
            a["backends"].add(ob["backend"])
            if ob["status"] == "discharged":
                a["discharged"] += 1
            elif ob["status"] == "refuted":
                a["refuted"].append(ob)
            else:
                a["undecided"] += 1
    # ---------------- finite / structural checks of the contract set
    finite_rows = []
    for chk in getattr(C, "finite_checks", []):
        try:
            for name, ok, detail in chk(C):
                finite_rows.append({"name": name, "ok": bool(ok), "detail": detail})
                # native histories / bounded enumerations on the real code are evidence, not proof: they are reported with
                # the bounded checks and never counted among the obligations proved
                fkind = "native-check" if name.startswith("native") else "finite-check"
                a = byname.setdefault(name, {"name": name, "clause": detail if isinstance(detail, str) else str(detail),
                                             "fn": fkind, "vcs": 0, "discharged": 0, "refuted": [],
                                             "undecided": 0, "secs": 0.0, "backends": {"enumeration"}})
                a["vcs"] += 1
                vcs += 1
                backends["enumeration"] = backends.get("enumeration", 0) + 1
                if ok:
                    a["discharged"] += 1
                else:
                    a["refuted"].append({"name": name, "clause": str(detail), "status": "refuted",
                                         "backend": "enumeration", "secs": 0, "path": None,
                                         "info": {"kind": "finite-check", "detail": detail}})
        except Exception as e:      # noqa
            import traceback
            status["crashes"].append("finite check crashed: %s: %s %s" % (type(e).__name__, e,
                                                                         traceback.format_exc()[-800:]))
    # ---------------- refuted obligations: replay, known findings
    known, fixed = load_known(pid)
    os.makedirs(os.path.join(HERE, "out", "replay"), exist_ok=True)
    bounded_fns = {k: f.bounded for k, f in C.fns.items() if f.bounded}
    for k, f in list(C.fns.items()):
        # a bounded contract merged in from an extra set under "<key>#<pid>": its obligations carry the plain key
        if f.bounded and "#" in k and not (C.fns.get(f.key) is not None and C.fns[f.key].verified):
            bounded_fns[f.key] = f.bounded
    if any(a["fn"] == "native-check" for a in byname.values()):
        bounded_fns["native-check"] = "BOUNDED: histories / enumerations run natively on the real code (finite; not proofs)"
    n_obl = len([n for n, a in byname.items() if a["fn"] not in bounded_fns])
    n_dis = 0
    n_b_obl = len(byname) - n_obl
    n_b_ok = 0
    und_names = []
    for name, a in sorted(byname.items()):
        if a["refuted"]:
            ob = a["refuted"][0]
            fc = C.fns.get(a["fn"])
            if fc is None or not fc.verified:
                # the main set only assumes this function (ext); an extra set verifies it
                for k_, f_ in C.fns.items():
                    if k_.startswith(a["fn"] + "#") and f_.verified:
                        fc = f_
                        break
            kf = None
            for k in known:
                if k.get("obligation") == name:
                    kf = k
                    break
            rep_path = os.path.join(HERE, "out", "replay", "%s-%s.json" % (pid, sanitize(name)))
            if ob["info"].get("kind") == "structure":
                out = {"ok": True}
                reproduced, why = True, "structural fact of the current tree: %s" % ob["clause"]
            elif ob["info"].get("kind") == "finite-check":
                out = {"ok": True, "finite": ob["info"].get("detail")}
                reproduced, why = True, "finite check on the real tree failed: %s" % (ob["info"].get("detail"),)
            elif no_replay:
                out, reproduced, why = {"ok": False}, False, "replay skipped"
            else:
                out = native_replay(C, pid, fc, ob)
                reproduced, why = judge_replay(ob, out)
                if not reproduced:
                    # try the other witnesses of the same obligation (other paths)
                    for ob2 in a["refuted"][1:4]:
                        out2 = native_replay(C, pid, fc, ob2)
                        rep2, why2 = judge_replay(ob2, out2)
                        if rep2:
                            ob, out, reproduced, why = ob2, out2, rep2, why2
                            break
                if not reproduced and fc is not None and fc.replay_seeds:
                    # abstract models (uninterpreted string functions): try the contract's adversarial seeds
                    for prm, seeds in fc.replay_seeds.items():
                        for sd in seeds:
                            out2 = native_replay(C, pid, fc, ob, override={prm: sd})
                            rep2, why2 = judge_replay(ob, out2)
                            if rep2:
                                out, reproduced, why = out2, rep2, why2 + " [seed %s=%r]" % (prm, sd)
                                break
                        if reproduced:
                            break
            rec = {"property": pid, "obligation": name, "clause": a["clause"], "function": a["fn"],
                   "file": getattr(fc, "file", None), "backend": ob["backend"], "model": ob.get("model"),
                   "path": ob.get("path"), "info": {k: v for k, v in ob["info"].items() if k != "replay"},
                   "reproduced": reproduced, "why": why, "native": {k: v for k, v in out.items() if k != "spec"},
                   "inputs": (ob["info"].get("replay") or {}).get("params"),
                   "predicted": (ob["info"].get("replay") or {}).get("predicted"),
                   "rerun": "cd /verif && ./check %s --tier quick --only %s" % (pid, a["fn"])}
            with open(rep_path, "w") as f:
                json.dump(rec, f, indent=1, default=repr)
            if kf is not None and kf.get("assume_not") and fc is not None:
                # the finding is identified by an input class: the same obligation must hold outside it
                o2 = dict(opts)
                o2["extra_requires"] = {a["fn"]: ["not (%s)" % kf["assume_not"]]}
                r2 = _worker((pid, a["fn"], o2))
                still = [o for o in r2["obligations"] if o["name"] == name and o["status"] == "refuted"]
                if still:
                    kf = None
                    ob = still[0]
                    out = native_replay(C, pid, fc, ob)
                    reproduced, why = judge_replay(ob, out)
                    why = "fails also outside the known input class: " + why
            if kf is not None:
                status["known"].append((name, kf, rep_path))
            elif ob["info"].get("weak") and not reproduced:
                status["undecided"].append("%s: candidate counterexample (quantified assumptions instantiated) was "
                                           "not confirmed by the native replay: %s" % (name, why))
            else:
                status["violations"].append((name, rep_path, reproduced, why))
        elif a["undecided"]:
            und_names.append(name)
            status["undecided"].append("%s: %d VC(s) undecided by all back ends" % (name, a["undecided"]))
        elif a["fn"] in bounded_fns:
            n_b_ok += 1
        else:
            n_dis += 1
    # ---------------- output
    wall = time.time() - t0
    samples = []
    for name, a in list(sorted(byname.items()))[:6]:
        samples.append({"obligation": name, "clause": a["clause"], "vcs": a["vcs"],
                        "status": "discharged" if a["discharged"] == a["vcs"] else "not discharged",
                        "backends": sorted(a["backends"])})
    trusted = ["pyvc engine encoding of Python semantics (A-ENGINE)", "z3 %s / cvc5 answers (A-SOLVER)" % _z3v()]
    for k, f in C.fns.items():
        if f.external:
            trusted.append("assumed contract %s: %s" % (k, f.trusted_reason or "external dependency"))
        elif f.inline:
            trusted.append("%s inlined at call sites (its body is executed, not its contract)" % k)
    known_names = {n for n, _, _ in status["known"]}
    n_known = len([n for n in known_names if byname[n]["fn"] not in bounded_fns])
    ev = {
        "property_id": pid, "tier": tier, "seed": seed, "level": "proof",
        "coverage": {
            # obligations claimed as proved: known-finding obligations (refuted on the real code, listed below) and
            # bounded checks are reported separately and are NOT part of this count
            "obligations": n_obl - n_known, "discharged": n_dis, "vcs": vcs,
            "obligations_total_including_known_findings": n_obl, "known_finding_obligations": n_known,
            "checker_cmd": "./check %s --tier %s" % (pid, tier),
            "trusted_base": trusted,
            "back_ends": backends, "solver_secs": round(solver_secs, 3),
            "functions_under_contract": fn_rows,
            "obligation_table": [{"name": n, "clause": a["clause"], "vcs": a["vcs"], "discharged": a["discharged"],
                                  "refuted": len(a["refuted"]), "undecided": a["undecided"],
                                  "secs": round(a["secs"], 4), "backends": sorted(a["backends"])}
                                 for n, a in sorted(byname.items())],
            "finite_checks": finite_rows,
            "undecided": status["undecided"], "vacuity": status["vacuous"],
            "known_findings": [{"obligation": n, "id": k.get("id"), "what": k.get("what")} for n, k, _ in status["known"]],
            "fixed": [f for f in fixed if ("property=%s " % pid) in f],
            "samples": samples,
            "explanation": getattr(C, "explanation", C.title),
            "bounded": getattr(C, "bounded", []),
            "bounded_checks": {"functions": bounded_fns, "obligations": n_b_obl, "held_within_bound": n_b_ok,
                               "note": "not counted in obligations/discharged"},
        },
        "assumptions": list(C.assumptions),
        "wall_s": round(wall, 2),
        "violations": len(status["violations"]),
    }
    # evidence/ describes /repo itself; runs against a scratch copy (PYVC_REPO: mutants, seeded or benign changes)
    # write their record under out/ instead
    from . import extract as _X
    ev["coverage"]["repo_under_check"] = _X.REPO
    evdir = os.path.join(HERE, "evidence") if (os.path.realpath(_X.REPO) == "/repo" and not only) else \
        os.path.join(HERE, "out", "evidence_scratch")      # partial runs (--only / --replay) are not the record
    os.makedirs(evdir, exist_ok=True)
    with open(os.path.join(evdir, "%s.json" % pid), "w") as f:
        json.dump(ev, f, indent=1, default=repr)
    print("%s %s: %d functions, %d obligations (%d VCs): %d discharged, %d refuted, %d undecided; %.1fs wall, "
          "%.1fs solver" % (pid, tier, len(keys), n_obl, vcs, n_dis, len(status["violations"]) + len(status["known"]),
                            len(und_names), wall, solver_secs))
    for name, kf, rp in status["known"]:
        print("KNOWN-FINDING: property=%s %s [%s] %s" % (pid, kf.get("id", ""), name, kf.get("what", "")))
    for x in status["undecided"]:
        print("UNDECIDED: %s" % x)
    for x in status["vacuous"]:
        print("VACUOUS: %s" % x)
    for x in status["crashes"]:
        print("CHECKER-ERROR: %s" % x[:1500])
    for name, rp, reproduced, why in status["violations"]:
        print("  refuted obligation %s\n    %s" % (name, why))
        print("VIOLATION property=%s replay=%s%s" % (pid, rp, "" if reproduced else " no-failing-input-found"))
    if status["violations"]:
        return 1
    if status["crashes"] or status["vacuous"]:
        return 3
    if status["undecided"]:
        return 2
    if n_obl == 0:
        print("VACUOUS: zero obligations")
        return 3
    return 0


def _z3v():
    try:
        import z3
        return z3.get_version_string()
    except Exception:       # noqa
        return "?"


def show_replay(path):
    d = json.load(open(path))
    print(json.dumps({k: d.get(k) for k in ("property", "obligation", "clause", "function", "reproduced", "why",
                                            "inputs", "rerun")}, indent=1, default=repr))
    pid, fn = d["property"], d["function"]
    return run_property(pid, "quick", 0, only=fn)


def main():
    ap = argparse.ArgumentParser()
    ap.add_argument("pid")
    ap.add_argument("--tier", default=os.environ.get("VERIF_TIER", "quick"))
    ap.add_argument("--only", default=None)
    ap.add_argument("--replay", default=None)
    ap.add_argument("--jobs", type=int, default=None)
    ap.add_argument("--no-replay", action="store_true")
    a = ap.parse_args()
    seed = int(os.environ.get("VERIF_SEED", "0") or 0)
    if a.replay:
        sys.exit(show_replay(a.replay))
    sys.exit(run_property(a.pid, a.tier, seed, a.only, a.jobs, a.no_replay))


if __name__ == "__main__":
    main()
