"""Symbolic interpreter for the supported Python subset (DESIGN.md 2.2-2.7).

One interpreter evaluates both the real function bodies and the contract
clauses (which are Python expressions over the parameters, ``result``,
``old(...)`` and spec helpers).
"""
import ast

import z3

from .ctx import PathAbort, Unsupported, SpecError, WouldFork
from .vals import *   # noqa
from . import vals as V

BUILTIN_EXC = {
    "BaseException": None, "Exception": "BaseException", "AssertionError": "Exception",
    "ValueError": "Exception", "TypeError": "Exception", "LookupError": "Exception",
    "KeyError": "LookupError", "IndexError": "LookupError", "AttributeError": "Exception",
    "ArithmeticError": "Exception", "ZeroDivisionError": "ArithmeticError", "OverflowError": "ArithmeticError",
    "RuntimeError": "Exception", "NotImplementedError": "RuntimeError", "StopIteration": "Exception",
    "OSError": "Exception", "IOError": "OSError", "FileNotFoundError": "OSError", "CancelledError": "BaseException",
    "TimeoutError": "Exception", "UnicodeDecodeError": "ValueError", "NameError": "Exception",
}


class HypInfeasible(Exception):
    """inside a spec sub-expression evaluated under a hypothesis that is impossible on this path"""


class Raised(Exception):
    def __init__(self, exc):
        super().__init__(exc.cls)
        self.exc = exc


class ReturnEx(Exception):
    def __init__(self, val):
        self.val = val


class BreakEx(Exception):
    pass


class ContinueEx(Exception):
    pass


class Heap:
    def __init__(self):
        self.data = {}
        self.ver = {}

    def snapshot(self):
        h = Heap()
        h.data = dict(self.data)
        h.ver = dict(self.ver)
        return h


class TraceEv:
    def __init__(self, name, args, ret=None):
        self.name = name
        self.args = args
        self.ret = ret

    def __repr__(self):
        return "Ev(%s %r)" % (self.name, self.args)


class Frame:
    def __init__(self, fc, env):
        self.fc = fc
        self.env = env
        self.loop_ord = 0


MISSING = object()


class Interp:
    def __init__(self, cset, ctx):
        self.cset = cset
        self.ctx = ctx
        self.heap = Heap()
        self.snapshots = []
        self.trace = []
        self.frames = []
        self.spec_depth = 0
        self.old_heap = None
        self.old_trace_len = 0
        self.result = None
        self.ghost = Obj("Ghost", ObjS("Ghost", cset.ghost), "ghost")
        self.inputs = {}           # symbol name -> description (for replay)
        self.call_depth = 0
        self.notes = []
        self.modified = set()      # heap keys written on this path
        self.rely_modified = set() # heap keys changed by the environment (rely) on this path
        self.spec_env_extra = {}
        self.hyp = []
        self.ext_returns = []
        V.OBJREG.clear()
        self.creating_new = 0
        self.loop_entry_heaps = []
        self.iter_old_heap = None
        self.trace_base = 0        # clauses of a callee evaluated at a call site see only the events it emits
        self.callsites = {}        # (callee, line) -> [reached, normal return feasible]
        self.dmap_keys = {}        # Ref -> key terms used on this path (for model concretisation)
        self.shadowed = []         # newer heaps swapped out while an older state is being evaluated (old(), ...)
        self.undeclared_fields = set()
        self.loop_aliases = []     # per active loop contract: contract name -> actual local name (renamed locals)

    # ================================================================ fresh
    def fresh(self, shape, name):
        ctx = self.ctx
        if isinstance(shape, Lazy):
            shape = self.cset.shapes[shape.name]
        if shape is Int:
            return VInt(z3.Int(name))
        if shape is Real:
            return VReal(z3.Real(name))
        if shape is Bool:
            return VBool(z3.Bool(name))
        if shape is Str:
            return VStr(z3.String(name))
        if shape is Bytes:
            s = z3.String(name)
            return VStr(s, True)
        if shape is NoneT:
            return NONE
        if shape is Fn:
            return VOpaque("Fn", z3.Const(name, usort("Fn")))
        if isinstance(shape, Const):
            return self.const(shape.value)
        if isinstance(shape, Init):
            return shape.fn(self, name)
        if isinstance(shape, Opaque):
            return VOpaque(shape.sort, z3.Const(name, usort(shape.sort)))
        if isinstance(shape, Union):
            alts = []
            flat = []
            for a in shape.alts:
                if isinstance(a, Lazy):
                    a = self.cset.shapes[a.name]
                if isinstance(a, Union):
                    flat.extend(a.alts)
                else:
                    flat.append(a)
            if len(flat) == 1:
                return self.fresh(flat[0], name)
            tag = z3.Int(name + "?tag")
            ctx.assume(z3.And(tag >= 0, tag < len(flat)))
            for i, a in enumerate(flat):
                alts.append((tag == i, self.fresh(a, name if a in (NoneT,) else "%s?%s" % (name, _sname(a)))))
            return VUnion(alts)
        if isinstance(shape, Rec):
            return VObj(Obj("dict", shape, name, kind="rec"))
        if isinstance(shape, ObjS):
            return VObj(Obj(shape.cls, shape, name))
        if isinstance(shape, Seq):
            ref = Ref(name)
            self.init_loc((ref, "$"), LSeq(z3.Const(name, z3.SeqSort(z3sort(shape.elem))), shape.elem))
            return VList(ref)
        if isinstance(shape, ListOf):
            ref = Ref(name)
            self.init_loc((ref, "$"), LConc([self.fresh(shape.elem, "%s[%d]" % (name, i)) for i in range(shape.n)]))
            return VList(ref)
        if isinstance(shape, MapS):
            ref = Ref(name)
            arr = z3.Const(name, z3.ArraySort(z3sort(shape.k), z3sort(shape.v)))
            dom = z3.Const(name + "?dom", z3.ArraySort(z3sort(shape.k), z3.BoolSort()))
            self.init_loc((ref, "$"), DMap(arr, dom, shape.k, shape.v))
            return VDict(ref)
        if isinstance(shape, TupleS):
            return VTuple([self.fresh(s, "%s.%d" % (name, i)) for i, s in enumerate(shape.items)],
                          shape.ntname, shape.fields)
        raise Unsupported("cannot create a fresh value of shape %r" % (shape,))

    def init_loc(self, key, content):
        self.heap.data[key] = content
        if self.creating_new:
            return          # a container created during execution (callee result, havoc): not part of older states
        for s in self.snapshots + self.shadowed:
            if key not in s.data and s.ver.get(key, 0) == self.heap.ver.get(key, 0):
                s.data[key] = content
        if self.old_heap is not None and key not in self.old_heap.data:
            self.old_heap.data[key] = content

    def const(self, v):
        if v is None:
            return NONE
        if isinstance(v, bool):
            return VBool(v)
        if isinstance(v, int):
            return VInt(v)
        if isinstance(v, float):
            return VReal(v)
        if isinstance(v, (str, bytes)):
            return VStr(v)
        if isinstance(v, tuple):
            return VTuple([self.const(x) for x in v])
        if isinstance(v, Val):
            return v
        if isinstance(v, Obj):
            return VObj(v)
        raise Unsupported("constant %r" % (v,))

    def new_list(self, items, name="list"):
        self.ctx.fresh_n += 1
        ref = Ref("%s#%d" % (name, self.ctx.fresh_n))
        self.heap.data[(ref, "$")] = LConc(items)
        return VList(ref)

    def new_dict(self, entries, name="dict"):
        self.ctx.fresh_n += 1
        ref = Ref("%s#%d" % (name, self.ctx.fresh_n))
        self.heap.data[(ref, "$")] = DConc(entries)
        return VDict(ref)

    def new_set(self, items, name="set"):
        self.ctx.fresh_n += 1
        ref = Ref("%s#%d" % (name, self.ctx.fresh_n))
        self.heap.data[(ref, "$")] = SConc(items)
        return VSet(ref)

    def fresh_name(self, base):
        self.ctx.fresh_n += 1
        return "%s!%d" % (base, self.ctx.fresh_n)

    # ================================================================ heap
    def field_shape(self, obj, name):
        if obj.shape is not None and name in obj.shape.fields:
            return obj.shape.fields[name]
        if obj.kind == "obj":
            sh = self.cset.class_field_shape(obj.cls, name)
            if sh is None:
                sh = self._inferred_field_shape(obj.cls, name)
            return sh
        return None

    def _class_constant(self, cls, name):
        """a class-level constant `NAME = <literal arithmetic>` read from the class's real source"""
        spec = self.cset.classes.get(cls)
        if spec is None or not spec.file:
            return None
        from . import extract as X
        try:
            src, tree = X.load_module(spec.file)
        except Exception:       # noqa
            return None
        for n in ast.walk(tree):
            if isinstance(n, ast.ClassDef) and n.name == cls:
                for st in n.body:
                    if isinstance(st, ast.Assign) and len(st.targets) == 1 and isinstance(st.targets[0], ast.Name) and \
                            st.targets[0].id == name:
                        if all(isinstance(x, (ast.Constant, ast.BinOp, ast.UnaryOp, ast.operator, ast.unaryop, ast.Load))
                               for x in ast.walk(st.value)):
                            self.frames.append(Frame(None, {}))
                            try:
                                return self.eval(st.value)
                            finally:
                                self.frames.pop()
        return None

    def _inferred_field_shape(self, cls, name):
        """a private attribute the contract set does not declare (e.g. state introduced by a change): if the class's
        real source initialises it in __init__ with a literal, it is explored as an ARBITRARY value of that literal's
        type (bool / int / float / str / None-or-unknown); noted in the evidence.  Nothing is assumed about it."""
        cache = self.__dict__.setdefault("_inferred_fields", {})
        if (cls, name) in cache:
            return cache[(cls, name)]
        sh = None
        spec = self.cset.classes.get(cls)
        if spec is not None and spec.file and name.startswith("_"):
            from . import extract as X
            try:
                node, _ = X.find_def(spec.file, cls + ".__init__")
            except X.ExtractError:
                node = None
            if node is not None:
                for st in ast.walk(node):
                    if isinstance(st, ast.Assign) and len(st.targets) == 1 and isinstance(st.targets[0], ast.Attribute) \
                            and isinstance(st.targets[0].value, ast.Name) and st.targets[0].value.id == "self" and \
                            st.targets[0].attr == name and isinstance(st.value, ast.Constant):
                        v = st.value.value
                        from .vals import Bool as _B, Int as _I, Real as _R, Str as _S
                        sh = {bool: _B, int: _I, float: _R, str: _S}.get(type(v))
                        break
                    if isinstance(st, (ast.Assign, ast.AnnAssign)) and isinstance(
                            st.targets[0] if isinstance(st, ast.Assign) else st.target, ast.Attribute):
                        tg = st.targets[0] if isinstance(st, ast.Assign) else st.target
                        if isinstance(tg.value, ast.Name) and tg.value.id == "self" and tg.attr == name and \
                                st.value is not None and ast.unparse(st.value) in ("{}", "dict()"):
                            # a cache / table that starts empty: explored with ARBITRARY content (string keys)
                            from .vals import MapS as _M, Str as _S2, Opaque as _O
                            sh = _M(_S2, _O("Any"))
                            break
        if sh is not None:
            self.note("attribute %s.%s is not declared by the contract set: explored as an arbitrary value of the type "
                      "its __init__ gives it" % (cls, name))
        cache[(cls, name)] = sh
        return sh

    def read_field(self, obj, name, heap=None):
        h = heap or self.heap
        key = (obj, name)
        if key in h.data:
            return h.data[key]
        shape = self.field_shape(obj, name)
        if shape is None:
            return MISSING
        ver = h.ver.get(key, 0)
        sym = "%s.%s" % (obj.name, name) + ("!%d" % ver if ver else "")
        saved = self.heap
        self.heap = h
        before = set(h.data.keys())
        try:
            v = self.fresh(shape, sym)
        finally:
            self.heap = saved
        if ver == 0 and not self.creating_new:
            # everything created while materialising initial state belongs to the older states as well
            for k2 in set(h.data.keys()) - before:
                for s_ in self.snapshots + self.shadowed + [self.heap] + \
                        ([self.old_heap] if self.old_heap is not None else []):
                    if s_ is not h and k2 not in s_.data:
                        s_.data[k2] = h.data[k2]
        h.data[key] = v
        for s in self.snapshots + self.shadowed + [self.heap] + \
                ([self.old_heap] if self.old_heap is not None else []):
            if s is not h and key not in s.data and s.ver.get(key, 0) == ver:
                s.data[key] = v
        return v

    def write_field(self, obj, name, val):
        if self.spec_depth:
            raise SpecError("assignment inside a contract clause")
        self.heap.data[(obj, name)] = val
        self.modified.add((obj, name))

    def havoc_field(self, obj, name):
        key = (obj, name)
        cur = self.heap.data.get(key)
        self.heap.ver[key] = self.ctx.fresh_n = self.ctx.fresh_n + 1
        self.heap.data.pop(key, None)
        self.modified.add(key)
        # containers/objects reachable through the field keep identity but their contents are havoced
        if isinstance(cur, VObj):
            pass

    def container(self, ref, heap=None):
        h = heap or self.heap
        c = h.data.get((ref, "$"))
        if c is None:
            raise Unsupported("container %s has no content" % ref.name)
        return c

    def set_container(self, ref, content):
        if self.spec_depth:
            raise SpecError("mutation inside a contract clause")
        self.heap.data[(ref, "$")] = content
        self.modified.add((ref, "$"))

    # ================================================================ coercions
    def force(self, v):
        """union -> single alternative (forks the path)"""
        while isinstance(v, VUnion):
            if self.hyp:
                # inside the consequent of a spec implication / conjunction: alternatives excluded by the
                # hypothesis are not considered (the value is only used under the hypothesis)
                feas = []
                for i, (g, _) in enumerate(v.alts):
                    if z3.is_false(z3.simplify(g)):
                        continue
                    if self.ctx.solver.check(*(self.hyp + [g])) != z3.unsat:
                        feas.append(i)
                if len(feas) == 1:
                    v = v.alts[feas[0]][1]
                    continue
                if not feas:
                    raise HypInfeasible()
            i = self.ctx.choose([g for g, _ in v.alts])
            v = v.alts[i][1]
        return v

    def truth(self, v):
        if isinstance(v, VUnion):
            return z3.Or([z3.And(g, self.truth(a)) for g, a in v.alts])
        t = v.tag
        if t == "bool":
            return v.t
        if t == "none":
            return z3.BoolVal(False)
        if t == "int":
            return v.t != 0
        if t == "real":
            return v.t != 0
        if t == "str":
            return z3.Length(v.t) > 0
        if t == "tuple":
            return z3.BoolVal(len(v.items) > 0)
        if t == "list":
            c = self.container(v.ref)
            if isinstance(c, LConc):
                return z3.BoolVal(len(c.items) > 0)
            return z3.Length(c.term) > 0
        if t == "dict":
            c = self.container(v.ref)
            if isinstance(c, DConc):
                return z3.BoolVal(len(c.entries) > 0)
            return z3.Bool("nonempty:" + v.ref.name)       # an abstract map is empty or not (unknown)
        if t == "set":
            c = self.container(v.ref)
            return z3.BoolVal(len(c.items) > 0)
        if t == "opaque" and v.sort == "PyObj":
            return z3.Function("py_truth", usort("PyObj"), z3.BoolSort())(v.t)     # truthiness of an unknown object
        if t in ("obj", "fn", "cls", "opaque", "exc"):
            if t == "obj" and v.ref.kind == "rec" and v.ref.shape is not None and not v.ref.shape.fields:
                return z3.BoolVal(False)
            if t == "obj" and v.ref.kind != "rec":
                fc = self.cset.lookup_method(v.ref.cls, "__len__")
                if fc is not None and fc.external and fc.model is not None:
                    n = self.force(fc.model(self, {"self": v}, [], {}))
                    return n.t != 0          # a container object is true iff it is not empty
            return z3.BoolVal(True)
        raise Unsupported("truthiness of %r" % v)

    def is_none(self, v):
        if isinstance(v, VUnion):
            return z3.simplify(z3.Or([g for g, a in v.alts if a.tag == "none"] + [z3.BoolVal(False)]))
        return z3.BoolVal(v.tag == "none")

    def num(self, v, what="operand"):
        """numeric payload: returns (kind, term) with kind int|real; bools -> int"""
        v = self.force(v)
        if v.tag == "int":
            return "int", v.t
        if v.tag == "bool":
            return "int", z3.If(v.t, z3.IntVal(1), z3.IntVal(0))
        if v.tag == "real":
            return "real", v.t
        return None, None

    def raise_(self, cls, *args):
        raise Raised(VExc(cls, args))

    def exc_is(self, cls, base):
        seen = 0
        c = cls
        while c is not None and seen < 50:
            if c == base:
                return True
            c = self.cset.exceptions.get(c, BUILTIN_EXC.get(c))
            seen += 1
        return False

    # ================================================================ operators
    def binop(self, op, a, b):
        a = self.force(a)
        b = self.force(b)
        ka, ta = self.num(a)
        kb, tb = self.num(b)
        opn = type(op).__name__
        if ka and kb:
            if opn in ("Add", "Sub", "Mult"):
                f = {"Add": lambda x, y: x + y, "Sub": lambda x, y: x - y, "Mult": lambda x, y: x * y}[opn]
                if ka == "int" and kb == "int":
                    return VInt(f(ta, tb))
                return VReal(f(_real(ka, ta), _real(kb, tb)))
            if opn == "Div":
                if self.ctx.branch(_real(kb, tb) == 0):
                    self.raise_("ZeroDivisionError")
                return VReal(_real(ka, ta) / _real(kb, tb))
            if opn in ("FloorDiv", "Mod"):
                if ka == "int" and kb == "int":
                    if self.ctx.branch(tb == 0):
                        self.raise_("ZeroDivisionError")
                    q = z3.If(tb > 0, ta / tb, (-ta) / (-tb))
                    if opn == "FloorDiv":
                        return VInt(q)
                    if z3.is_int_value(tb) and tb.as_long() > 0:
                        return VInt(ta % tb)
                    return VInt(ta - tb * q)
                ra, rb = _real(ka, ta), _real(kb, tb)
                if self.ctx.branch(rb == 0):
                    self.raise_("ZeroDivisionError")
                q = z3.ToReal(z3.ToInt(ra / rb))
                if opn == "FloorDiv":
                    return VReal(q)
                return VReal(ra - rb * q)
            if opn == "Pow":
                sa_, sb_ = z3.simplify(ta), z3.simplify(tb)
                if ka == "int" and kb == "int" and z3.is_int_value(sa_) and z3.is_int_value(sb_) and \
                        0 <= sb_.as_long() <= 4096:
                    return VInt(z3.IntVal(sa_.as_long() ** sb_.as_long()))
                if z3.is_int_value(tb) and kb == "int" and 0 <= tb.as_long() <= 4:
                    r = z3.IntVal(1) if ka == "int" else z3.RealVal(1)
                    for _ in range(tb.as_long()):
                        r = r * ta
                    return VInt(r) if ka == "int" else VReal(r)
                raise Unsupported("** with symbolic exponent")
            if opn in ("BitXor", "BitAnd", "BitOr", "LShift", "RShift") and ka == "int" and kb == "int":
                return self.bitop(opn, ta, tb, a, b)
        if opn == "Add":
            if a.tag == "str" and b.tag == "str":
                return VStr(z3.Concat(a.t, b.t), a.is_bytes)
            if a.tag == "tuple" and b.tag == "tuple":
                return VTuple(a.items + b.items)
            if a.tag == "list" and b.tag == "list":
                ca, cb = self.container(a.ref), self.container(b.ref)
                if isinstance(ca, LConc) and isinstance(cb, LConc):
                    return self.new_list(ca.items + cb.items)
                if isinstance(ca, LSeq) or isinstance(cb, LSeq):
                    el = ca.elem if isinstance(ca, LSeq) else cb.elem
                    ref = Ref(self.fresh_name("concat"))
                    self.heap.data[(ref, "$")] = LSeq(z3.Concat(self.seq_term(ca, el), self.seq_term(cb, el)), el)
                    return VList(ref)
        if opn == "Mult" and a.tag == "list" and kb == "int":
            ca = self.container(a.ref)
            nb = z3.simplify(tb)
            if isinstance(ca, LConc) and z3.is_int_value(nb):
                return self.new_list(ca.items * max(0, nb.as_long()))
            raise Unsupported("list * symbolic int")
        if opn == "Mult" and a.tag == "str" and kb == "int":
            raise Unsupported("str * int")
        if opn == "Mod" and a.tag == "str":
            return VStr(z3.String(self.fresh_name("fmt")))
        if opn in ("BitOr",) and a.tag == "bool" and b.tag == "bool":
            return VBool(z3.Or(a.t, b.t))
        if opn in ("BitAnd",) and a.tag == "bool" and b.tag == "bool":
            return VBool(z3.And(a.t, b.t))
        if opn in ("BitXor",) and a.tag == "bool" and b.tag == "bool":
            return VBool(z3.Xor(a.t, b.t))
        if self.spec_depth:
            raise SpecError("ill-typed operator %s on %r, %r" % (opn, a, b))
        self.raise_("TypeError", "unsupported operand type(s) for %s: %s and %s" % (opn, a.tag, b.tag))

    def bitop(self, opn, ta, tb, a, b):
        if opn == "BitXor" and a.tag == "bool" and b.tag == "bool":
            return VBool(z3.Xor(a.t, b.t))
        if opn in ("BitAnd", "BitOr") and a.tag == "bool" and b.tag == "bool":
            return VBool(z3.And(a.t, b.t) if opn == "BitAnd" else z3.Or(a.t, b.t))
        if opn == "LShift" and z3.is_int_value(tb):
            return VInt(ta * (2 ** tb.as_long()))
        if opn == "RShift" and z3.is_int_value(tb):
            return VInt(ta / (2 ** tb.as_long()))
        sa, sb = z3.simplify(ta), z3.simplify(tb)
        if z3.is_int_value(sa) and z3.is_int_value(sb):
            x, y = sa.as_long(), sb.as_long()
            r = {"BitXor": x ^ y, "BitAnd": x & y, "BitOr": x | y, "LShift": x << y if y >= 0 else 0,
                 "RShift": x >> y if y >= 0 else 0}[opn]
            return VInt(r)
        # symbolic operands: Python's integer bit operators as uninterpreted functions (no bit-level facts are
        # assumed; the same function symbol is used by code and clauses)
        self.note("integer bit operator %s on symbolic operands is an uninterpreted function" % opn)
        f = z3.Function("py_" + opn.lower(), z3.IntSort(), z3.IntSort(), z3.IntSort())
        return VInt(f(ta, tb))

    def cur_trace(self):
        return self.trace[self.trace_base:]

    def note(self, s):
        if s not in self.notes:
            self.notes.append(s)

    def eq(self, a, b):
        """z3 Bool for Python == (structural for the modelled types)"""
        if isinstance(a, VUnion):
            return z3.Or([z3.And(g, self.eq(x, b)) for g, x in a.alts])
        if isinstance(b, VUnion):
            return z3.Or([z3.And(g, self.eq(a, x)) for g, x in b.alts])
        ka, ta = self.num(a)
        kb, tb = self.num(b)
        if ka and kb:
            if ka == kb:
                return ta == tb
            return _real(ka, ta) == _real(kb, tb)
        if a.tag != b.tag:
            return z3.BoolVal(False)
        t = a.tag
        if t == "none":
            return z3.BoolVal(True)
        if t == "str":
            return a.t == b.t
        if t == "opaque":
            if a.sort != b.sort:
                return z3.BoolVal(False)
            return a.t == b.t
        if t == "tuple":
            if len(a.items) != len(b.items):
                return z3.BoolVal(False)
            return z3.And([self.eq(x, y) for x, y in zip(a.items, b.items)] + [z3.BoolVal(True)])
        if t == "obj":
            if a.ref is b.ref:
                return z3.BoolVal(True)
            ta, tb = getattr(a.ref, "term", None), getattr(b.ref, "term", None)
            if ta is not None and tb is not None and (a.ref.name.startswith("elem[") or b.ref.name.startswith("elem[")):
                return ta == tb      # elements read back from an abstract sequence may be the same object
            return z3.BoolVal(False)
        if t in ("list", "dict", "set"):
            if a.ref is b.ref:
                return z3.BoolVal(True)
            ca, cb = self.container(a.ref), self.container(b.ref)
            if isinstance(ca, LConc) and isinstance(cb, LConc):
                if len(ca.items) != len(cb.items):
                    return z3.BoolVal(False)
                return z3.And([self.eq(x, y) for x, y in zip(ca.items, cb.items)] + [z3.BoolVal(True)])
            if isinstance(ca, (LSeq, LConc)) and isinstance(cb, (LSeq, LConc)):
                el = ca.elem if isinstance(ca, LSeq) else cb.elem
                return self.seq_term(ca, el) == self.seq_term(cb, el)
            if isinstance(ca, DConc) and isinstance(cb, DConc):
                if len(ca.entries) != len(cb.entries):
                    return z3.BoolVal(False)
                cs = []
                for k, v in ca.entries:
                    w = cb.get(k)
                    if w is None:
                        return z3.BoolVal(False)
                    cs.append(self.eq(v, w))
                return z3.And(cs + [z3.BoolVal(True)])
            if isinstance(ca, DMap) and isinstance(cb, DMap):
                return z3.And(ca.arr == cb.arr, ca.dom == cb.dom)
            raise Unsupported("== on containers of different representation")
        if t == "fn":
            if a.kind != b.kind:
                return z3.BoolVal(False)
            if a.kind == "bound":
                return z3.BoolVal(a.obj is b.obj and a.name == b.name)
            if a.kind == "func":
                return z3.BoolVal(a.key == b.key)
            return z3.BoolVal(a is b)
        if t == "cls":
            return z3.BoolVal(a.name == b.name)
        if t == "exc":
            return z3.BoolVal(a is b)
        raise Unsupported("== on %r" % a)

    def seq_term(self, c, elem):
        if isinstance(c, LSeq):
            return c.term
        if not c.items:
            return z3.Empty(z3.SeqSort(z3sort(elem)))
        units = [z3.Unit(to_term(self.force(x), elem)) for x in c.items]
        return z3.Concat(*units) if len(units) > 1 else units[0]

    def compare(self, op, a, b):
        opn = type(op).__name__
        if opn in ("Is", "IsNot"):
            if b.tag == "none" or a.tag == "none":
                other = a if b.tag == "none" else b
                r = self.is_none(other)
            else:
                a2, b2 = self.force(a), self.force(b)
                if a2.tag in ("bool",) and b2.tag == "bool":
                    r = a2.t == b2.t
                elif a2.tag != b2.tag:
                    r = z3.BoolVal(False)
                elif a2.tag == "obj":
                    r = z3.BoolVal(a2.ref is b2.ref)
                elif a2.tag in ("list", "dict", "set"):
                    r = z3.BoolVal(a2.ref is b2.ref)
                else:
                    r = self.eq(a2, b2)
            return VBool(r if opn == "Is" else z3.Not(r))
        if opn in ("Eq", "NotEq"):
            if not isinstance(a, VUnion) and getattr(a, "tag", None) == "obj" and a.ref.kind != "rec":
                fc = self.cset.lookup_method(a.ref.cls, "__eq__")
                if fc is not None:
                    r = self.truth(self.call_contract(fc, a, [b], {}, None))
                    return VBool(r if opn == "Eq" else z3.Not(r))
            r = self.eq(a, b)
            return VBool(r if opn == "Eq" else z3.Not(r))
        if opn in ("In", "NotIn"):
            r = self.contains(b, a)
            return VBool(r if opn == "In" else z3.Not(r))
        if isinstance(a, VUnion) or isinstance(b, VUnion):
            # ordering over unions without forking: per pair of alternatives either a Bool or a type error
            aa = a.alts if isinstance(a, VUnion) else ((z3.BoolVal(True), a),)
            bb = b.alts if isinstance(b, VUnion) else ((z3.BoolVal(True), b),)
            oks, errs = [], []
            simple = True
            for ga, xa in aa:
                for gb, xb in bb:
                    g = z3.simplify(z3.And(ga, gb))
                    if z3.is_false(g):
                        continue
                    if isinstance(xa, VUnion) or isinstance(xb, VUnion):
                        simple = False
                        break
                    r = self._order1(opn, xa, xb)
                    if r is None:
                        errs.append(g)
                    elif r is NotImplemented:
                        simple = False
                        break
                    else:
                        oks.append(z3.And(g, r))
                if not simple:
                    break
            if simple:
                if errs and self.spec_depth:
                    # in a clause an ill-typed ordering is simply false (a None is never "within limits")
                    self.note("clause compares values of which some alternatives are not ordered; those count as false")
                elif errs:
                    eg = z3.Or(errs)
                    if self.ctx.branch(eg):
                        self.raise_("TypeError", "'%s' not supported" % opn)
                return VBool(z3.Or(oks + [z3.BoolVal(False)]))
        a = self.force(a)
        b = self.force(b)
        r = self._order1(opn, a, b)
        if r is not None and r is not NotImplemented:
            return VBool(r)
        ka = kb = None
        if a.tag == "str" and b.tag == "str":
            r = {"Lt": a.t < b.t, "LtE": a.t <= b.t, "Gt": b.t < a.t, "GtE": b.t <= a.t}[opn]
            return VBool(r)
        if a.tag == "tuple" and b.tag == "tuple" and len(a.items) == len(b.items):
            # lexicographic
            res = z3.BoolVal(opn in ("LtE", "GtE"))
            for x, y in reversed(list(zip(a.items, b.items))):
                strict = self.compare({"LtE": ast.Lt(), "GtE": ast.Gt()}.get(opn, op), x, y).t
                res = z3.Or(strict, z3.And(self.eq(x, y), res))
            return VBool(res)
        if self.spec_depth:
            self.note("clause compares values that are not ordered (%s, %s); counts as false" % (a.tag, b.tag))
            return VBool(False)
        self.raise_("TypeError", "'%s' not supported between %s and %s" % (opn, a.tag, b.tag))

    def _order1(self, opn, a, b):
        """ordering of two single-tag values: z3 Bool, None (TypeError) or NotImplemented (needs the slow path)"""
        def n(v):
            if v.tag == "int":
                return "int", v.t
            if v.tag == "bool":
                return "int", z3.If(v.t, z3.IntVal(1), z3.IntVal(0))
            if v.tag == "real":
                return "real", v.t
            return None, None
        ka, ta = n(a)
        kb, tb = n(b)
        if ka and kb:
            if ka != kb:
                ta, tb = _real(ka, ta), _real(kb, tb)
            return {"Lt": ta < tb, "LtE": ta <= tb, "Gt": ta > tb, "GtE": ta >= tb}[opn]
        if a.tag == "str" and b.tag == "str":
            return {"Lt": a.t < b.t, "LtE": a.t <= b.t, "Gt": b.t < a.t, "GtE": b.t <= a.t}[opn]
        if a.tag == "tuple" and b.tag == "tuple":
            return NotImplemented
        return None

    def contains(self, cont, item):
        cont = self.force(cont)
        if cont.tag == "str":
            item = self.force(item)
            if item.tag != "str":
                self.raise_("TypeError")
            return z3.Contains(cont.t, item.t)
        if cont.tag == "tuple":
            return z3.Or([self.eq(item, x) for x in cont.items] + [z3.BoolVal(False)])
        if cont.tag in ("list", "set"):
            c = self.container(cont.ref)
            if isinstance(c, (LConc, SConc)):
                return z3.Or([self.eq(item, x) for x in c.items] + [z3.BoolVal(False)])
            try:
                return z3.Contains(c.term, z3.Unit(to_term(self.force(item), c.elem)))
            except TypeError:
                return z3.BoolVal(False)     # a value of another type is never an element
        if cont.tag == "dict":
            c = self.container(cont.ref)
            if isinstance(c, DConc):
                return z3.Or([self.eq(item, self.const(k)) for k, _ in c.entries] + [z3.BoolVal(False)])
            try:
                kt = to_term(self.force(item), c.kshape)
            except TypeError:
                return z3.BoolVal(False)
            self.dmap_keys.setdefault(cont.ref, []).append(kt)
            return z3.Select(c.dom, kt)
        if cont.tag == "obj" and cont.ref.kind != "rec":
            fc = self.cset.lookup_method(cont.ref.cls, "__contains__")
            if fc is not None:
                return self.truth(self.call_contract(fc, cont, [item], {}, None))
        if cont.tag == "obj" and cont.ref.kind == "rec":
            item = self.force(item)
            if item.tag == "str" and z3.is_string_value(item.t):
                k = item.t.as_string()
                v = self.read_field(cont.ref, k)
                return z3.BoolVal(v is not MISSING)
            raise Unsupported("'in' on a record with symbolic key")
        raise Unsupported("'in' on %r" % cont)

    # ================================================================ expressions
    def eval(self, node):
        m = getattr(self, "e_" + type(node).__name__, None)
        if m is None:
            raise Unsupported("expression %s" % type(node).__name__)
        return m(node)

    @property
    def env(self):
        return self.frames[-1].env

    def e_Constant(self, n):
        if n.value is Ellipsis:
            return NONE
        return self.const(n.value)

    def e_Name(self, n):
        name = n.id
        if name in self.env:
            return self.env[name]
        if self.spec_depth and self.loop_aliases:
            for al in reversed(self.loop_aliases):
                if name in al and al[name] in self.env:
                    return self.env[al[name]]
        if self.spec_depth:
            if name == "result":
                return self.result
            if name == "ghost":
                return VObj(self.ghost)
            if name == "this":
                return self.frames[0].env["self"]
            if name in self.spec_env_extra:
                return self.spec_env_extra[name]
            if name in self.cset.helpers:
                return VFn("helper", name=name)
        if name == "ghost":
            return VObj(self.ghost)
        g = self.cset.globals.get(name)
        if g is not None:
            return g
        if name in self.cset.namedtuples:
            return VCls(name)
        if name in self.cset.exceptions or name in BUILTIN_EXC:
            return VCls(name)
        if name in self.cset.classes:
            return VCls(name)
        if name in self.cset.fns:
            return VFn("func", key=name)
        from . import builtins_ as B
        if name in B.BUILTINS:
            return VFn("builtin", name=name)
        if name in ("True", "False", "None"):
            return self.const({"True": True, "False": False, "None": None}[name])
        if name == "__debug__":
            return VBool(True)
        # module-level literal constant of the file the function lives in (read from the real source)
        fc0 = self.frames[-1].fc if self.frames else None
        if fc0 is not None and fc0.file and name.isupper():
            from . import extract
            try:
                node = extract.module_constant(fc0.file, name)
                if isinstance(node, ast.Constant):
                    return self.const(node.value)
            except extract.ExtractError:
                pass
        if self.spec_depth:
            raise SpecError("unknown name %r in contract clause" % name)
        if fc0 is not None and fc0.file:
            afc = self.auto_inline_function(fc0.file, name)
            if afc is not None:
                return VFn("func", key=afc.key)
        raise Unsupported("unknown name %r" % name)

    def e_Tuple(self, n):
        items = []
        for e in n.elts:
            if isinstance(e, ast.Starred):
                items.extend(self.iter_conc(self.eval(e.value)))
            else:
                items.append(self.eval(e))
        return VTuple(items)

    def e_List(self, n):
        items = []
        for e in n.elts:
            if isinstance(e, ast.Starred):
                items.extend(self.iter_conc(self.eval(e.value)))
            else:
                items.append(self.eval(e))
        return self.new_list(items)

    def e_Set(self, n):
        return self.new_set([self.eval(e) for e in n.elts])

    def e_Dict(self, n):
        entries = []
        d = DConc(())
        for k, v in zip(n.keys, n.values):
            if k is None:
                src = self.force(self.eval(v))
                for kk, vv in self.dict_items_conc(src):
                    d = d.set(kk, vv)
                continue
            kv = self.force(self.eval(k))
            pk = self.pyconst(kv)
            if pk is MISSING:
                # a symbolic key: fine when it is the only entry (no other key it could collide with)
                if len(n.keys) != 1 or not hasattr(kv, "t"):
                    raise Unsupported("dict literal with symbolic key")
                d = d.set(kv, self.eval(v))
                continue
            d = d.set(pk, self.eval(v))
        ref = Ref(self.fresh_name("dict"))
        self.heap.data[(ref, "$")] = d
        return VDict(ref)

    def pyconst(self, v):
        """concrete python value of a Val if it is a literal, else MISSING"""
        if v.tag == "str" and z3.is_string_value(v.t):
            return v.t.as_string()
        if v.tag == "int" and z3.is_int_value(v.t):
            return v.t.as_long()
        if v.tag == "bool" and (z3.is_true(v.t) or z3.is_false(v.t)):
            return z3.is_true(v.t)
        if v.tag == "none":
            return None
        if v.tag == "real" and z3.is_rational_value(v.t):
            return float(v.t.as_fraction())
        if v.tag == "obj":
            return v.ref
        if v.tag == "tuple":
            xs = [self.pyconst(x) for x in v.items]
            if any(x is MISSING for x in xs):
                return MISSING
            return tuple(xs)
        return MISSING

    def e_JoinedStr(self, n):
        # literal parts and plain {str} / {int} fields are concatenated exactly; any other field (format spec,
        # conversion, other types) is an unknown string
        parts = []
        for v in n.values:
            if isinstance(v, ast.Constant) and isinstance(v.value, str):
                parts.append(z3.StringVal(v.value))
                continue
            if isinstance(v, ast.FormattedValue):
                val = self.eval(v.value)
                fv = self.force(val) if not isinstance(val, VUnion) else None
                if v.format_spec is None and v.conversion == -1 and fv is not None and fv.tag == "str" and not fv.is_bytes:
                    parts.append(fv.t)
                elif v.format_spec is None and v.conversion == -1 and fv is not None and fv.tag == "int":
                    from . import builtins_ as B
                    parts.append(B.b_str(self, [fv], {}).t)
                else:
                    parts.append(z3.String(self.fresh_name("fstr")))
                continue
            parts.append(z3.String(self.fresh_name("fstr")))
        if not parts:
            return VStr(z3.StringVal(""))
        out = parts[0]
        for p_ in parts[1:]:
            out = z3.Concat(out, p_)
        return VStr(out)

    def e_UnaryOp(self, n):
        v = self.eval(n.operand)
        if isinstance(n.op, ast.Not):
            return VBool(z3.Not(self.truth(v)))
        v = self.force(v)
        k, t = self.num(v)
        if k is None:
            if self.spec_depth:
                raise SpecError("ill-typed unary operator")
            self.raise_("TypeError", "bad operand type for unary op: %s" % v.tag)
        if isinstance(n.op, ast.USub):
            return VInt(-t) if k == "int" else VReal(-t)
        if isinstance(n.op, ast.UAdd):
            return VInt(t) if k == "int" else VReal(t)
        if isinstance(n.op, ast.Invert) and k == "int":
            return VInt(-t - 1)
        raise Unsupported("unary op")

    def e_BinOp(self, n):
        a = self.eval(n.left)
        b = self.eval(n.right)
        return self.binop(n.op, a, b)

    def _no_effects_here(self, node):
        """like _no_effects, but a call self.<m>(...) of a method whose contract is an assumed PURE model (no forks, no
        effects, e.g. a relation) may take part in the speculative non-forking evaluation"""
        for x in ast.walk(node):
            if isinstance(x, ast.Call):
                f = x.func
                ok = False
                if isinstance(f, ast.Attribute) and isinstance(f.value, ast.Name) and f.value.id == "self":
                    this = self.env.get("self")
                    if this is not None and getattr(this, "tag", None) == "obj":
                        fc = self.cset.lookup_method(this.ref.cls, f.attr)
                        ok = fc is not None and fc.model is not None and fc.pure
                if not ok:
                    return False
            elif isinstance(x, (ast.Await, ast.NamedExpr, ast.Yield, ast.YieldFrom, ast.Lambda, ast.ListComp,
                                ast.SetComp, ast.DictComp, ast.GeneratorExp)):
                return False
        return True

    def e_BoolOp(self, n):
        # short-circuit, returns operands
        is_and = isinstance(n.op, ast.And)
        v = None
        if not self.spec_depth and all(self._no_effects_here(x) for x in n.values):
            # speculative non-forking evaluation of a side-effect free condition: later operands are evaluated
            # under the hypothesis that the earlier ones did not short-circuit; abandoned if anything would
            # fork or raise (then the faithful short-circuit evaluation below is used)
            saved_hyp = list(self.hyp)
            self.ctx.no_fork = getattr(self.ctx, "no_fork", 0) + 1
            try:
                acc = []
                for x in n.values:
                    val = self.eval(x)
                    if not (isinstance(val, VBool) or (isinstance(val, Val) and val.tag == "bool")):
                        raise WouldFork()
                    acc.append(val.t)
                    self.hyp.append(val.t if is_and else z3.Not(val.t))
                return VBool(z3.And(acc) if is_and else z3.Or(acc))
            except (WouldFork, Raised, HypInfeasible):
                pass
            finally:
                self.ctx.no_fork -= 1
                self.hyp = saved_hyp
        for i, e in enumerate(n.values):
            v = self.eval(e)
            if i == len(n.values) - 1:
                return v
            t = self.truth(v)
            if self.spec_depth:
                # in specs: no forking on pure boolean connectives; later operands are evaluated under the
                # hypothesis that the earlier ones did not short-circuit
                acc = [t]
                pushed = 0
                try:
                    for x in n.values[i + 1:]:
                        last = z3.simplify(acc[-1])
                        if (is_and and z3.is_false(last)) or (not is_and and z3.is_true(last)):
                            break       # definitely short-circuits: the remaining operands are not evaluated
                        self.hyp.append(acc[-1] if is_and else z3.Not(acc[-1]))
                        pushed += 1
                        try:
                            acc.append(self.truth(self.eval(x)))
                        except HypInfeasible:
                            acc.append(z3.BoolVal(not is_and))
                            break
                finally:
                    for _ in range(pushed):
                        self.hyp.pop()
                return VBool(z3.And(acc) if is_and else z3.Or(acc))
            take = self.ctx.branch(t)
            if is_and and not take:
                return v
            if not is_and and take:
                return v
        return v

    def e_Compare(self, n):
        left = self.eval(n.left)
        if len(n.ops) == 1:
            return self.compare(n.ops[0], left, self.eval(n.comparators[0]))
        # chained: a op1 b op2 c  ==  (a op1 b) and (b op2 c), b evaluated once, short-circuit
        if self.spec_depth:
            acc = []
            for op, c in zip(n.ops, n.comparators):
                right = self.eval(c)
                acc.append(self.compare(op, left, right).t)
                left = right
            return VBool(z3.And(acc))
        for op, c in zip(n.ops, n.comparators):
            right = self.eval(c)
            r = self.compare(op, left, right)
            if not self.ctx.branch(r.t):
                return VBool(False)
            left = right
        return VBool(True)

    def e_IfExp(self, n):
        if self.spec_depth:
            c = z3.simplify(self.truth(self.eval(n.test)))
            if z3.is_true(c):
                return self.eval(n.body)
            if z3.is_false(c):
                return self.eval(n.orelse)
            depth = len(self.hyp)
            v1 = v2 = None
            self.hyp.append(c)
            try:
                v1 = self.eval(n.body)
            except HypInfeasible:
                pass
            finally:
                self.hyp.pop()
            self.hyp.append(z3.Not(c))
            try:
                v2 = self.eval(n.orelse)
            except HypInfeasible:
                pass
            finally:
                self.hyp.pop()
            if v1 is None and v2 is None:
                raise HypInfeasible()
            if v1 is None:
                return v2
            if v2 is None:
                return v1
            return self.merge(c, v1, v2)
        if self.ctx.branch(self.truth(self.eval(n.test))):
            return self.eval(n.body)
        return self.eval(n.orelse)

    def merge(self, c, v1, v2):
        """value that is v1 under c and v2 otherwise (no forking)"""
        alts = []
        for g0, v in ((c, v1), (z3.Not(c), v2)):
            for g, a in (v.alts if isinstance(v, VUnion) else ((z3.BoolVal(True), v),)):
                alts.append((z3.simplify(z3.And(g0, g)), a))
        out = []
        for g, a in alts:
            if z3.is_false(g):
                continue
            for i, (g2, a2) in enumerate(out):
                if a2.tag == a.tag and a.tag in ("int", "real", "bool", "str", "none") and \
                        (a.tag != "str" or a.is_bytes == a2.is_bytes):
                    if a.tag == "none":
                        out[i] = (z3.Or(g2, g), a2)
                    else:
                        out[i] = (z3.Or(g2, g), type(a)(z3.If(g2, a2.t, a.t)) if a.tag != "str"
                                  else VStr(z3.If(g2, a2.t, a.t), a.is_bytes))
                    break
                if a2 is a:
                    out[i] = (z3.Or(g2, g), a2)
                    break
            else:
                out.append((g, a))
        if len(out) == 1:
            return out[0][1]
        return VUnion(out)

    def e_Lambda(self, n):
        return VFn("closure", node=n, env=self.env, fc=self.frames[-1].fc)

    def e_Await(self, n):
        v = self.eval(n.value)
        self.await_point(n)
        return v

    def await_point(self, node):
        fc = self.frames[0].fc
        if fc is not None and fc.await_havoc is not None:
            fc.await_havoc(self, node)

    def e_Starred(self, n):
        raise Unsupported("starred expression outside call/tuple")

    def e_Attribute(self, n):
        base = self.eval(n.value)
        return self.getattr(base, n.attr, n)

    def auto_inline_method(self, clsname, attr):
        """a method of a class under contract that has no contract of its own (e.g. a private helper introduced by a
        refactoring): its real body is read from the class's source file and executed in line at the call site.
        Nothing is assumed about it; the evidence lists every such helper."""
        from . import extract as X
        seen, stack = set(), [clsname]
        while stack:
            c = stack.pop(0)
            if c in seen:
                continue
            seen.add(c)
            spec = self.cset.classes.get(c)
            if spec is None:
                continue
            stack.extend(spec.bases)
            if not spec.file:
                continue
            key = "%s.%s" % (c, attr)
            try:
                node, _ = X.find_def(spec.file, key)
            except X.ExtractError:
                continue
            import ast as _ast
            if not isinstance(node, (_ast.FunctionDef, _ast.AsyncFunctionDef)):
                continue
            is_prop = any(isinstance(d, _ast.Name) and d.id == "property" for d in node.decorator_list)
            fc = self.cset.fn(key, file=spec.file, inline=True, no_inv=True, is_property=is_prop)
            fc.auto_inlined = True
            note = "helper %s has no contract of its own: its real body (%s) is executed in line" % (key, spec.file)
            if note not in self.notes:
                self.notes.append(note)
            return fc
        return None

    def getattr(self, base, attr, node=None):
        base = self.force(base)
        if base.tag == "obj":
            obj = base.ref
            if obj.kind == "rec":
                from . import builtins_ as B
                if attr in B.REC_METHODS:
                    return VFn("recmeth", obj=obj, name=attr)
            v = self.read_field(obj, attr)
            if v is not MISSING:
                return v
            fc = self.cset.lookup_method(obj.cls, attr)
            if fc is None:
                fc = self.auto_inline_method(obj.cls, attr)
            if fc is not None:
                if fc.is_property:
                    return self.call_contract(fc, base, [], {}, node)
                return VFn("bound", obj=obj, name=attr, fc=fc)
            cv = self._class_constant(obj.cls, attr)
            if cv is not None:
                return cv
            raise Unsupported("no shape or contract for attribute %s.%s (class %s)" % (obj.name, attr, obj.cls))
        if base.tag == "tuple":
            if base.fields and attr in base.fields:
                return base.items[base.fields.index(attr)]
            if attr in ("_replace",):
                return VFn("tuplemeth", val=base, name=attr)
            raise Unsupported("tuple attribute %s" % attr)
        if base.tag in ("str", "list", "dict", "set"):
            from . import builtins_ as B
            if base.tag != "str" and attr not in B.KNOWN_METHODS[base.tag]:
                if self.spec_depth:
                    raise SpecError("attribute %s of %s in clause" % (attr, base.tag))
                self.raise_("AttributeError", "'%s' object has no attribute '%s'" % (base.tag, attr))
            return VFn(base.tag + "meth", val=base, name=attr)
        if base.tag in ("int", "real", "bool") and attr not in ("real", "imag", "bit_length", "is_integer",
                                                                "conjugate", "numerator", "denominator"):
            if self.spec_depth:
                raise SpecError("attribute %s of %s in clause" % (attr, base.tag))
            self.raise_("AttributeError", "'%s' object has no attribute '%s'" % (base.tag, attr))
        if base.tag == "none":
            if self.spec_depth:
                raise SpecError("attribute %s of None in clause" % attr)
            self.raise_("AttributeError", "NoneType has no attribute %s" % attr)
        if base.tag == "cls":
            fc = self.cset.fns.get("%s.%s" % (base.name, attr))
            if fc is not None:
                return VFn("func", key=fc.key)
            g = self.cset.globals.get("%s.%s" % (base.name, attr))
            if g is not None:
                return g
            fc = self.auto_inline_method(base.name, attr)
            if fc is not None:
                return VFn("func", key=fc.key)
            raise Unsupported("class attribute %s.%s" % (base.name, attr))
        if base.tag == "fn" and base.kind == "super":
            spec = self.cset.classes.get(base.cls)
            for b in (spec.bases if spec else []):
                fc = self.cset.lookup_method(b, attr)
                if fc is not None:
                    return VFn("bound", obj=base.obj, name=attr, fc=fc)
            raise Unsupported("super().%s: no contract in the bases of %s" % (attr, base.cls))
        if base.tag == "fn" and base.kind == "module":
            g = self.cset.globals.get("%s.%s" % (base.name, attr))
            if g is not None:
                return g
            fc = self.cset.fns.get("%s.%s" % (base.name, attr))
            if fc is not None:
                return VFn("func", key=fc.key)
            raise Unsupported("module attribute %s.%s" % (base.name, attr))
        if base.tag == "exc":
            if attr == "args":
                return VTuple(base.args)
        if base.tag == "opaque":
            fc = self.cset.lookup_method(base.sort, attr)
            if fc is not None:
                return VFn("bound", obj=base, name=attr, fc=fc)
            ty = getattr(self.cset, "opaque_attrs", {}).get((base.sort, attr))
            if ty == "int":
                return VInt(z3.Function("attr_" + attr, usort(base.sort), z3.IntSort())(base.t))
            if ty == "bool":
                return VBool(z3.Function("attr_" + attr, usort(base.sort), z3.BoolSort())(base.t))
            if base.sort in ("Fn", "Any"):
                # attribute of an unknown object (e.g. callback.__self__.name): some unknown value
                f = z3.Function("attr_" + attr, usort(base.sort), usort("Any"))
                return VOpaque("Any", f(base.t))
        raise Unsupported("attribute %s of %r" % (attr, base))

    def e_Subscript(self, n):
        base = self.force(self.eval(n.value))
        if isinstance(n.slice, ast.Slice):
            return self.slice(base, n.slice)
        idx = self.eval(n.slice)
        return self.getitem(base, idx)

    def getitem(self, base, idx):
        base = self.force(base)
        idx = self.force(idx)
        if base.tag == "obj" and base.ref.kind == "rec":
            k = self.pyconst(idx)
            if k is MISSING or not isinstance(k, str):
                raise Unsupported("record %s subscripted with a non-literal key" % base.ref.name)
            v = self.read_field(base.ref, k)
            if v is MISSING:
                raise Unsupported("no shape for %s[%r]" % (base.ref.name, k))
            return v
        if base.tag == "obj":
            fc = self.cset.lookup_method(base.ref.cls, "__getitem__")
            if fc is not None:
                return self.call_contract(fc, base, [idx], {}, None)
            raise Unsupported("subscript on object %s" % base.ref.name)
        if base.tag == "tuple":
            k = self.pyconst(idx)
            if k is MISSING:
                raise Unsupported("tuple index symbolic")
            if not -len(base.items) <= k < len(base.items):
                self.raise_("IndexError")
            return base.items[k]
        if base.tag == "list":
            c = self.container(base.ref)
            if isinstance(c, LConc):
                k = self.pyconst(idx)
                if k is MISSING:
                    k = self.conc_index(idx, len(c.items))
                if not -len(c.items) <= k < len(c.items):
                    self.raise_("IndexError")
                return c.items[k]
            kk, t = self.num(idx)
            if kk != "int":
                self.raise_("TypeError")
            n_ = z3.Length(c.term)
            t2 = z3.If(t < 0, t + n_, t)
            if self.err_branch(z3.Or(t2 < 0, t2 >= n_)):
                self.raise_("IndexError")
            return from_term(c.term[t2], c.elem)
        if base.tag == "dict":
            c = self.container(base.ref)
            if isinstance(c, DConc):
                k = self.pyconst(idx)
                if k is MISSING and c.get(idx) is not None:
                    return c.get(idx)
                if k is MISSING and self.spec_depth:
                    # clause: no forking - the value is the guarded merge over the keys it may be equal to
                    eqs = []
                    for kk, vv in c.entries:
                        kkv = kk if isinstance(kk, Val) else self.const(kk)
                        if kkv.tag == idx.tag:
                            e_ = self.eq(idx, kkv)
                            if self.ctx.solver.check(*(self.hyp + [e_])) != z3.unsat:
                                eqs.append((e_, vv))
                    if self.err_branch(z3.Not(z3.Or(*[e for e, _ in eqs])) if eqs else z3.BoolVal(True)):
                        self.raise_("KeyError")
                    if not eqs:
                        raise HypInfeasible()
                    out = eqs[-1][1]
                    for e, vv in reversed(eqs[:-1]):
                        out = self.merge(e, vv, out)
                    return out
                if k is MISSING:
                    # symbolic key over concrete dict: compare against each key
                    for kk, vv in c.entries:
                        kkv = kk if isinstance(kk, Val) else self.const(kk)
                        if kkv.tag == idx.tag and self.ctx.branch(self.eq(idx, kkv)):
                            return vv
                    self.raise_("KeyError")
                v = c.get(k)
                if v is None:
                    self.raise_("KeyError", idx)
                return v
            kt = to_term(idx, c.kshape)
            self.dmap_keys.setdefault(base.ref, []).append(kt)
            if self.err_branch(z3.Not(z3.Select(c.dom, kt))):
                self.raise_("KeyError", idx)
            return from_term(z3.Select(c.arr, kt), c.vshape)
        if base.tag == "str":
            kk, t = self.num(idx)
            if kk != "int":
                self.raise_("TypeError")
            n_ = z3.Length(base.t)
            t2 = z3.If(t < 0, t + n_, t)
            if self.err_branch(z3.Or(t2 < 0, t2 >= n_)):
                self.raise_("IndexError")
            if base.is_bytes:
                return VInt(z3.StrToCode(z3.SubString(base.t, t2, 1)))
            return VStr(z3.SubString(base.t, t2, 1))
        if base.tag == "none":
            self.raise_("TypeError", "NoneType is not subscriptable")
        if base.tag == "opaque":
            fc = self.cset.lookup_method(base.sort, "__getitem__")
            if fc is not None:
                return self.call_contract(fc, base, [idx], {}, None)
        raise Unsupported("subscript on %r" % base)

    def err_branch(self, cond):
        """branch into an error case; inside a clause evaluated under hypotheses the error case is not taken when
        the hypotheses exclude it"""
        if self.spec_depth and self.hyp:
            if self.ctx.solver.check(*(self.hyp + [cond])) == z3.unsat:
                return False
        return self.ctx.branch(cond)

    def conc_index(self, idx, n):
        """symbolic index into a concrete-length list: case split over the positions (forks)"""
        kk, t = self.num(idx)
        if kk != "int":
            self.raise_("TypeError", "list indices must be integers")
        opts = [t == i for i in range(-n, n)] + [z3.Or(t < -n, t >= n)]
        j = self.ctx.choose(opts)
        if j == 2 * n:
            self.raise_("IndexError")
        return j - n

    def slice(self, base, sl):
        if sl.step is not None:
            raise Unsupported("slice step")
        lo = self.force(self.eval(sl.lower)) if sl.lower is not None else None
        hi = self.force(self.eval(sl.upper)) if sl.upper is not None else None
        if base.tag == "str":
            n_ = z3.Length(base.t)
            lo_t = self._clamp(lo.t, n_) if lo is not None else z3.IntVal(0)
            hi_t = self._clamp(hi.t, n_) if hi is not None else n_
            ln = z3.If(hi_t > lo_t, hi_t - lo_t, 0)
            return VStr(z3.SubString(base.t, lo_t, ln), base.is_bytes)
        if base.tag == "list":
            c = self.container(base.ref)
            if isinstance(c, LConc):
                l_ = self.pyconst(lo) if lo is not None else None
                h_ = self.pyconst(hi) if hi is not None else None
                if l_ is MISSING or h_ is MISSING:
                    raise Unsupported("symbolic slice of concrete list")
                return self.new_list(c.items[l_:h_])
            n_ = z3.Length(c.term)
            lo_t = self._clamp(lo.t, n_) if lo is not None else z3.IntVal(0)
            hi_t = self._clamp(hi.t, n_) if hi is not None else n_
            ln = z3.If(hi_t > lo_t, hi_t - lo_t, 0)
            ref = Ref(self.fresh_name("slice"))
            self.heap.data[(ref, "$")] = LSeq(z3.SubSeq(c.term, lo_t, ln), c.elem)
            return VList(ref)
        if base.tag == "tuple":
            l_ = self.pyconst(lo) if lo is not None else None
            h_ = self.pyconst(hi) if hi is not None else None
            return VTuple(base.items[l_:h_])
        raise Unsupported("slice on %r" % base)

    @staticmethod
    def _clamp(t, n_):
        t2 = z3.If(t < 0, t + n_, t)
        return z3.If(t2 < 0, 0, z3.If(t2 > n_, n_, t2))

    def e_ListComp(self, n):
        # pure filter over an abstract sequence  [x for x in seq if cond(x)]: the result is SOME subsequence - a
        # fresh abstract sequence that is no longer than the source (sound over-approximation: the filter condition
        # itself is not interpreted; it must be a call-free expression)
        if len(n.generators) == 1 and isinstance(n.elt, ast.Name) and isinstance(n.generators[0].target, ast.Name) \
                and n.elt.id == n.generators[0].target.id and not n.generators[0].is_async:
            src = self.force(self.eval(n.generators[0].iter))
            if src.tag == "list" and isinstance(self.container(src.ref), LSeq) and not any(
                    isinstance(x, (ast.Call, ast.Await, ast.NamedExpr)) for c in n.generators[0].ifs
                    for x in ast.walk(c)):
                c = self.container(src.ref)
                nm = self.fresh_name("filtered")
                ref = Ref(nm)
                t = z3.Const(nm, c.term.sort())
                self.ctx.assume(z3.Length(t) <= z3.Length(c.term))
                self.heap.data[(ref, "$")] = LSeq(t, c.elem)
                return VList(ref)
        return self.new_list(self._comp(n))

    def e_GeneratorExp(self, n):
        # lazy: consumed only if someone iterates it (a generator that only feeds a log/error message is not run)
        return VFn("lazygen", node=n, frame_env=self.env)

    def run_lazygen(self, g):
        saved = self.frames[-1].env
        self.frames[-1].env = dict(g.frame_env)
        try:
            return self._comp(g.node)
        finally:
            self.frames[-1].env = saved

    def e_SetComp(self, n):
        return self.new_set(self._comp(n))

    def _comp(self, n):
        if len(n.generators) != 1:
            raise Unsupported("nested comprehension")
        g = n.generators[0]
        from . import builtins_ as B
        items = B._conc_iter(self, self.eval(g.iter))
        out = []
        saved = dict(self.env)
        for it in items:
            self.assign(g.target, it)
            ok = True
            for cond in g.ifs:
                if not self.ctx.branch(self.truth(self.eval(cond))):
                    ok = False
                    break
            if ok:
                out.append(self.eval(n.elt))
        self.frames[-1].env = saved
        return out

    def e_DictComp(self, n):
        if len(n.generators) != 1:
            raise Unsupported("nested comprehension")
        g = n.generators[0]
        from . import builtins_ as B
        items = B._conc_iter(self, self.eval(g.iter))
        d = DConc(())
        saved = dict(self.env)
        for it in items:
            self.assign(g.target, it)
            if all(self.ctx.branch(self.truth(self.eval(c))) for c in g.ifs):
                kv = self.force(self.eval(n.key))
                k = self.pyconst(kv)
                if k is MISSING:
                    # symbolic key: it replaces an earlier key it is equal to (case split), else it is a new entry
                    if not hasattr(kv, "t"):
                        raise Unsupported("dict comprehension with a key of kind %s" % kv.tag)
                    k = kv
                    for kk, _ in d.entries:
                        if d._keq(kk, kv):
                            k = kk
                            break
                        kkv = kk if isinstance(kk, Val) else self.const(kk)
                        if kkv.tag == kv.tag and self.ctx.branch(self.eq(kv, kkv)):
                            k = kk
                            break
                d = d.set(k, self.eval(n.value))
        self.frames[-1].env = saved
        ref = Ref(self.fresh_name("dict"))
        self.heap.data[(ref, "$")] = d
        return VDict(ref)

    def iter_conc(self, v):
        """concrete-length iteration: returns python list of Vals"""
        v = self.force(v)
        if v.tag == "fn" and v.kind == "lazygen":
            return self.run_lazygen(v)
        if v.tag == "tuple":
            return list(v.items)
        if v.tag in ("list", "set"):
            c = self.container(v.ref)
            if isinstance(c, (LConc, SConc)):
                return list(c.items)
            raise Unsupported("iteration over an abstract sequence needs a loop invariant")
        if v.tag == "dict":
            c = self.container(v.ref)
            if isinstance(c, DConc):
                return [self.const(k) for k, _ in c.entries]
        if v.tag == "obj" and v.ref.kind == "rec":
            return [self.const(k) for k in v.ref.shape.fields]
        if v.tag == "obj":
            fc = self.cset.lookup_method(v.ref.cls, "__iter__")
            if fc is not None and fc.external and fc.model is not None:
                return self.iter_conc(fc.model(self, {"self": v}, [], {}))
        raise Unsupported("iteration over %r" % v)

    def dict_items_conc(self, v):
        v = self.force(v)
        if v.tag == "dict":
            c = self.container(v.ref)
            if isinstance(c, DConc):
                return list(c.entries)
            raise Unsupported("items() of an abstract map")
        if v.tag == "obj" and v.ref.kind == "rec":
            return [(k, self.read_field(v.ref, k)) for k in v.ref.shape.fields]
        if v.tag == "none":
            self.raise_("TypeError")
        raise Unsupported("dict items of %r" % v)

    # ---------------------------------------------------------------- calls
    def e_Call(self, n):
        # spec special forms
        if self.spec_depth and isinstance(n.func, ast.Name):
            nm = n.func.id
            if nm == "old":
                return self.eval_old(n.args[0])
            if nm == "old_loop":
                # value when the innermost loop under contract was entered (before its first iteration)
                if not self.loop_entry_heaps:
                    raise SpecError("old_loop() outside a loop contract")
                saved, saved_old = self.heap, self.old_heap
                self.heap = self.loop_entry_heaps[-1]
                self.shadowed.append(saved)
                try:
                    return self.eval(n.args[0])
                finally:
                    self.shadowed.pop()
                    self.heap, self.old_heap = saved, saved_old
            if nm == "old_iter":
                # value at the start of the loop iteration being checked (loop body clauses)
                if self.iter_old_heap is None:
                    raise SpecError("old_iter() outside a loop body clause")
                saved, saved_old = self.heap, self.old_heap
                self.heap = self.iter_old_heap
                self.shadowed.append(saved)
                try:
                    return self.eval(n.args[0])
                finally:
                    self.shadowed.pop()
                    self.heap, self.old_heap = saved, saved_old
            if nm == "implies":
                a = self.truth(self.eval(n.args[0]))
                if z3.is_false(z3.simplify(a)):
                    return VBool(True)
                depth = len(self.hyp)
                self.hyp.append(a)
                try:
                    b = self.truth(self.eval(n.args[1]))
                except HypInfeasible:
                    return VBool(True)
                finally:
                    self.hyp.pop()
                return VBool(z3.Implies(a, b))
            if nm == "invariant_of":
                # the class invariants of another object of a class under contract (e.g. a parameter)
                o = self.force(self.eval(n.args[0]))
                if o.tag != "obj":
                    raise SpecError("invariant_of(%s)" % o.tag)
                from .verify import class_invariants
                conj = []
                self.frames.append(Frame(None, {"self": o}))
                try:
                    for _, clause in class_invariants(self.cset, o.ref.cls):
                        conj.append(self.spec_bool(clause))
                finally:
                    self.frames.pop()
                return VBool(z3.And(*conj) if conj else z3.BoolVal(True))
            if nm == "ite":
                if self.ctx.branch(self.truth(self.eval(n.args[0]))):
                    return self.eval(n.args[1])
                return self.eval(n.args[2])
        if isinstance(n.func, ast.Name) and n.func.id == "super" and not n.args:
            fc0 = self.frames[-1].fc
            if fc0 is None or "self" not in self.env:
                raise Unsupported("super() outside a method")
            return VFn("super", obj=self.force(self.env["self"]).ref, cls=fc0.qualname.split(".")[0])
        if self.spec_depth and isinstance(n.func, ast.Name) and n.func.id in self.cset.helpers:
            fn = VFn("helper", name=n.func.id)      # a specification function, even if a local has the same name
        else:
            fn = self.eval(n.func)
        args = []
        for a in n.args:
            if isinstance(a, ast.Starred):
                args.extend(self.iter_conc(self.eval(a.value)))
            else:
                args.append(self.eval(a))
        kwargs = {}
        for k in n.keywords:
            if k.arg is None:
                src = self.force(self.eval(k.value))
                if src.tag == "opaque" and src.sort == "Kwargs":
                    kwargs["**"] = src
                    continue
                for kk, vv in self.dict_items_conc(src):
                    kwargs[kk] = vv
            else:
                kwargs[k.arg] = self.eval(k.value)
        return self.call(fn, args, kwargs, n)

    def eval_old(self, expr):
        if self.old_heap is None:
            raise SpecError("old() outside a postcondition")
        saved = self.heap
        self.heap = self.old_heap
        saved_old = self.old_heap
        self.shadowed.append(saved)
        try:
            return self.eval(expr)
        finally:
            self.shadowed.pop()
            self.heap = saved
            self.old_heap = saved_old

    def call(self, fn, args, kwargs, node=None):
        fn = self.force(fn)
        if fn.tag == "fn":
            k = fn.kind
            if k == "builtin":
                from . import builtins_ as B
                return B.BUILTINS[fn.name](self, args, kwargs)
            if k == "helper":
                return self.cset.helpers[fn.name](self, *args, **kwargs)
            if k in ("strmeth", "listmeth", "dictmeth", "setmeth", "recmeth", "tuplemeth"):
                from . import builtins_ as B
                return B.method(self, fn, args, kwargs)
            if k == "bound":
                recv = VObj(fn.obj) if isinstance(fn.obj, Obj) else fn.obj
                return self.call_contract(fn.fc, recv, args, kwargs, node)
            if k == "func":
                return self.call_contract(self.cset.fns[fn.key], None, args, kwargs, node)
            if k == "partial":
                kw = dict(fn.kwargs)
                kw.update(kwargs)
                return self.call(fn.fn, list(fn.args) + list(args), kw, node)
            if k == "closure":
                return self.call_closure(fn, args, kwargs)
            if k == "model":
                return fn.model(self, args, kwargs)
        if fn.tag == "cls":
            return self.construct(fn, args, kwargs, node)
        if fn.tag == "opaque" and fn.sort == "Fn":
            return self.call_opaque(fn, args, kwargs, node)
        if fn.tag == "none":
            if self.spec_depth:
                raise SpecError("calling None in clause")
            self.raise_("TypeError", "'NoneType' object is not callable")
        raise Unsupported("call of %r" % fn)

    def call_opaque(self, fn, args, kwargs, node):
        """callback of unknown code: recorded in the trace; the enclosing contract's rely decides what it may change"""
        if self.spec_depth:
            raise SpecError("opaque call in clause")
        # a partial built by mk_partial(fn, kw) called without further arguments is a call of fn(**kw)
        t = z3.simplify(fn.t)
        mk, empty = V.fn_terms()
        if z3.is_app(t) and t.decl().name() == "mk_partial" and not kwargs:
            fn = VOpaque("Fn", t.arg(0))
            kwargs = {"**": VOpaque("Kwargs", t.arg(1))}
        ev = TraceEv("callback", {"fn": fn, "args": tuple(args), "kwargs": dict(kwargs)})
        self.trace.append(ev)
        h = self.cset.helpers.get("on_opaque_call")
        if h is not None:
            # what the environment (the callback) changes is not charged to the function's own frame
            saved_mod = self.modified
            self.modified = set()
            try:
                r = h(self, fn, args, kwargs)
            finally:
                self.rely_modified |= self.modified
                self.modified = saved_mod
            if r is not None:
                ev.ret = r
                return r
        r = VOpaque("Any", z3.Const(self.fresh_name("cbret"), usort("Any")))
        ev.ret = r
        return r

    def construct(self, cls, args, kwargs, node):
        name = cls.name
        if name in self.cset.namedtuples:
            fields, defaults = self.cset.namedtuples[name]
            vals = list(args)
            for f in fields[len(vals):]:
                if f in kwargs:
                    vals.append(kwargs[f])
                else:
                    di = fields.index(f) - (len(fields) - len(defaults))
                    if di < 0:
                        self.raise_("TypeError", "missing argument %s" % f)
                    vals.append(self.const(defaults[di]))
            return VTuple(vals, ntname=name, fields=fields)
        if name in self.cset.exceptions or name in BUILTIN_EXC:
            return VExc(name, args)
        fc = self.cset.fns.get(name + ".__init__") or self.cset.fns.get(name)
        if fc is not None and fc.model is not None:
            return fc.model(self, args, kwargs)
        if fc is not None and fc.inline and name in self.cset.classes:
            self.ctx.fresh_n += 1
            o = Obj(name, ObjS(name, {}), "new_%s#%d" % (name, self.ctx.fresh_n))
            o.fresh = True
            self.call_contract(fc, VObj(o), args, kwargs, node)
            return VObj(o)
        raise Unsupported("constructor %s" % name)

    def call_closure(self, fn, args, kwargs):
        node = fn.node
        env = dict(fn.env)
        a = node.args
        names = [x.arg for x in a.args]
        defaults = [None] * (len(names) - len(a.defaults)) + list(a.defaults)
        for i, nm in enumerate(names):
            if i < len(args):
                env[nm] = args[i]
            elif nm in kwargs:
                env[nm] = kwargs[nm]
            elif defaults[i] is not None:
                env[nm] = self.eval(defaults[i])
            else:
                self.raise_("TypeError", "missing argument")
        self.frames.append(Frame(fn.fc, env))
        try:
            if isinstance(node, ast.Lambda):
                return self.eval(node.body)
            try:
                self.exec_block(node.body)
            except ReturnEx as r:
                return r.val
            return NONE
        finally:
            self.frames.pop()

    # ---- binding of actual arguments to the real signature
    def bind(self, fc, recv, args, kwargs):
        env = {}
        ex = fc.extracted if fc.file else None
        if ex is None:
            # external: positional names from fc.params order
            names = list(fc.params.keys())
            if recv is not None:
                env["self"] = recv
            extra = {}
            for i, a in enumerate(args):
                if i < len(names):
                    env[names[i]] = a
                else:
                    env.setdefault("*args", []).append(a)
            for k, v in kwargs.items():
                if k in names:
                    env[k] = v
                else:
                    extra[k] = v
            env["**kwargs"] = extra
            for nm in names:
                env.setdefault(nm, NONE)
            return env
        a = ex.node.args
        pos = [x.arg for x in a.posonlyargs + a.args]
        is_static = "staticmethod" in ex.decorators
        is_cls = "classmethod" in ex.decorators
        actual = list(args)
        if recv is not None and not is_static:
            actual = [recv] + actual
        elif is_cls:
            actual = [VCls(fc.key.split(".")[0])] + actual
        defaults = [None] * (len(pos) - len(a.defaults)) + list(a.defaults)
        kw = dict(kwargs)
        star = kw.pop("**", None)
        for i, nm in enumerate(pos):
            if i < len(actual):
                env[nm] = actual[i]
            elif nm in kw:
                env[nm] = kw.pop(nm)
            elif defaults[i] is not None:
                env[nm] = self.eval_default(defaults[i])
            else:
                self.raise_("TypeError", "missing argument %s" % nm)
        if len(actual) > len(pos):
            if a.vararg is None:
                self.raise_("TypeError", "too many positional arguments")
            env[a.vararg.arg] = VTuple(actual[len(pos):])
        elif a.vararg is not None:
            env[a.vararg.arg] = VTuple(())
        for x, d in zip(a.kwonlyargs, a.kw_defaults):
            if x.arg in kw:
                env[x.arg] = kw.pop(x.arg)
            elif d is not None:
                env[x.arg] = self.eval_default(d)
            else:
                self.raise_("TypeError", "missing keyword argument %s" % x.arg)
        if a.kwarg is not None:
            ref = Ref(self.fresh_name("kwargs"))
            self.heap.data[(ref, "$")] = DConc(tuple(kw.items()))
            env[a.kwarg.arg] = VDict(ref) if star is None else star
        elif kw:
            self.raise_("TypeError", "unexpected keyword argument %s" % list(kw)[0])
        return env

    def eval_default(self, node):
        self.frames.append(Frame(None, {}))
        try:
            return self.eval(node)
        finally:
            self.frames.pop()

    # ---- using a contract at a call site
    def _memo_confusion(self, fc, args):
        """functools.lru_cache / cache (typed=False) keys its entries by == and hash: 1, 1.0 and True share ONE entry.
        A call may therefore return what the body computed EARLIER for an equal argument of another numeric type.
        Modelled as a fork: the body runs on the argument itself, or on an equal value of another type."""
        out = list(args)
        for i, a in enumerate(args):
            v = self.force(a)
            out[i] = v
            if v.tag not in ("bool", "int", "real"):
                continue
            k = self.ctx.fork(3)
            if k == 0:
                continue
            self.note("@lru_cache on %s: a cached result computed for an EQUAL key of another type (1 == 1.0 == True) "
                      "may be returned (typed=False)" % fc.key)
            if v.tag == "bool":
                out[i] = VInt(z3.If(v.t, 1, 0)) if k == 1 else VReal(z3.If(v.t, z3.RealVal(1), z3.RealVal(0)))
            elif v.tag == "int":
                if k == 1:
                    out[i] = VReal(z3.ToReal(v.t))
                else:
                    self.ctx.assume(z3.Or(v.t == 0, v.t == 1))
                    out[i] = VBool(v.t == 1)
            else:
                self.ctx.assume(v.t == z3.ToReal(z3.ToInt(v.t)))
                if k == 1:
                    out[i] = VInt(z3.ToInt(v.t))
                else:
                    self.ctx.assume(z3.Or(v.t == 0, v.t == 1))
                    out[i] = VBool(v.t == 1)
        return out

    def auto_inline_function(self, file, name):
        """a module-level helper function without a contract (e.g. introduced by a refactoring), called from a function
        under contract: its real body is read from the same source file and executed in line.  A memoising decorator
        (functools.lru_cache / cache without typed=True) is modelled by _memo_confusion; any other decorator is not
        supported."""
        from . import extract as X
        import ast as _ast
        try:
            node, _ = X.find_def(file, name)
        except X.ExtractError:
            return None
        if not isinstance(node, (_ast.FunctionDef, _ast.AsyncFunctionDef)):
            return None
        memo = False
        for d in node.decorator_list:
            txt = _ast.unparse(d)
            base = txt.split("(")[0].split(".")[-1]
            if base in ("lru_cache", "cache") and "typed=True" not in txt.replace(" ", ""):
                memo = True
            elif base in ("lru_cache", "cache", "staticmethod"):
                pass
            else:
                raise Unsupported("helper %s carries decorator @%s" % (name, txt))
        fc = self.cset.fn(name, file=file, inline=True, no_inv=True)
        fc.auto_inlined = True
        fc.memo_untyped = memo
        self.note("helper function %s has no contract of its own: its real body (%s) is executed in line" % (name, file))
        return fc

    def call_contract(self, fc, recv, args, kwargs, node):
        if getattr(fc, "memo_untyped", False) and not self.spec_depth:
            args = self._memo_confusion(fc, args)
        env = self.bind(fc, recv, args, kwargs)
        if fc.model is not None:
            if fc.requires and not self.spec_depth:
                self.frames.append(Frame(fc, dict(env)))
                try:
                    for label, clause in fc.requires:
                        f = self.spec_bool(clause)
                        self.ctx.prove("%s:%s@call:%s" % (self.frames[0].fc.key if self.frames[0].fc else "?",
                                                          label, fc.key), _ctext(clause), f,
                                       info={"kind": "call-requires", "callee": fc.key,
                                             "line": getattr(node, "lineno", None)})
                finally:
                    self.frames.pop()
            return fc.model(self, env, args, kwargs)
        if fc.inline or (fc.inline_calls and not self.spec_depth):
            if self.call_depth > 12:
                raise Unsupported("inline depth exceeded at %s" % fc.key)
            self.frames.append(Frame(fc, env))
            self.call_depth += 1
            try:
                try:
                    self.exec_block(fc.extracted.node.body)
                except ReturnEx as r:
                    return r.val
                return NONE
            finally:
                self.call_depth -= 1
                self.frames.pop()
        if self.spec_depth and not fc.pure:
            raise SpecError("call of non-pure %s in a clause" % fc.key)
        th = getattr(self.cset, "trace_helpers", None)
        if th and fc.emits is None:
            used = sorted({h for h in th for _, t in (fc.call_ensures if fc.call_ensures is not None else fc.ensures)
                           if isinstance(t, str) and (h + "(") in t})
            if used:
                raise SpecError("%s is called through its contract, whose postcondition uses trace helper(s) %s, "
                                "but the contract has no `emits`" % (fc.key, used))
        site = "call:%s" % fc.key
        # 1. preconditions are obligations of the caller
        self.frames.append(Frame(fc, dict(env)))
        cinv = []
        if fc.verified and not fc.no_inv and recv is not None and getattr(recv, "tag", None) == "obj" \
                and not self.spec_depth and "." in fc.key:
            from .verify import class_invariants
            cinv = class_invariants(self.cset, fc.key.split(".")[0])
        try:
            for label, clause in cinv:
                f = self.spec_bool(clause)
                self.ctx.prove("%s:%s@%s" % (self.frames[0].fc.key if self.frames[0].fc else "?", label, site),
                               _ctext(clause), f, info={"kind": "call-invariant", "callee": fc.key,
                                                        "line": getattr(node, "lineno", None)})
            for label, clause in fc.requires:
                f = self.spec_bool(clause)
                if self.spec_depth:
                    continue
                self.ctx.prove("%s:%s@%s" % (self.frames[0].fc.key if self.frames[0].fc else "?", label, site),
                               _ctext(clause), f, info={"kind": "call-requires", "callee": fc.key,
                                                        "line": getattr(node, "lineno", None)})
            for nm, text in fc.lets.items():
                self.frames[-1].env[nm] = self.spec_val(text)
                env[nm] = self.frames[-1].env[nm]
            for d in fc.defs:
                self.ctx.assume(self.spec_bool(d))
            if fc.pure or self.spec_depth:
                res = self.fresh(fc.result, self.fresh_name("ret_" + fc.key)) if fc.result is not None else NONE
                saved_res, saved_old = self.result, self.old_heap
                self.result, self.old_heap = res, self.heap
                try:
                    for label, clause in fc.ensures:
                        self.ctx.assume(self.spec_bool(clause))
                finally:
                    self.result, self.old_heap = saved_res, saved_old
                return res
            # 2. snapshot, havoc frame
            snap = self.heap.snapshot()
            self.snapshots.append(snap)
            trace_len = len(self.trace)
            try:
                for loc in (fc.call_modifies if fc.call_modifies is not None else fc.modifies):
                    self.havoc_loc(loc)
                # 3. outcomes: normal or one of the declared exceptions
                outcomes = ["return"] + list(fc.raises.keys())
                i = self.ctx.fork(len(outcomes)) if len(outcomes) > 1 else 0
                saved_res, saved_old, saved_tl = self.result, self.old_heap, self.old_trace_len
                saved_tb = self.trace_base
                self.old_heap, self.old_trace_len = snap, trace_len
                self.trace_base = trace_len
                cs = self.callsites.setdefault((fc.key, getattr(node, "lineno", None)), [0, 0])
                try:
                    if i == 0:
                        cs[0] += 1
                        self.creating_new += 1
                        try:
                            res = self.fresh(fc.result, self.fresh_name("ret_" + fc.key)) if fc.result is not None \
                                else NONE
                        finally:
                            self.creating_new -= 1
                        self.result = res
                        if fc.result is not None:
                            self.ext_returns.append((fc.key, getattr(getattr(recv, "ref", None), "name", None), res))
                        if fc.emits:
                            fc.emits(self, env, res)
                        import os as _os
                        dbg = _os.environ.get("PYVC_TRACE_ASSUME")
                        for label, clause in (fc.call_ensures if fc.call_ensures is not None else fc.ensures):
                            self.ctx.assume(self.spec_bool(clause))
                            if dbg and not self.ctx._feasible(z3.BoolVal(True)):
                                print("INFEASIBLE after assuming %s:%s at line %s" % (fc.key, label,
                                                                                      getattr(node, "lineno", None)))
                                dbg = None
                        for label, clause in cinv:
                            self.ctx.assume(self.spec_bool(clause))
                        if not self.ctx._feasible(z3.BoolVal(True)):
                            raise PathAbort("callee %s cannot return normally here" % fc.key)
                        cs[1] += 1
                        return res
                    exc = outcomes[i]
                    cond = fc.raises[exc]
                    if cond is not True and cond is not None:
                        # the condition is over the entry state
                        saved_h = self.heap
                        self.heap = snap
                        try:
                            self.ctx.assume(self.spec_bool(cond))
                        finally:
                            self.heap = saved_h
                    self.result = None
                    for label, clause in fc.ensures_exc:
                        self.ctx.assume(self.spec_bool(clause))
                    if not self.ctx._feasible(z3.BoolVal(True)):
                        raise PathAbort()
                    self.raise_(exc if exc != "*" else "Exception")
                finally:
                    self.result, self.old_heap, self.old_trace_len = saved_res, saved_old, saved_tl
                    self.trace_base = saved_tb
            finally:
                self.snapshots.remove(snap)
        finally:
            self.frames.pop()

    def havoc_loc(self, loc):
        """loc: 'self.a.b' / 'ghost.x' / 'self.config["k"]' ; trailing '.*' havocs all materialised fields"""
        if loc.startswith("post:"):
            loc = loc[5:]       # resolved in the state after the earlier locations have been havoced
        if loc.endswith(".**"):
            # every abstract container reachable from the value gets fresh contents (concrete structure is kept)
            self.spec_depth += 1
            try:
                v0 = self.eval(ast.parse(loc[:-3], mode="eval").body)
            finally:
                self.spec_depth -= 1
            stack, seen = [v0], set()
            while stack:
                v = stack.pop()
                for _, x in (v.alts if isinstance(v, VUnion) else ((None, v),)):
                    if x.tag in ("list", "dict", "set") and x.ref not in seen:
                        seen.add(x.ref)
                        c = self.heap.data.get((x.ref, "$"))
                        if isinstance(c, LSeq):
                            self.ctx.fresh_n += 1
                            self.heap.data[(x.ref, "$")] = LSeq(z3.Const("%s!%d" % (x.ref.name, self.ctx.fresh_n),
                                                                         c.term.sort()), c.elem)
                            self.modified.add((x.ref, "$"))
                        elif isinstance(c, DMap):
                            self.ctx.fresh_n += 1
                            n_ = "%s!%d" % (x.ref.name, self.ctx.fresh_n)
                            self.heap.data[(x.ref, "$")] = DMap(z3.Const(n_, c.arr.sort()),
                                                                z3.Const(n_ + "?dom", c.dom.sort()), c.kshape, c.vshape)
                            self.modified.add((x.ref, "$"))
                        elif isinstance(c, (LConc, SConc)):
                            stack.extend(c.items)
                        elif isinstance(c, DConc):
                            stack.extend(vv for _, vv in c.entries)
            return
        star = loc.endswith(".*")
        if star:
            loc = loc[:-2]
        node = ast.parse(loc, mode="eval").body
        self.spec_depth += 1
        try:
            if star:
                o = self.force(self.eval(node))
                if o.tag in ("dict", "list"):
                    c = self.container(o.ref)
                    if isinstance(c, DConc):
                        self.heap.data[(o.ref, "$")] = DConc(tuple((k, self.havoc_like(self.force(v_), "havoc"))
                                                                   for k, v_ in c.entries))
                        self.modified.add((o.ref, "$"))
                        return
                    raise SpecError("modifies %s.*: abstract container" % loc)
                if o.tag != "obj":
                    raise SpecError("modifies %s.*: not an object" % loc)
                for (ob, f) in list(self.heap.data.keys()):
                    if ob is o.ref:
                        self._havoc(ob, f)
                return
            if isinstance(node, ast.Attribute):
                o = self.force(self.eval(node.value))
                fld = node.attr
            elif isinstance(node, ast.Subscript):
                o = self.force(self.eval(node.value))
                fld = ast.literal_eval(node.slice)
            else:
                raise SpecError("bad modifies location %s" % loc)
        finally:
            self.spec_depth -= 1
        if o.tag == "none":
            return
        if o.tag != "obj":
            raise SpecError("modifies %s: base is not an object" % loc)
        self._havoc(o.ref, fld)

    def _havoc(self, obj, fld):
        hook = self.cset.havoc_hooks.get((obj.cls, fld))
        if hook is not None:
            hook(self, obj)
            self.modified.add((obj, fld))
            return
        cur = self.heap.data.get((obj, fld))
        if cur is None:
            cur = self.read_field(obj, fld)
            if cur is MISSING:
                raise SpecError("modifies: no shape for %s.%s" % (obj.name, fld))
        cur_s = cur
        if isinstance(cur_s, (VList, VDict, VSet)):
            # container identity kept, contents replaced by fresh abstract contents of the declared shape
            shape = self.field_shape(obj, fld)
            self.ctx.fresh_n += 1
            fresh = self.fresh(shape, "%s.%s!%d" % (obj.name, fld, self.ctx.fresh_n))
            self.heap.data[(cur_s.ref, "$")] = self.heap.data.pop((fresh.ref, "$"))
            self.modified.add((cur_s.ref, "$"))
            return
        self.havoc_field(obj, fld)

    # ---------------------------------------------------------------- spec evaluation
    def spec_val(self, clause):
        self.spec_depth += 1
        try:
            if callable(clause):
                return clause(self)
            node = _parse_clause(clause)
            try:
                return self.eval(node)
            except Raised as r:
                raise SpecError("clause %r raised %s" % (clause, r.exc.cls))
        finally:
            self.spec_depth -= 1

    def spec_bool(self, clause):
        v = self.spec_val(clause)
        if isinstance(v, (z3.BoolRef,)):
            return v
        if isinstance(v, bool):
            return z3.BoolVal(v)
        self.spec_depth += 1
        try:
            return self.truth(v)
        finally:
            self.spec_depth -= 1

    # ================================================================ statements
    def exec_block(self, stmts):
        for s in stmts:
            self.exec(s)

    def exec(self, s):
        m = getattr(self, "s_" + type(s).__name__, None)
        if m is None:
            raise Unsupported("statement %s (line %d)" % (type(s).__name__, s.lineno))
        return m(s)

    def s_Pass(self, s):
        pass

    def s_Expr(self, s):
        self.eval(s.value)

    def s_Return(self, s):
        raise ReturnEx(self.eval(s.value) if s.value is not None else NONE)

    def s_Break(self, s):
        raise BreakEx()

    def s_Continue(self, s):
        raise ContinueEx()

    def s_Global(self, s):
        pass

    def s_Nonlocal(self, s):
        pass

    def s_Import(self, s):
        pass

    def s_ImportFrom(self, s):
        pass

    def s_Assert(self, s):
        if not self.ctx.branch(self.truth(self.eval(s.test))):
            self.raise_("AssertionError")

    def s_Raise(self, s):
        if s.exc is None:
            cur = self.env.get("$exc")
            if cur is None:
                raise Unsupported("bare raise outside handler")
            raise Raised(cur)
        e = self.force(self.eval(s.exc))
        if e.tag == "cls":
            e = VExc(e.name, ())
        if e.tag != "exc":
            raise Unsupported("raise of %r" % e)
        raise Raised(e)

    def s_If(self, s):
        if self.ctx.branch(self.truth(self.eval(s.test))):
            self.exec_block(s.body)
        else:
            self.exec_block(s.orelse)

    def s_Assign(self, s):
        v = self.eval(s.value)
        for t in s.targets:
            self.assign(t, v)

    def s_AnnAssign(self, s):
        if s.value is not None:
            self.assign(s.target, self.eval(s.value))

    def s_AugAssign(self, s):
        load = _as_load(s.target)
        cur = self.eval(load)
        cur_f = self.force(cur)
        rhs = self.eval(s.value)
        if cur_f.tag == "list" and isinstance(s.op, ast.Add):
            from . import builtins_ as B
            B.list_extend(self, cur_f, rhs)
            return
        self.assign(s.target, self.binop(s.op, cur_f, rhs))

    def s_Delete(self, s):
        for t in s.targets:
            if isinstance(t, ast.Name):
                self.env.pop(t.id, None)
            elif isinstance(t, ast.Subscript):
                base = self.force(self.eval(t.value))
                from . import builtins_ as B
                if isinstance(t.slice, ast.Slice):
                    raise Unsupported("del slice")
                B.delitem(self, base, self.eval(t.slice))
            elif isinstance(t, ast.Attribute):
                raise Unsupported("del attribute")
            else:
                raise Unsupported("del target")

    def assign(self, t, v):
        if isinstance(t, ast.Name):
            self.env[t.id] = v
        elif isinstance(t, (ast.Tuple, ast.List)):
            items = self.iter_conc(v)
            if any(isinstance(e, ast.Starred) for e in t.elts):
                raise Unsupported("starred assignment")
            if len(items) != len(t.elts):
                self.raise_("ValueError", "unpack")
            for e, it in zip(t.elts, items):
                self.assign(e, it)
        elif isinstance(t, ast.Attribute):
            base = self.force(self.eval(t.value))
            if base.tag != "obj":
                if base.tag == "none":
                    self.raise_("AttributeError")
                raise Unsupported("attribute assignment on %r" % base)
            fc = self.cset.lookup_method(base.ref.cls, t.attr, setter=True)
            if fc is not None:
                self.call_contract(fc, base, [v], {}, t)
                return
            inferred = (base.ref.cls, t.attr) in self.__dict__.get("_inferred_fields", {}) and \
                self._inferred_fields[(base.ref.cls, t.attr)] is not None if base.ref.kind == "obj" else False
            declared = (base.ref.shape is not None and t.attr in base.ref.shape.fields) or \
                (base.ref.kind == "obj" and self.cset.class_field_shape(base.ref.cls, t.attr) is not None)
            if (not declared and base.ref.shape is not None and not getattr(base.ref, "fresh", False)
                    and (inferred or (base.ref, t.attr) not in self.heap.data
                         or (base.ref, t.attr) in self.undeclared_fields)):
                # a field the contracts do not know (e.g. introduced by a change to the code): it is stored like any
                # other field, but it is outside the specified state - no frame obligation is generated for it
                self.undeclared_fields.add((base.ref, t.attr))
                note = "field %s.%s is not declared in the contracts (written by the code; outside the specified " \
                       "state)" % (base.ref.cls, t.attr)
                if note not in self.notes:
                    self.notes.append(note)
            self.write_field(base.ref, t.attr, v)
        elif isinstance(t, ast.Subscript):
            base = self.force(self.eval(t.value))
            from . import builtins_ as B
            if isinstance(t.slice, ast.Slice):
                raise Unsupported("slice assignment")
            B.setitem(self, base, self.eval(t.slice), v)
        else:
            raise Unsupported("assignment target %s" % type(t).__name__)

    def s_Try(self, s):
        try:
            try:
                self.exec_block(s.body)
            except Raised as r:
                exc = r.exc
                for h in s.handlers:
                    if self.handler_matches(h, exc):
                        if h.name:
                            self.env[h.name] = exc
                        saved = self.env.get("$exc")
                        self.env["$exc"] = exc
                        try:
                            self.exec_block(h.body)
                        finally:
                            if saved is None:
                                self.env.pop("$exc", None)
                            else:
                                self.env["$exc"] = saved
                        break
                else:
                    raise
            else:
                self.exec_block(s.orelse)
        except (Raised, ReturnEx, BreakEx, ContinueEx):
            if s.finalbody:
                self.exec_block(s.finalbody)
            raise
        else:
            if s.finalbody:
                self.exec_block(s.finalbody)

    def handler_matches(self, h, exc):
        if h.type is None:
            return True
        types = h.type.elts if isinstance(h.type, ast.Tuple) else [h.type]
        for t in types:
            nm = ast.unparse(t).split(".")[-1]
            if self.exc_is(exc.cls, nm):
                return True
        return False

    def s_With(self, s):
        raise Unsupported("with statement (line %d)" % s.lineno)

    def s_FunctionDef(self, s):
        self.env[s.name] = VFn("closure", node=s, env=self.env, fc=self.frames[-1].fc)

    # ---------------------------------------------------------------- loops
    def _loopspec(self, node=None):
        fr = self.frames[-1]
        k = fr.loop_ord
        fr.loop_ord += 1
        if fr.fc is None:
            return k, None
        spec = fr.fc.loops.get(k)
        if spec is None and node is not None:
            # a loop that a refactoring moved (e.g. into a helper executed in line): the function under proof may name
            # its loop contracts by a fragment of the loop's test / iterable as well as by ordinal
            root = self.frames[0].fc
            by_text = getattr(root, "loops_by_text", None) or {}
            if by_text and (fr.fc is root or getattr(fr.fc, "auto_inlined", False) or fr.fc.inline):
                text = ast.unparse(node.test if isinstance(node, ast.While) else node.iter)
                for frag, sp in by_text.items():
                    if frag in text:
                        return k, sp
            own = getattr(fr.fc, "loops_by_text", None) or {}
            if own and fr.fc is not root:
                text = ast.unparse(node.test if isinstance(node, ast.While) else node.iter)
                for frag, sp in own.items():
                    if frag in text:
                        return k, sp
        return k, spec

    def s_While(self, s):
        k, spec = self._loopspec(s)
        if spec is None or spec.unroll:
            bound = (spec.unroll if spec and spec.unroll is not True else 12)
            for _ in range(bound):
                if not self.ctx.branch(self.truth(self.eval(s.test))):
                    self.exec_block(s.orelse)
                    return
                try:
                    self.exec_block(s.body)
                except BreakEx:
                    return
                except ContinueEx:
                    continue
            raise Unsupported("while loop %d has no invariant and did not terminate within %d unrollings" % (k, bound))
        self.inv_loop(s, k, spec, cond=lambda: self.truth(self.eval(s.test)), pre_body=None)

    def s_For(self, s):
        k, spec = self._loopspec(s)
        it = self.force(self.eval(s.iter))
        # range loops with symbolic bounds / abstract sequences need invariants; concrete ones unroll
        if it.tag == "fn" and it.kind == "range":
            lo, hi, step = it.lo, it.hi, it.step
            if spec is None and z3.is_int_value(z3.simplify(lo)) and z3.is_int_value(z3.simplify(hi)):
                lo_c, hi_c = z3.simplify(lo).as_long(), z3.simplify(hi).as_long()
                if (hi_c - lo_c) // step <= 300:
                    self._for_conc(s, [VInt(i) for i in range(lo_c, hi_c, step)])
                    return
            if spec is None:
                raise Unsupported("for-range loop %d (line %d) needs an invariant" % (k, s.lineno))
            if step != 1:
                raise Unsupported("range step with invariant")
            if not isinstance(s.target, ast.Name):
                raise Unsupported("range target")
            tname = s.target.id
            self.env[tname] = VInt(lo)

            def cond():
                return self.force(self.env[tname]).t < hi

            def post_body():
                self.env[tname] = VInt(self.force(self.env[tname]).t + 1)
            self.inv_loop(s, k, spec, cond=cond, pre_body=None, post_body=post_body, extra_havoc=[tname],
                          extra_inv=lambda: z3.And(self.force(self.env[tname]).t >= lo,
                                                   z3.Or(self.force(self.env[tname]).t <= hi, hi < lo)))
            return
        if it.tag == "str" and not z3.is_string_value(it.t):
            if spec is None:
                raise Unsupported("for loop %d (line %d) over a symbolic string needs an invariant" % (k, s.lineno))
            idx = spec.index or "_k"
            self.env[idx] = VInt(0)
            sterm, isb = it.t, it.is_bytes

            def cond():
                return self.force(self.env[idx]).t < z3.Length(sterm)

            def pre_body():
                ch = z3.SubString(sterm, self.force(self.env[idx]).t, 1)
                self.assign(s.target, VInt(z3.StrToCode(ch)) if isb else VStr(ch))

            def post_body():
                self.env[idx] = VInt(self.force(self.env[idx]).t + 1)
            self.inv_loop(s, k, spec, cond=cond, pre_body=pre_body, post_body=post_body, extra_havoc=[idx],
                          extra_inv=lambda: z3.And(self.force(self.env[idx]).t >= 0,
                                                   self.force(self.env[idx]).t <= z3.Length(sterm)))
            return
        if it.tag == "list":
            c = self.container(it.ref)
            if isinstance(c, LSeq):
                if spec is None:
                    raise Unsupported("for loop %d (line %d) over an abstract sequence needs an invariant" %
                                      (k, s.lineno))
                idx = spec.index or "_k"
                self.env[idx] = VInt(0)
                ref = it.ref

                def cond():
                    cc = self.container(ref)
                    return self.force(self.env[idx]).t < z3.Length(cc.term)

                def pre_body():
                    cc = self.container(ref)
                    self.assign(s.target, from_term(cc.term[self.force(self.env[idx]).t], cc.elem))

                def post_body():
                    self.env[idx] = VInt(self.force(self.env[idx]).t + 1)
                self.inv_loop(s, k, spec, cond=cond, pre_body=pre_body, post_body=post_body, extra_havoc=[idx],
                              extra_inv=lambda: z3.And(self.force(self.env[idx]).t >= 0, self.force(self.env[idx]).t <=
                                                       z3.Length(self.container(ref).term)))
                return
        # CPython iterates a list by index and re-reads it at every step: deleting from the list inside the
        # loop makes the iterator skip the next element.  Model that for concrete-length lists.
        live_ref, start = None, 0
        if it.tag == "list" and isinstance(self.container(it.ref), LConc):
            live_ref = it.ref
        elif it.tag == "fn" and it.kind == "enum_live":
            live_ref, start = it.ref, it.start
        if live_ref is not None:
            i = 0
            while True:
                c = self.container(live_ref)
                if i >= len(c.items):
                    break
                item = c.items[i]
                self.assign(s.target, VTuple([VInt(start + i), item]) if it.tag == "fn" else item)
                i += 1
                try:
                    self.exec_block(s.body)
                except BreakEx:
                    return
                except ContinueEx:
                    continue
            self.exec_block(s.orelse)
            return
        items = self.iter_items(it)
        self._for_conc(s, items)

    def iter_items(self, it):
        if it.tag == "fn" and it.kind == "iter":
            return list(it.items)
        return self.iter_conc(it)

    def _for_conc(self, s, items):
        for item in items:
            self.assign(s.target, item)
            try:
                self.exec_block(s.body)
            except BreakEx:
                return
            except ContinueEx:
                continue
        self.exec_block(s.orelse)

    def _loop_roles(self, s, spec):
        """resolve the role names of a loop contract to the actual locals (see LoopSpec.roles)"""
        out = {}
        roles = getattr(spec, "roles", None) or {}
        if not roles:
            return out
        body_assigned = _assigned_names(s.body)
        targets = _target_names(s.target) if isinstance(s, ast.For) else set()
        accs = set()
        for st in ast.walk(ast.Module(body=list(s.body), type_ignores=[])):
            if isinstance(st, ast.AugAssign) and isinstance(st.target, ast.Name):
                accs.add(st.target.id)
            if isinstance(st, ast.Assign) and len(st.targets) == 1 and isinstance(st.targets[0], ast.Name):
                nm = st.targets[0].id
                if any(isinstance(x, ast.Name) and x.id == nm for x in ast.walk(st.value)):
                    accs.add(nm)
        accs -= targets
        counters = set()
        for st in ast.walk(ast.Module(body=list(s.body), type_ignores=[])):
            if isinstance(st, ast.AugAssign) and isinstance(st.target, ast.Name) and \
                    isinstance(st.value, ast.Constant) and isinstance(st.op, (ast.Add, ast.Sub)):
                counters.add(st.target.id)
        accs_only = accs - counters
        for cname, rule in roles.items():
            if cname in self.env or cname in body_assigned or cname in targets:
                continue            # the local still has the name the contract uses
            if rule == "target" and len(targets) == 1:
                out[cname] = next(iter(targets))
            elif rule == "acc" and len(accs_only) == 1:
                out[cname] = next(iter(accs_only))
            elif rule == "counter" and len(counters) == 1:
                out[cname] = next(iter(counters))
        return out

    def inv_loop(self, s, k, spec, cond, pre_body=None, post_body=None, extra_havoc=(), extra_inv=None):
        self.loop_aliases.append(self._loop_roles(s, spec))
        try:
            return self._inv_loop(s, k, spec, cond, pre_body, post_body, extra_havoc, extra_inv)
        finally:
            self.loop_aliases.pop()

    def _inv_loop(self, s, k, spec, cond, pre_body=None, post_body=None, extra_havoc=(), extra_inv=None):
        entry = self.heap.snapshot()
        self.snapshots.append(entry)
        self.loop_entry_heaps.append(entry)
        try:
            return self._inv_loop2(s, k, spec, cond, pre_body, post_body, extra_havoc, extra_inv)
        finally:
            self.loop_entry_heaps.pop()

    def _inv_loop2(self, s, k, spec, cond, pre_body=None, post_body=None, extra_havoc=(), extra_inv=None):
        fc = self.frames[-1].fc
        fname = self.frames[0].fc.key

        invs = [(x[1] if isinstance(x, tuple) else x) for x in spec.invariant]
        inv_labels = [(x[0] if isinstance(x, tuple) else "inv[%d]" % i) for i, x in enumerate(spec.invariant)]

        def check_inv(when):
            for i, inv in enumerate(invs):
                f = self.spec_bool(inv)
                self.ctx.prove("%s:loop%d.%s.%s" % (fname, k, inv_labels[i], when), _ctext(inv), f,
                               info={"kind": "loop-invariant", "when": when, "line": s.lineno})

        def assume_inv():
            if extra_inv is not None:
                self.ctx.assume(extra_inv())
            for d in spec.assume:
                self.ctx.assume(self.spec_bool(d))
            for inv in invs:
                self.ctx.assume(self.spec_bool(inv))
        for d in spec.assume:
            self.ctx.assume(self.spec_bool(d))
        check_inv("init")
        # havoc
        assigned = _assigned_names(s.body) | set(extra_havoc)
        if isinstance(s, ast.For):
            assigned -= _target_names(s.target) - set(extra_havoc)
        for nm in sorted(assigned):
            if nm in self.env:
                self.env[nm] = self.havoc_like(self.env[nm], "%s@loop%d" % (nm, k))
        for loc in spec.modifies:
            self.havoc_loc(loc)
        assume_inv()
        which = self.ctx.fork(2)
        if which == 0:
            # arbitrary iteration
            self.ctx.assume(cond())
            iter_trace_start = len(self.trace)
            iter_snap = self.heap.snapshot()
            self.snapshots.append(iter_snap)
            dec0 = self.spec_val(spec.decreases) if spec.decreases else None
            if pre_body:
                pre_body()
            try:
                self.exec_block(s.body)
            except ContinueEx:
                pass
            except BreakEx:
                return
            if post_body:
                post_body()
            for d in spec.assume:
                self.ctx.assume(self.spec_bool(d))
            if spec.body_ensures:
                saved_tb = self.trace_base
                self.trace_base = iter_trace_start
                self.iter_old_heap = iter_snap
                try:
                    for i, cl in enumerate(spec.body_ensures):
                        lab, text = cl if isinstance(cl, tuple) else ("body[%d]" % i, cl)
                        self.ctx.prove("%s:loop%d.%s" % (fname, k, lab), _ctext(text), self.spec_bool(text),
                                       info={"kind": "loop-body", "line": s.lineno})
                finally:
                    self.trace_base = saved_tb
                    self.iter_old_heap = None
            check_inv("preserved")
            if dec0 is not None:
                dec1 = self.spec_val(spec.decreases)
                self.ctx.prove("%s:loop%d.decreases" % (fname, k), spec.decreases,
                               z3.And(self.force(dec1).t < self.force(dec0).t, self.force(dec0).t >= 0),
                               info={"kind": "loop-variant", "line": s.lineno})
            raise PathAbort("end of arbitrary iteration of loop %d" % k)
        self.ctx.assume(z3.Not(cond()))
        if getattr(s, "orelse", None):
            self.exec_block(s.orelse)

    def havoc_like(self, v, name):
        """fresh value with the same tag structure"""
        name = self.fresh_name(name)
        if isinstance(v, VUnion):
            tag = z3.Int(name + "?tag")
            self.ctx.assume(z3.And(tag >= 0, tag < len(v.alts)))
            return VUnion([(tag == i, self.havoc_like(a, name)) for i, (_, a) in enumerate(v.alts)])
        t = v.tag
        if t == "int":
            return VInt(z3.Int(name))
        if t == "real":
            return VReal(z3.Real(name))
        if t == "bool":
            return VBool(z3.Bool(name))
        if t == "str":
            return VStr(z3.String(name), v.is_bytes)
        if t == "none":
            return v
        if t == "opaque":
            return VOpaque(v.sort, z3.Const(name, usort(v.sort)))
        if t == "tuple":
            return VTuple([self.havoc_like(x, name) for x in v.items], v.ntname, v.fields)
        if t == "list":
            c = self.container(v.ref)
            if isinstance(c, LSeq):
                ref = Ref(name)
                self.heap.data[(ref, "$")] = LSeq(z3.Const(name, c.term.sort()), c.elem)
                return VList(ref)
        if t in ("obj", "fn", "cls"):
            return v
        raise Unsupported("cannot havoc loop variable of kind %s" % t)

    # async constructs
    def s_AsyncFor(self, s):
        raise Unsupported("async for")

    def s_AsyncWith(self, s):
        raise Unsupported("async with")


# -------------------------------------------------------------------- helpers
def _real(k, t):
    return t if k == "real" else z3.ToReal(t)


def _sname(shape):
    return {"_Int": "i", "_Real": "r", "_Bool": "b", "_Str": "s", "_Bytes": "y", "_None": "n"}.get(
        type(shape).__name__, type(shape).__name__.lower())


_clause_cache = {}


def _parse_clause(text):
    if text not in _clause_cache:
        _clause_cache[text] = ast.parse(text.strip(), mode="eval").body
    return _clause_cache[text]


def _ctext(clause):
    if callable(clause):
        return getattr(clause, "__doc__", None) or getattr(clause, "__name__", "callable")
    return clause


def _is_pure_bool(node):
    """expression whose evaluation cannot fork on dynamic types in a surprising way: comparisons/boolean combos"""
    if isinstance(node, ast.Compare):
        return not any(isinstance(o, (ast.In, ast.NotIn)) for o in node.ops)
    if isinstance(node, ast.BoolOp):
        return all(_is_pure_bool(v) for v in node.values)
    if isinstance(node, ast.UnaryOp) and isinstance(node.op, ast.Not):
        return _is_pure_bool(node.operand)
    if isinstance(node, ast.Call) and isinstance(node.func, ast.Name) and node.func.id in ("implies", "iff"):
        return all(_is_pure_bool(a) for a in node.args)
    if isinstance(node, ast.Constant) and isinstance(node.value, bool):
        return True
    return False


def _no_effects(node):
    """expression without calls/awaits/assignments (safe to evaluate speculatively and to re-evaluate)"""
    for x in ast.walk(node):
        if isinstance(x, (ast.Call, ast.Await, ast.NamedExpr, ast.Yield, ast.YieldFrom, ast.Lambda, ast.ListComp,
                          ast.SetComp, ast.DictComp, ast.GeneratorExp)):
            return False
    return True


def _as_load(t):
    import copy
    t2 = copy.deepcopy(t)
    for n in ast.walk(t2):
        if hasattr(n, "ctx"):
            n.ctx = ast.Load()
    return t2


def _target_names(t):
    out = set()
    for n in ast.walk(t):
        if isinstance(n, ast.Name):
            out.add(n.id)
    return out


def _assigned_names(stmts):
    out = set()
    for s in stmts:
        for n in ast.walk(s):
            if isinstance(n, (ast.Assign,)):
                for t in n.targets:
                    if isinstance(t, ast.Name):
                        out.add(t.id)
                    elif isinstance(t, (ast.Tuple, ast.List)):
                        out |= {e.id for e in ast.walk(t) if isinstance(e, ast.Name) and isinstance(e.ctx, ast.Store)}
            elif isinstance(n, (ast.AugAssign, ast.AnnAssign)):
                if isinstance(n.target, ast.Name):
                    out.add(n.target.id)
            elif isinstance(n, (ast.For,)):
                out |= _target_names(n.target)
            elif isinstance(n, ast.NamedExpr):
                out.add(n.target.id)
    return out
