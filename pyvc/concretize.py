"""Turn a solver model into a concrete input tree for the native replay
harness, and concretise the engine's predicted outcome for comparison."""
import z3

from .vals import *     # noqa
from .interp import MISSING

MAX_DEPTH = 5


class Concretizer:
    def __init__(self, I, model, heap):
        self.I = I
        self.m = model
        self.heap = heap
        self.seen = {}

    def ev(self, t):
        return self.m.eval(t, model_completion=True)

    def guard(self, g):
        return z3.is_true(self.ev(g))

    def val(self, v, depth=0):
        I = self.I
        if isinstance(v, VUnion):
            for g, a in v.alts:
                if self.guard(g):
                    return self.val(a, depth)
            return {"$unknown": "no union alternative holds in the model"}
        t = v.tag
        if t == "none":
            return None
        if t == "bool":
            return bool(self.guard(v.t))
        if t == "int":
            r = self.ev(v.t)
            try:
                return r.as_long()
            except Exception:       # noqa
                return {"$unknown": str(r)}
        if t == "real":
            r = self.ev(v.t)
            try:
                f = r.as_fraction()
                return {"$float": [f.numerator, f.denominator]}
            except Exception:       # noqa
                try:
                    return {"$float_approx": r.approx(12).as_decimal(12)}
                except Exception:   # noqa
                    return {"$unknown": str(r)}
        if t == "str":
            r = self.ev(v.t)
            try:
                s = r.as_string()
            except Exception:       # noqa
                return {"$unknown": str(r)}
            if v.is_bytes:
                return {"$bytes": [ord(c) for c in _unescape(s)]}
            return _unescape(s)
        if t == "tuple":
            d = {"$tuple": [self.val(x, depth + 1) for x in v.items]}
            if v.ntname:
                d["$nt"] = v.ntname
                d["$fields"] = list(v.fields or [])
            return d
        if t == "obj":
            return self.obj(v.ref, depth)
        if t == "list":
            c = self.heap.data.get((v.ref, "$"))
            if isinstance(c, LConc):
                return [self.val(x, depth + 1) for x in c.items]
            if isinstance(c, LSeq):
                return self.seq(c)
            return []
        if t == "dict":
            c = self.heap.data.get((v.ref, "$"))
            if isinstance(c, DConc):
                return {"$dict": [[self.obj(k, depth + 1) if isinstance(k, Obj) else
                                   (self.val(k, depth + 1) if isinstance(k, Val) else k), self.val(x, depth + 1)]
                                  for k, x in c.entries]}
            if isinstance(c, DMap):
                return {"$dict": self.dmap(c, v.ref)}
            return {"$dict": []}
        if t == "set":
            c = self.heap.data.get((v.ref, "$"))
            return {"$set": [self.val(x, depth + 1) for x in c.items]} if c else {"$set": []}
        if t == "opaque":
            d = {"$opaque": v.sort, "id": str(self.ev(v.t))}
            info = getattr(self.I.cset, "opaque_info", {}).get(v.sort)
            if info is not None and depth < MAX_DEPTH:
                try:
                    d["ghost"] = info(self.I, self, v, self.heap)
                except Exception as e:      # noqa
                    d["ghost_error"] = str(e)
            return d
        if t == "fn":
            if v.kind == "bound":
                o = v.obj
                return {"$method": v.name, "of": o.name if isinstance(o, Obj) else str(o)}
            if v.kind == "partial":
                return {"$partial": self.val(v.fn, depth + 1), "args": [self.val(a, depth + 1) for a in v.args],
                        "kwargs": {k: self.val(a, depth + 1) for k, a in v.kwargs.items()}}
            return {"$fn": v.kind, "name": getattr(v, "name", getattr(v, "key", None))}
        if t == "cls":
            return {"$cls": v.name}
        if t == "exc":
            return {"$exc": v.cls}
        return {"$unknown": repr(v)}

    def seq(self, c):
        n = self.ev(z3.Length(c.term))
        try:
            n = n.as_long()
        except Exception:       # noqa
            return {"$unknown": "seq length"}
        out = []
        for i in range(min(n, 16)):
            out.append(self.val(from_term(c.term[i], c.elem)))
        return out

    def dmap(self, c, ref):
        """entries of an abstract map under the model, for the keys used on the path (+ a small int range)"""
        keys = []
        for kt in self.I.dmap_keys.get(ref, []):
            keys.append(self.ev(kt))
        if c.kshape is Int:
            keys.extend(z3.IntVal(i) for i in range(-1, 48))
        out, seen = [], set()
        for k in keys:
            ks = str(k)
            if ks in seen:
                continue
            seen.add(ks)
            if z3.is_true(self.ev(z3.Select(c.dom, k))):
                out.append([self.val(from_term(k, c.kshape)), self.val(from_term(z3.Select(c.arr, k), c.vshape))])
        return out

    def obj(self, o, depth):
        if o in self.seen:
            return {"$ref": self.seen[o]}
        oid = "o%d" % len(self.seen)
        self.seen[o] = oid
        fields = {}
        names = set()
        if o.shape is not None:
            names |= set(o.shape.fields)
        if o.kind == "obj":
            stack, seen = [o.cls], set()
            while stack:
                c = stack.pop()
                if c in seen:
                    continue
                seen.add(c)
                spec = self.I.cset.classes.get(c)
                if spec:
                    names |= set(spec.fields)
                    stack.extend(spec.bases)
        for (ob, f) in list(self.heap.data.keys()):
            if ob is o:
                names.add(f)
        if depth < MAX_DEPTH:
            for f in sorted(names, key=str):
                v = self.heap.data.get((o, f))
                if v is None:
                    sh = self.I.field_shape(o, f)
                    if isinstance(sh, (Init, Lazy)):
                        continue        # never touched on this path: do not materialise (an Init may fork)
                    try:
                        v = self.I.read_field(o, f, heap=self.heap)
                    except Exception:       # noqa
                        v = MISSING
                if v is MISSING or not isinstance(v, Val):
                    continue
                fields[f] = self.val(v, depth + 1)
        return {"$obj": o.cls, "$kind": o.kind, "$id": oid, "$name": o.name, "fields": fields}


def _unescape(s):
    # z3 prints non-ascii as \u{..}
    import re
    return re.sub(r"\\u\{([0-9a-fA-F]+)\}", lambda m: chr(int(m.group(1), 16)), s)


def concretize_path(I, entry_env, entry_heap, model, outcome, ext_returns):
    cz = Concretizer(I, model, entry_heap)
    params = {}
    for k, v in entry_env.items():
        if isinstance(v, Val):
            params[k] = cz.val(v)
        elif isinstance(v, dict):
            params[k] = {"$kwargs": {kk: cz.val(vv) for kk, vv in v.items() if isinstance(vv, Val)}}
    # predicted behaviour on this path under the model (post-state heap)
    cz2 = Concretizer(I, model, I.heap)
    cz2.seen = {}
    pred = {"trace": []}
    for ev in I.trace:
        a = {}
        for k, v in ev.args.items():
            if isinstance(v, Val):
                a[k] = cz2.val(v, 3)
            elif isinstance(v, dict):
                a[k] = {kk: cz2.val(vv, 3) for kk, vv in v.items() if isinstance(vv, Val)}
            elif isinstance(v, tuple):
                a[k] = [cz2.val(x, 3) for x in v if isinstance(x, Val)]
            elif isinstance(v, Obj):
                a[k] = v.name
            else:
                a[k] = v if isinstance(v, (str, int, float, bool, type(None))) else str(v)
        pred["trace"].append({"name": ev.name, "args": a})
    if outcome is not None:
        if outcome[0] == "return":
            pred["outcome"] = "return"
            pred["value"] = cz2.val(outcome[1], 2)
        else:
            pred["outcome"] = "raise"
            pred["exception"] = outcome[1].cls
    rets = []
    for key, recv, v in ext_returns:
        rets.append({"callee": key, "receiver": recv, "value": cz2.val(v, 2)})
    return {"params": params, "predicted": pred, "ext_returns": rets}
