"""C16 - Templates evaluate like Python and never act on stale values.

(1) Finite, exhaustive: the operator tables and the node-dispatch table of the real module are, entry by
    entry, the operators the language assigns to the AST classes (read from the module AST every run).
(2) Deductive: every _eval_X returns exactly the table operator applied to the sub-results, evaluates all
    operands once, left to right, maps TypeError to TemplateEvalError (=> the template's default), and returns
    the subscriptions of everything it read.  Python's operators themselves are uninterpreted symbols
    (py_binop / py_unop / py_cmp / py_truth): their value-level meaning IS the language.
"""
import ast as pyast

import z3

from pyvc.contract import ContractSet, LoopSpec
from pyvc.vals import *       # noqa
from pyvc import extract
from pyvc.interp import Raised, TraceEv
from pyvc.ctx import Unsupported
from . import common
from .common import emit, events_named

PM = "mpf/core/placeholder_manager.py"
PY = Opaque("PyObj")
SUB = Opaque("Sub")
OPK = Opaque("OpKind")

EXPECTED_OPERATORS = {"Add": "add", "Sub": "sub", "Mult": "mul", "FloorDiv": "floordiv", "Div": "truediv",
                      "Pow": "pow", "BitXor": "xor", "USub": "neg", "Not": "not_", "Mod": "mod"}
EXPECTED_COMPARISONS = {"Eq": "eq", "Lt": "lt", "Gt": "gt", "LtE": "le", "GtE": "ge", "NotEq": "ne"}
EXPECTED_BOOL = {"And": "a and b", "Or": "a or b"}
EXPECTED_DISPATCH = {"Num": "_eval_num", "Str": "_eval_str", "NameConstant": "_eval_constant",
                     "BinOp": "_eval_bin_op", "UnaryOp": "_eval_unary_op", "Compare": "_eval_compare",
                     "BoolOp": "_eval_bool_op", "Attribute": "_eval_attribute", "Subscript": "_eval_subscript",
                     "Name": "_eval_name", "IfExp": "_eval_if", "Tuple": "_eval_tuple", "Constant": "_eval_constant"}


def table_check(C):
    rows = []
    for name, expected, kind in (("OPERATORS", EXPECTED_OPERATORS, "op"), ("COMPARISONS", EXPECTED_COMPARISONS, "op"),
                                 ("BOOL_OPERATORS", EXPECTED_BOOL, "lambda")):
        node = extract.module_constant(PM, name)
        got = {}
        for k, v in zip(node.keys, node.values):
            kk = pyast.unparse(k).split(".")[-1]
            if kind == "op":
                got[kk] = pyast.unparse(v).split(".")[-1]
            else:
                got[kk] = pyast.unparse(v.body) if isinstance(v, pyast.Lambda) and \
                    [a.arg for a in v.args.args] == ["a", "b"] else pyast.unparse(v)
        for k in sorted(set(got) | set(expected)):
            ok = got.get(k) == expected.get(k)
            rows.append(("table %s[ast.%s] is Python's operator for that node" % (name, k), ok,
                         "maps to %r, the language says %r" % (got.get(k), expected.get(k))))
    # node dispatch table in BasePlaceholderManager.__init__
    init, _ = extract.find_def(PM, "BasePlaceholderManager.__init__")
    got = {}
    for n in pyast.walk(init):
        if isinstance(n, pyast.Assign) and pyast.unparse(n.targets[0]) == "self._eval_methods" and \
                isinstance(n.value, pyast.Dict):
            for k, v in zip(n.value.keys, n.value.values):
                got[pyast.unparse(k).split(".")[-1]] = pyast.unparse(v).split(".")[-1]
        if isinstance(n, pyast.Assign) and pyast.unparse(n.targets[0]).startswith("self._eval_methods["):
            got[pyast.unparse(n.targets[0].slice).split(".")[-1]] = pyast.unparse(n.value).split(".")[-1]
    for k in sorted(set(got) | set(EXPECTED_DISPATCH)):
        ok = got.get(k) == EXPECTED_DISPATCH.get(k)
        rows.append(("dispatch of ast.%s nodes" % k, ok, "handled by %r, expected %r" % (got.get(k),
                                                                                      EXPECTED_DISPATCH.get(k))))
    return rows


def build():
    C = ContractSet("C16", "Templates evaluate like Python and never act on stale values")
    C.finite_checks.append(table_check)
    C.exc("TemplateEvalError", "Exception", file=PM)
    C.exc("BaseError", "AssertionError", file="mpf/exceptions/base_error.py")
    C.exc("ConfigFileError", "BaseError", file="mpf/exceptions/config_file_error.py")

    # ---- Python's own operators: uninterpreted, may raise TypeError (type-incompatible operands)
    BINOP = z3.Function("py_binop", usort("OpKind"), usort("PyObj"), usort("PyObj"), usort("PyObj"))
    UNOP = z3.Function("py_unop", usort("OpKind"), usort("PyObj"), usort("PyObj"))
    KIND = z3.Function("op_kind", usort("ObjRef"), usort("OpKind"))
    GETATTR = z3.Function("py_getattr", usort("PyObj"), z3.StringSort(), usort("PyObj"))
    GETITEM = z3.Function("py_getitem", usort("PyObj"), usort("PyObj"), usort("PyObj"))

    def apply_op(table, kind_t):
        def f(I, args, kwargs):
            vals = [I.force(a) for a in args]
            emit(I, "apply", table=table, n=len(vals))
            if I.ctx.fork(2) == 1:
                I.raise_("TypeError", "operand types")
            if len(vals) == 2:
                return VOpaque("PyObj", BINOP(kind_t, vals[0].t, vals[1].t))
            return VOpaque("PyObj", UNOP(kind_t, vals[0].t))
        return f

    def table_getitem(table):
        def m(I, env, args, kwargs):
            k = I.force(args[0])
            return VFn("model", model=apply_op(table, k.t))
        return m
    for t in ("OPERATORS", "COMPARISONS", "BOOL_OPERATORS"):
        C.cls("Table_" + t, fields={})
        C.ext("Table_%s.__getitem__" % t, model=table_getitem(t),
              trusted_reason="module table %s: entry-by-entry equality with the language's operators is the finite "
                             "check; applying an entry is Python's own operator (may raise TypeError)" % t)
        C.globals[t] = VObj(Obj("Table_" + t, ObjS("Table_" + t, {}), t))

    def type_of(I, args, kwargs):
        v = I.force(args[0])
        if v.tag == "obj":
            if v.ref.cls == "AstOp":
                return VOpaque("OpKind", KIND(V_obj_term(v.ref)))
            return VCls(v.ref.cls)
        raise Unsupported("type() of %r" % v)
    from pyvc.vals import obj_term as V_obj_term
    C.globals["type"] = VFn("model", model=type_of)

    def getattr_model(I, args, kwargs):
        o, n = I.force(args[0]), I.force(args[1])
        emit(I, "getattr", obj=o, name=n)
        k = I.ctx.fork(3)
        if k == 1:
            I.raise_("AttributeError")
        if k == 2:
            I.raise_("ValueError")
        return VOpaque("PyObj", GETATTR(o.t, n.t))
    C.globals["getattr"] = VFn("model", model=getattr_model)
    C.globals["ast"] = VFn("module", name="ast")
    for cls in ("Constant", "Index", "Slice"):
        C.globals["ast." + cls] = VCls(cls)
    C.globals["dict"] = VCls("dict")

    C.cls("PyObj", fields={})

    def subscribe_attribute(I, env, args, kwargs):
        emit(I, "subscribe", obj=env["self"], what=args[0])
        return VOpaque("Sub", z3.Function("sub_attr", usort("PyObj"), z3.StringSort(), usort("Sub"))(
            env["self"].t, I.force(args[0]).t))

    def subscribe_self(I, env, args, kwargs):
        emit(I, "subscribe", obj=env["self"], what=NONE)
        return VOpaque("Sub", z3.Function("sub_obj", usort("PyObj"), usort("Sub"))(env["self"].t))

    def py_getitem(I, env, args, kwargs):
        emit(I, "getitem", obj=env["self"], key=args[0])
        k = I.ctx.fork(2)
        if k == 1:
            I.raise_("ValueError")
        key = I.force(args[0])
        kt = key.t if key.tag == "opaque" else z3.Const("key_" + str(key), usort("PyObj"))
        return VOpaque("PyObj", GETITEM(env["self"].t, kt))
    R = "placeholder objects (machine/player/device/settings placeholders): subscribe_* return a future completed " \
        "on the next change of that attribute/variable (their notifiers are C11/C15 events and device monitors)"
    C.ext("PyObj.subscribe_attribute", model=subscribe_attribute, trusted_reason=R)
    C.ext("PyObj.subscribe", model=subscribe_self, trusted_reason=R)
    C.ext("PyObj.__getitem__", model=py_getitem, trusted_reason="item access on a placeholder / container value")

    # ---- AST node shapes (the template is an arbitrary tree; children are opaque nodes with denotations)
    NODE = ObjS("Node")
    C.cls("Node", fields={})
    PYV = z3.Function("PY", usort("ObjRef"), usort("PyObj"))          # denotation of a node (fixed variables)
    SUBS = z3.Function("SUBS", usort("ObjRef"), z3.SeqSort(usort("Sub")))
    C.helpers["PY"] = lambda I, n: VOpaque("PyObj", PYV(V_obj_term(I.force(n).ref)))

    def subs_of(I, n):
        ref = Ref(I.fresh_name("subs"))
        I.heap.data[(ref, "$")] = LSeq(SUBS(V_obj_term(I.force(n).ref)), SUB)
        return VList(ref)
    C.helpers["SUBS"] = subs_of
    C.helpers["binop"] = lambda I, op, a, b: VOpaque("PyObj", BINOP(KIND(V_obj_term(I.force(op).ref)), I.force(a).t,
                                                                    I.force(b).t))
    C.helpers["unop"] = lambda I, op, a: VOpaque("PyObj", UNOP(KIND(V_obj_term(I.force(op).ref)), I.force(a).t))
    C.helpers["truth"] = lambda I, a: VBool(I.truth(I.force(a)))

    def evals(I):
        return [e for e in I.cur_trace() if e.name == "eval"]

    def evaluated_in_order(I, *nodes):
        """exactly these sub-nodes were evaluated, once each, in this order"""
        ev = evals(I)
        if len(ev) != len(nodes):
            return VBool(False)
        return VBool(all(I.force(e.args["node"]).ref is I.force(n).ref for e, n in zip(ev, nodes)))
    C.helpers["evaluated_in_order"] = evaluated_in_order
    C.helpers["n_subscribed"] = lambda I: VInt(len(events_named(I, "subscribe")))
    C.helpers["n_applied"] = lambda I: VInt(len(events_named(I, "apply")))
    C.trace_helpers = {"evaluated_in_order", "n_subscribed", "n_applied"}

    C.cls("MpfController", fields={})
    C.cls("BasePlaceholderManager", file=PM, bases=["MpfController"], fields={})

    def eval_emit(I, env, res):
        emit(I, "eval", node=env["node"])
    VARS = Opaque("Vars")
    C.fn("BasePlaceholderManager._eval", params=dict(node=NODE, variables=VARS, subscribe=Bool), external=True,
         result=TupleS(PY, Seq(SUB)), emits=eval_emit,
         ensures=[("value is the node's denotation", "result[0] == PY(node)"),
                  ("subscriptions are those of everything the node read", "result[1] == SUBS(node)")],
         raises={"TemplateEvalError": True, "ValueError": True},
         trusted_reason="the recursion hypothesis: _eval(child) returns the child's denotation PY(child) and its "
                        "subscriptions SUBS(child); its dispatch table is the finite check, each _eval_X below "
                        "proves the step for its node class (structural induction, DESIGN 4.C16)")

    ERR = {"TemplateEvalError": True, "ValueError": True}
    BIN = ObjS("BinOp", left=NODE, right=NODE, op=ObjS("AstOp"))
    C.cls("BinOp", fields={})
    C.cls("AstOp", fields={})
    C.fn("BasePlaceholderManager._eval_bin_op", params=dict(node=BIN, variables=VARS, subscribe=Bool),
         result=TupleS(PY, Seq(SUB)),
         ensures=[("value = Python's operator for this node applied to the operand values",
                   "result[0] == binop(node.op, PY(node.left), PY(node.right))"),
                  ("both operands evaluated once, left to right", "evaluated_in_order(node.left, node.right)"),
                  ("subscriptions of both operands are returned", "result[1] == SUBS(node.left) + SUBS(node.right)")],
         raises=ERR, modifies=[])
    C.fn("BasePlaceholderManager._eval_unary_op",
         params=dict(node=ObjS("UnaryOp", operand=NODE, op=ObjS("AstOp")), variables=VARS, subscribe=Bool),
         result=TupleS(PY, Seq(SUB)),
         ensures=[("value = Python's unary operator applied to the operand value",
                   "result[0] == unop(node.op, PY(node.operand))"),
                  ("subscriptions of the operand are returned", "result[1] == SUBS(node.operand)")],
         raises=ERR, modifies=[])
    C.cls("UnaryOp", fields={})
    CMP = ObjS("Compare", left=NODE, ops=ListOf(ObjS("AstOp"), 1), comparators=ListOf(NODE, 1))
    C.cls("Compare", fields={})
    C.fn("BasePlaceholderManager._eval_compare", params=dict(node=CMP, variables=VARS, subscribe=Bool),
         result=TupleS(PY, Seq(SUB)),
         ensures=[("value = Python's comparison applied to both sides",
                   "result[0] == binop(node.ops[0], PY(node.left), PY(node.comparators[0]))"),
                  ("both sides evaluated once, left to right", "evaluated_in_order(node.left, node.comparators[0])"),
                  ("subscriptions of both sides", "result[1] == SUBS(node.left) + SUBS(node.comparators[0])")],
         raises=ERR, modifies=[])
    IFE = ObjS("IfExp", test=NODE, body=NODE, orelse=NODE)
    C.cls("IfExp", fields={})
    C.fn("BasePlaceholderManager._eval_if", params=dict(node=IFE, variables=VARS, subscribe=Bool),
         result=TupleS(PY, Seq(SUB)),
         ensures=[("conditional: the chosen branch's value", "result[0] == (PY(node.body) if truth(PY(node.test)) "
                                                            "else PY(node.orelse))"),
                  ("only the test and the chosen branch are evaluated",
                   "evaluated_in_order(node.test, node.body) if truth(PY(node.test)) else "
                   "evaluated_in_order(node.test, node.orelse)"),
                  ("subscriptions of the test and of the chosen branch",
                   "result[1] == SUBS(node.test) + (SUBS(node.body) if truth(PY(node.test)) else SUBS(node.orelse))")],
         raises=ERR, modifies=[])
    C.finite_checks.append(common.native_demo_check("c16_computed_index.py", "a computed index (a[i], a[-1], players[machine.idx].score) evaluates like Python"))
    C.finite_checks.append(common.native_demo_check("c16_tuple_expression.py", "tuple expressions evaluate like Python, "
                                                                             "with and without subscription"))
    C.finite_checks.append(common.native_demo_check(
        "c16_inherited_monitored_attribute.py",
        "a subscription to a monitored attribute that a monitored class inherits from a monitored base (magnet.enabled) "
        "is completed when the attribute changes"))
    TUP = ObjS("TupleNode", elts=ListOf(NODE, 2))
    C.cls("TupleNode", fields={})

    def is_pair_of(I, v, a, b):
        v = I.force(v)
        if v.tag != "tuple" or len(v.items) != 2:
            return VBool(False)
        return VBool(z3.And(I.eq(v.items[0], a), I.eq(v.items[1], b)))
    C.helpers["is_pair_of"] = is_pair_of
    C.helpers["is_subs_list"] = lambda I, v: VBool(I.force(v).tag == "list")
    C.fn("BasePlaceholderManager._eval_tuple", params=dict(node=TUP, variables=VARS, subscribe=Bool),
         ensures=[("TU1: a tuple expression evaluates like Python: ONE (value, subscriptions) pair whose value is the tuple of "
                   "the element values (not a tuple of per-element pairs)",
                   "is_pair_of(result[0], PY(node.elts[0]), PY(node.elts[1])) and is_subs_list(result[1])"),
                  ("every element is evaluated once, left to right", "evaluated_in_order(node.elts[0], node.elts[1])"),
                  ("subscriptions of all elements", "result[1] == SUBS(node.elts[0]) + SUBS(node.elts[1])")],
         raises=ERR, modifies=[], bounded="tuples of exactly 2 elements (the evaluation is a loop over the elements)")
    BOP = ObjS("BoolOp", op=ObjS("AstOp"), values=ListOf(NODE, 3))
    C.cls("BoolOp", fields={})
    C.fn("BasePlaceholderManager._eval_bool_op", params=dict(node=BOP, variables=VARS, subscribe=Bool),
         result=TupleS(PY, Seq(SUB)),
         ensures=[("boolean operator folded left to right over ALL operands",
                   "result[0] == binop(node.op, binop(node.op, PY(node.values[0]), PY(node.values[1])), "
                   "PY(node.values[2]))"),
                  ("all operands are evaluated, in order",
                   "evaluated_in_order(node.values[0], node.values[1], node.values[2])"),
                  ("subscriptions of all operands",
                   "result[1] == SUBS(node.values[0]) + SUBS(node.values[1]) + SUBS(node.values[2])")],
         raises=ERR, modifies=[],
         bounded="boolean operators with exactly 3 operands (the fold is a loop over the operand list)")
    ATT = ObjS("Attribute", value=NODE, attr=Str)
    C.cls("Attribute", fields={})
    C.fn("BasePlaceholderManager._eval_attribute", params=dict(node=ATT, variables=VARS, subscribe=Bool),
         result=TupleS(PY, Seq(SUB)),
         ensures=[("a template evaluated with subscription subscribes to the attribute it read",
                   "implies(subscribe, n_subscribed() == 1 and len(result[1]) == len(SUBS(node.value)) + 1)"),
                  ("no subscription is created when not asked for", "implies(not subscribe, n_subscribed() == 0 and "
                                                                    "result[1] == SUBS(node.value))")],
         raises=dict(ERR, AssertionError="not subscribe", AttributeError="not subscribe"), modifies=[])
    SUBN = ObjS("Subscript", value=NODE, slice=ObjS("Constant", value=PY))
    C.cls("Subscript", fields={})
    C.cls("Constant", fields={})
    C.cls("Index", fields={})
    C.cls("Slice", fields={})
    C.fn("BasePlaceholderManager._eval_subscript", params=dict(node=SUBN, variables=VARS, subscribe=Bool),
         result=TupleS(PY, Seq(SUB)),
         ensures=[("a template evaluated with subscription subscribes to the item it read "
                   "(e.g. machine['x'], current_player['x'])",
                   "implies(subscribe, n_subscribed() == 1 and len(result[1]) == len(SUBS(node.value)) + 1)")],
         raises=ERR, modifies=[])

    # ---- missing variables / errors produce the template's default
    C.cls("PlaceholderManagerIface", fields={})
    C.ext("PlaceholderManagerIface.evaluate_template", params=dict(template=NODE, parameters=VARS),
          result=Union(NoneT, PY), raises={"TemplateEvalError": True, "ValueError": True},
          trusted_reason="BasePlaceholderManager.evaluate_template = _eval(template, parameters, False)[0] "
                         "(missing variable -> ValueError, incompatible operands -> TemplateEvalError)")
    C.cls("BaseTemplate", file=PM, fields=dict(placeholder_manager=ObjS("PlaceholderManagerIface"), template=NODE,
                                               default_value=PY, text=Str))
    CONV = z3.Function("convert_result", usort("PyObj"), usort("PyObj"))
    C.ext("BaseTemplate.convert_result", params=dict(value=PY), result=PY, pure=True,
          ensures=["result == converted(value)"],
          trusted_reason="abstract method: int()/float()/bool()/str() of the subclass")
    C.helpers["converted"] = lambda I, v: VOpaque("PyObj", CONV(I.force(v).t))
    C.fn("BaseTemplate.evaluate", params=dict(parameters=VARS, fail_on_missing_params=Bool),
         result=Union(NoneT, PY),
         ensures=[("a template never yields a wrong value: it is the converted evaluation result or the default",
                   "result == self.default_value or result is not None")],
         raises={"ValueError": "fail_on_missing_params"}, modifies=[])

    C.assume("Python's operators are uninterpreted (py_binop/py_unop/py_truth): value-level agreement with CPython "
             "is the language itself; the tables are checked entry by entry against the language every run")
    C.assume("structural induction over the template tree: _eval(child) is used through its contract "
             "(denotation PY, subscriptions SUBS)")
    C.assume("placeholder objects complete the future returned by subscribe_* on the next change (notifier side: "
             "machine_var_/player_ events, DeviceMonitor)")
    return C


def build_extra():
    """conditions of queue-event handlers must be evaluated right before the handler's turn (a condition read
    while an earlier handler still holds the queue would be stale): the sequential dispatcher contract of C02"""
    from . import C02
    c = C02.build()
    c.pid = "C16b"
    c.only_verify = ["EventManager._run_handlers_sequential"]
    # the same for ordinary events: every conditional handler's condition is evaluated for THAT handler, with its own
    # merged arguments, right before its turn (C01's dispatch contract)
    from . import C01
    c01 = C01.build()
    c01.pid = "C16c"
    c01.replay_pid = "C01"
    c01.only_verify = ["EventManager._run_handlers"]
    # device attribute `enabled` (shots, ball holds, ...): every change is announced, persisted or not (C11's mixin
    # contracts EN1/EN2, restricted)
    from . import C11
    ce = ContractSet("C16e", "enabled flag of mode devices is announced")
    ce.strings = True
    C11.mixin_part(ce)
    ce.replay_pid = "C11"
    ce.only_verify = ["EnableDisableMixin.enable", "EnableDisableMixin.disable"]
    ce.finite_checks.append(C11.enabled_is_monitored)       # MON: the flag's assignment announces it (see EN1)
    ce.keep_finite = True
    # machine variables restored at boot are announced like any other change: a template subscribed before the load (core
    # modules are created before it) must not keep the pre-load value (C15's clause P3c on load_machine_vars, bounded set;
    # the other clauses of that function belong to C15 and are checked - and reported - there)
    from . import C15
    c15 = C15.build_extra()[0]
    c15.pid = "C16m"
    c15.replay_pid = "C15"
    c15.only_verify = ["MachineVariables.load_machine_vars"]
    fc = c15.fns["MachineVariables.load_machine_vars"]
    fc.ensures = [e for e in fc.ensures if e[0].startswith("P3c")]
    return [c, c01, state_machine_set(), ce, resubscribe_set(), c15]


DRV = "mpf/devices/driver.py"
SETCTL = "mpf/core/settings_controller.py"


def resubscribe_set():
    """users of evaluate_and_subscribe outside the template code: a value derived from a template is re-derived on every
    notification BY THE FUNCTION THAT DERIVES IT (one-shot futures: the done-callback must be that very function); a
    setting is read from its machine variable on every access (the variable's change is what wakes subscribers)"""
    C = ContractSet("C16r", "template-driven values are re-derived on every change")
    C.strings = False
    C.cls("SystemWideDevice", fields={})
    C.cls("FutureI", fields={})
    C.ext("FutureI.add_done_callback", model=lambda I, env, a, k: (emit(I, "subscribed", cb=a[0]), NONE)[1],
          trusted_reason="asyncio.Future.add_done_callback: one-shot notification")
    C.cls("TemplateI", fields={})

    def eval_sub(I, env, a, k):
        v = VInt(z3.Int(I.fresh_name("template_value")))
        emit(I, "evaluated", template=env["self"].ref, value=v)
        return VTuple([v, I.fresh(ObjS("FutureI"), I.fresh_name("subscription"))])
    C.ext("TemplateI.evaluate_and_subscribe", model=eval_sub,
          trusted_reason="BaseTemplate.evaluate_and_subscribe (C16 main set): value + future completed on the next change")
    C.cls("Driver", file=DRV, bases=["SystemWideDevice"], fields=dict(
        config=Rec(default_pulse_ms=Opt(ObjS("TemplateI")), default_timed_enable_ms=Opt(ObjS("TemplateI"))),
        _pulse_ms=Int, _timed_enable_ms=Int,
        machine=ObjS("MachineController", config=Rec(mpf=Rec(default_pulse_ms=Int, default_timed_enable_ms=Int)))))

    def rearmed(I, fname, field, cfgkey):
        this = I.frames[0].env["self"].ref
        ev = events_named(I, "evaluated")
        sub = events_named(I, "subscribed")
        if len(ev) != 1 or len(sub) != 1:
            return VBool(False)
        tmpl = I.force(I.read_field(I.force(I.read_field(this, "config")).ref, I.pyconst(I.force(cfgkey))))
        cb = I.force(sub[0].args["cb"])
        ok = cb.tag == "fn" and cb.kind == "bound" and cb.name == I.pyconst(I.force(fname)) and cb.obj is this and \
            tmpl.tag == "obj" and ev[0].args["template"] is tmpl.ref
        return VBool(z3.And(z3.BoolVal(bool(ok)), I.eq(I.read_field(this, I.pyconst(I.force(field))), ev[0].args["value"])))
    C.helpers["rederived_and_rearmed"] = rearmed
    C.helpers["n_subscribed"] = lambda I: VInt(len(events_named(I, "subscribed")))
    C.trace_helpers = {"rederived_and_rearmed", "n_subscribed"}
    for fn_, fld, key in (("_calculate_pulse_ms_placeholder", "_pulse_ms", "default_pulse_ms"),
                          ("_calculate_timed_enable_ms_placeholder", "_timed_enable_ms", "default_timed_enable_ms")):
        C.fn("Driver." + fn_, params=dict(args=Opaque("Args")),
             ensures=[("DT1: a templated default is evaluated from ITS template, stored in its field, and the one-shot "
                       "subscription calls THIS function again on the next change (so the value never goes stale)",
                       "implies(self.config['%s'] is not None, rederived_and_rearmed('%s', '%s', '%s'))" % (key, fn_, fld, key)),
                      ("a constant default subscribes to nothing",
                       "implies(self.config['%s'] is None, n_subscribed() == 0 and self.%s == "
                       "self.machine.config['mpf']['%s'])" % (key, fld, key))],
             modifies=["self._pulse_ms", "self._timed_enable_ms"], raises={}, skip_frame=True)

    # ---- settings are read from their machine variable on every access
    C.cls("MpfController", fields={})
    C.cls("VarsI", fields=dict(exists=Bool, value=Int))
    C.ext("VarsI.is_machine_var", model=lambda I, env, a, k: I.read_field(env["self"].ref, "exists"),
          trusted_reason="MachineVariables.is_machine_var")
    C.ext("VarsI.get_machine_var", model=lambda I, env, a, k: I.read_field(env["self"].ref, "value"),
          trusted_reason="MachineVariables.get_machine_var: the CURRENT value")
    C.cls("SettingEntry", fields=dict(machine_var=Str, default=Const(1),
                                      values=Init(lambda I, n: I.new_dict(((0, VStr("off")), (1, VStr("a")),
                                                                           (2, VStr("b"))), n))))
    C.cls("SettingsController", file=SETCTL, bases=["MpfController"], fields=dict(
        _settings=Init(lambda I, n: I.new_dict((("known", I.fresh(ObjS("SettingEntry"), n + "[known]")),), n)),
        machine=ObjS("MachineController", variables=ObjS("VarsI"))))
    CUR = "self.machine.variables.value"
    C.fn("SettingsController.get_setting_value", params=dict(setting_name=Const("known")), result=Int,
         ensures=[("SV1: a setting's value is read from its machine variable on EVERY access: the current value of the "
                   "variable if it is a valid one, else the default - however the variable was written (service menu, "
                   "variable_player, BCP), whatever an earlier access returned, and also when the value is falsy (0 / False)",
                   "result == (%s if (self.machine.variables.exists and 0 <= %s <= 2) else 1)" % (CUR, CUR))],
         modifies=[], raises={}, skip_frame=True)
    return C


SM = "mpf/devices/state_machine.py"


def state_machine_set():
    """notifier side of 'a template is notified after every change of a device attribute it read': the state machine's
    virtual attribute `state` (read through the player for persisted machines) announces EVERY change of its
    observable value - also the one caused by (re)binding the device to a player when its mode starts"""
    C = ContractSet("C16d", "state machine announces every change of its observable state")
    C.strings = False
    common.declare_events(C)
    C.cls("SystemWideDevice", fields={})
    C.cls("ModeDevice", fields={})
    for b in ("SystemWideDevice", "ModeDevice"):
        C.ext(b + ".device_loaded_in_mode", model=common.noop, trusted_reason="ModeDevice: stores the mode")
        C.ext(b + ".device_removed_from_mode", model=common.noop, trusted_reason="ModeDevice: forgets the mode")
    C.cls("Player", fields=dict(var=Opt(Str)))
    C.ext("Player.__getitem__", model=lambda I, env, a, k: I.read_field(env["self"].ref, "var"),
          trusted_reason="player variable state_machine_<name> (C11); an unset variable reads as 0/None (falsy)")

    def p_set(I, env, a, k):
        I.write_field(env["self"].ref, "var", a[1])
        return NONE
    C.ext("Player.__setitem__", model=p_set, trusted_reason="player variable state_machine_<name> (C11)")
    C.cls("RunningShowI", fields={})
    C.ext("RunningShowI.stop", model=common.noop, trusted_reason="show of the state (C17)")
    STATE_CFG = Rec(events_when_started=Seq(Str), events_when_stopped=Seq(Str), show_when_active=Opaque("Any"))

    def states(I, name):
        return I.new_dict((("start", I.fresh(STATE_CFG, name + "[start]")), ("other", I.fresh(STATE_CFG, name + "[other]"))))
    C.cls("StateMachine", file=SM, bases=["SystemWideDevice", "ModeDevice"], fields=dict(
        config=Rec(persist_state=Bool, starting_state=Const("start"), states=Init(states)),
        player=Opt(ObjS("Player")), _state=Opt(Union(Const("start"), Const("other"))), _player_var_name=Str,
        _show=Opt(ObjS("RunningShowI")), machine=ObjS("MachineController", events=ObjS("EventManager"))))

    def notify(I, env, a, k):
        emit(I, "notify", attr=a[0], old=a[1], value=a[2])
        return NONE
    C.ext("StateMachine.notify_virtual_change", model=notify,
          trusted_reason="DeviceMonitor.notify_virtual_change: completes the futures of every template subscribed to "
                         "the attribute")
    for m_ in ("_add_handlers_for_current_state", "_run_show_for_current_state", "_remove_handlers"):
        C.ext("StateMachine." + m_, model=(lambda nm: lambda I, env, a, k: (emit(I, nm), NONE)[1])(m_),
              trusted_reason="transition handlers / show of the current state (not part of the observable value)")
    C.fn("StateMachine.state", is_property=True, inline=True, no_inv=True)

    def announced(I, value):
        """the LAST notification for 'state' carries this value (so no subscriber is left with another one)"""
        evs = [e for e in events_named(I, "notify") if I.pyconst(I.force(e.args["attr"])) == "state"]
        if not evs:
            return VBool(False)
        return VBool(I.eq(evs[-1].args["value"], value))
    C.helpers["announced"] = announced
    C.helpers["n_notified"] = lambda I: VInt(len(events_named(I, "notify")))
    C.trace_helpers = {"announced", "n_notified"}
    VALUE = Opt(Union(Const("start"), Const("other")))
    PERSIST_OK = ("a persisted state machine is bound to a player whenever its state is written",
                  "implies(self.config['persist_state'], self.player is not None)")
    C.fn("StateMachine.state@setter", params=dict(value=VALUE), requires=[PERSIST_OK],
         ensures=[("N1: writing the state announces the new observable value, once", "n_notified() == 1 and "
                                                                                     "announced(self.state)"),
                  ("the observable state is the written value", "self.state == value")],
         modifies=["self._state", "self.player.var"], raises={}, emits=lambda I, env, res: emit(
             I, "notify", attr=VStr("state"), old=NONE, value=env["value"]), call_ensures=["self.state == value"])
    C.fn("StateMachine.device_loaded_in_mode", params=dict(mode=Opaque("Mode"), player=ObjS("Player")),
         requires=[("an unloaded device holds no state of its own", "self._state is None and self.player is None"),
                   ("the persisted value, if any, is one of the configured states",
                    "player.var is None or player.var == 'start' or player.var == 'other'")],
         loops_by_text={"events_when_started": LoopSpec(invariant=[], modifies=[])},
         ensures=[("N2: binding the device to the player of a starting mode changes its observable state (None -> the "
                   "player's persisted state, or the starting state): the final value is announced, so a template that "
                   "read the state while the mode was stopped does not stay stale",
                   "self.state is not None and announced(self.state)")],
         modifies=["self.player", "self._state", "player.var"], raises={"AssertionError": True}, skip_frame=True)
    C.fn("StateMachine.device_removed_from_mode", params=dict(mode=Opaque("Mode")),
         ensures=[("N3: unloading announces that the state is gone (None)", "announced(None) and self._state is None "
                                                                            "and self.player is None")],
         modifies=["self.player", "self._state", "self._show"], raises={}, skip_frame=True)
    C.assume("StateMachine: _add_handlers_for_current_state / _run_show_for_current_state / _remove_handlers are not "
             "under contract (they do not touch the observable state); two configured states")
    return C
