"""C07 - Mode lifecycle is well-formed and leaves nothing behind.

Per-operation contracts on core/mode.py over a typestate derived from the real flags

    stopped   = not _active and not _starting and no clean-up pending
    starting  = _starting and not _active
    active    = _active and not stopping
    stopping  = _active and stopping
    cleanup   = not _active, between _stopped (which posts mode_<n>_stopped with callback _mode_stopped_callback)
                and that callback (ghost flag `cleanup`, set/cleared by the event-post / mode_stop models)

and ghost registries (event-handler keys, switch-handler keys, devices told they are loaded).  Each transition posts
exactly its events in order; an accepted start is only possible from `stopped`; when the clean-up callback has run
every key the mode registered through add_mode_event_handler is removed from the event manager, every switch handler
key from the switch controller (at stop), every mode device is told it was removed, every stop method / stop callback
ran exactly once and the mode's own lists are empty.

The registries of one mode are concrete collections of at most 2 entries (BOUNDED where a function iterates them).
"""
import z3

from pyvc.contract import ContractSet, LoopSpec
from pyvc.vals import *       # noqa
from pyvc.ctx import Unsupported
from pyvc.interp import MISSING
from . import common
from .common import emit, events_named

MODE = "mpf/core/mode.py"
MC = "mpf/core/mode_controller.py"
NB = common.bound(2, 3)
B2 = "BOUNDED: registries (handler keys, switch handlers, devices, stop methods, callbacks) of at most %d entries" % NB


def _lt(I, a, b):
    """a < b for int / str / tuples of them (lexicographic), as a z3 Bool"""
    a, b = I.force(a), I.force(b)
    if a.tag == "tuple":
        out = z3.BoolVal(False)
        for x, y in reversed(list(zip(a.items, b.items))):
            out = z3.Or(_lt(I, x, y), z3.And(I.eq(x, y), out))
        return out
    if a.tag == "str":
        return a.t < b.t
    ka, ta = I.num(a)
    kb, tb = I.num(b)
    return ta < tb


def list_sort(I, v, args, kw):
    """list.sort(key=f, reverse=r) on a concrete-length list: stable insertion sort branching on key comparisons"""
    c = I.container(v.ref)
    if not isinstance(c, LConc):
        raise Unsupported("sort of an abstract sequence")
    keyfn = kw.get("key")
    rev = kw.get("reverse")
    reverse = bool(rev is not None and z3.is_true(z3.simplify(I.truth(rev))))
    items = list(c.items)
    keys = [I.force(I.call(keyfn, [it], {})) if keyfn is not None else I.force(it) for it in items]
    out, okeys = [], []
    for it, k in zip(items, keys):
        j = len(out)
        while j > 0:
            prev = okeys[j - 1]
            before = _lt(I, prev, k) if reverse else _lt(I, k, prev)
            if I.ctx.branch(before):
                j -= 1
            else:
                break
        out.insert(j, it)
        okeys.insert(j, k)
    I.set_container(v.ref, LConc(out))
    return NONE


def _pyint(I, v):
    t = z3.simplify(I.force(v).t)
    return t.as_long()


def build(control_events=False):
    C = ContractSet("C07", "Mode lifecycle is well-formed and leaves nothing behind")
    C.strings = True
    C.helpers["list_sort"] = list_sort

    # ------------------------------------------------------------------ ghost registries (python side, per path)
    def reg(I, which):
        return I.__dict__.setdefault("c07_" + which, {})

    def key_name(v):
        return str(v.t) if hasattr(v, "t") else repr(v)

    def registered(I, which, k):
        d = reg(I, which)
        n = key_name(k)
        if n not in d:
            d[n] = z3.Bool("%s0[%s]" % (which, n))
        return d[n]

    C.cls("EventManager", fields={})

    def post(kind):
        def m(I, env, a, k):
            ev = k.get("event", a[0] if a else NONE)
            cb = k.get("callback", NONE)
            emit(I, "post", kind=kind, event=ev, callback=cb,
                 kwargs={x: v for x, v in k.items() if x not in ("event", "callback")})
            cbf = I.force(cb)
            if cbf.tag == "fn" and cbf.kind == "bound" and cbf.name == "_mode_stopped_callback":
                I.write_field(cbf.obj, "cleanup", VBool(True))
            return NONE
        return m
    C.ext("EventManager.post", model=post("post"), trusted_reason="event posting (C01)")
    C.ext("EventManager.post_queue", model=post("post_queue"), trusted_reason="queue event posting (C02)")

    def add_handler(I, env, a, k):
        I.ctx.fresh_n += 1
        key = VOpaque("HKey", z3.Const("key!%d" % I.ctx.fresh_n, usort("HKey")))
        # a new key differs from every key handed out before
        for other in I.__dict__.setdefault("c07_keyterms", []):
            I.ctx.assume(key.t != other)
        this = I.frames[0].env.get("self")
        if this is not None and this.tag == "obj" and this.ref.cls == "Mode":
            for k0 in I.container(I.force(I.read_field(this.ref, "event_handlers")).ref).items:
                I.ctx.assume(key.t != I.force(k0).t)
        I.c07_keyterms.append(key.t)
        reg(I, "handlers")[key_name(key)] = z3.BoolVal(True)
        emit(I, "add_handler", event=a[0] if a else k.get("event"), handler=a[1] if len(a) > 1 else k.get("handler"),
             priority=a[2] if len(a) > 2 else k.get("priority", VInt(0)), mode=k.get("mode", NONE), key=key,
             kwargs={x: v for x, v in k.items() if x not in ("event", "handler", "priority", "mode")})
        return key

    def remove_by_key(I, env, a, k):
        key = I.force(a[0])
        reg(I, "handlers")[key_name(key)] = z3.BoolVal(False)
        emit(I, "remove_handler", key=key)
        return NONE
    C.ext("EventManager.add_handler", model=add_handler,
          trusted_reason="EventManager.add_handler (C01): returns a fresh key, the handler is registered")
    C.ext("EventManager.remove_handler_by_key", model=remove_by_key,
          trusted_reason="EventManager.remove_handler_by_key (C01): the handler with this key is gone")
    C.cls("SwitchController", fields={})

    def remove_switch(I, env, a, k):
        key = I.force(a[0])
        reg(I, "switches")[key_name(key)] = z3.BoolVal(False)
        emit(I, "remove_switch_handler", key=key)
        return NONE
    C.ext("SwitchController.remove_switch_handler_by_key", model=remove_switch,
          trusted_reason="SwitchController.remove_switch_handler_by_key (C03)")
    common.declare_delay_client(C)
    C.cls("ModeControllerI", fields={})
    C.ext("ModeControllerI.set_mode_state",
          model=lambda I, env, a, k: (emit(I, "set_mode_state", mode=a[0], active=a[1]), NONE)[1],
          trusted_reason="ModeController.set_mode_state (verified below)")
    C.cls("ModeDeviceI", fields={})

    def dev_removed(I, env, a, k):
        emit(I, "device_removed", device=env["self"].ref)
        return NONE
    C.ext("ModeDeviceI.device_removed_from_mode", model=dev_removed,
          trusted_reason="ModeDevice.device_removed_from_mode (C11 / C13 contracts)")
    QE = ObjS("QueuedEvent", waiter=Bool)
    C.cls("QueuedEvent", fields=QE.fields)

    def q_wait(I, env, a, k):
        if I.ctx.branch(I.truth(I.read_field(env["self"].ref, "waiter"))):
            I.raise_("AssertionError", "Double lock")
        I.write_field(env["self"].ref, "waiter", VBool(True))
        emit(I, "queue.wait")
        return NONE

    def q_clear(I, env, a, k):
        if I.ctx.branch(z3.Not(I.truth(I.read_field(env["self"].ref, "waiter")))):
            I.raise_("AssertionError", "Not waiting")
        I.write_field(env["self"].ref, "waiter", VBool(False))
        emit(I, "queue.clear")
        return NONE
    C.ext("QueuedEvent.wait", model=q_wait, trusted_reason="QueuedEvent typestate (C02)")
    C.ext("QueuedEvent.clear", model=q_clear, trusted_reason="QueuedEvent typestate (C02)")

    # ------------------------------------------------------------------ Mode
    def keys(kind, what):
        def init(I, name):
            n = I.ctx.fork(NB + 1)
            ks = [VOpaque(kind, z3.Const("%s.%s%d" % (name, what, i), usort(kind))) for i in range(n)]
            return ks
        return init

    def handler_keys(I, name):
        ks = keys("HKey", "key")(I, name)
        for k in ks:
            reg(I, "handlers")[key_name(k)] = z3.BoolVal(True)      # a key in the set is a registered handler
        return I.new_set(ks, name)

    def switch_keys(I, name):
        ks = keys("SKey", "swkey")(I, name)
        for k in ks:
            reg(I, "switches")[key_name(k)] = z3.BoolVal(True)
        return I.new_list(ks, name)

    def devices(I, name):
        n = I.ctx.fork(NB + 1)
        return I.new_set([VObj(Obj("ModeDeviceI", ObjS("ModeDeviceI", {}), "%s.dev%d" % (name, i))) for i in range(n)],
                         name)

    def stop_methods(I, name):
        n = I.ctx.fork(NB + 1)
        return I.new_list([VTuple([VOpaque("Fn", z3.Const("%s.method%d" % (name, i), usort("Fn"))),
                                   VOpaque("Any", z3.Const("%s.arg%d" % (name, i), usort("Any")))]) for i in range(n)],
                          name)

    def callbacks(I, name):
        n = I.ctx.fork(NB + 1)
        return I.new_list([VOpaque("Fn", z3.Const("%s.cb%d" % (name, i), usort("Fn"))) for i in range(n)], name)

    def ev_names(I, name):
        n = I.ctx.fork(2)
        return I.new_list([VStr(z3.String("%s.ev%d" % (name, i))) for i in range(n)], name)
    MACHINE = ObjS("MachineController", events=ObjS("EventManager"), game=Opt(ObjS("Game")),
                   mode_controller=ObjS("ModeControllerI", start_methods=Init(lambda I, n: I.new_list([], n))),
                   switch_controller=ObjS("SwitchController"), is_shutting_down=Bool, delay=common.DelayMgr,
                   device_manager=ObjS("DeviceManager", collections=Init(lambda I, n: I.new_dict(()))))
    C.cls("LogMixin", fields={})
    C.cls("Mode", file=MODE, bases=["LogMixin"], fields=dict(
        config=Rec(mode=Rec(game_mode=Bool, use_wait_queue=Bool, priority=Int, stop_priority=Int,
                            stop_events=Init(ev_names), events_when_started=Init(ev_names),
                            events_when_stopped=Init(ev_names))),
        machine=MACHINE, player=Opt(ObjS("Player")), _active=Bool, _starting=Bool, stopping=Bool, name=Str,
        priority=Int, _mode_start_wait_queue=Opt(QE), start_event_kwargs=Opaque("Kwargs"),
        start_callback=Opt(Fn), stop_methods=Init(stop_methods), stop_callbacks=Init(callbacks),
        mode_stop_kwargs=Opaque("Kwargs"), delay=common.DelayMgr, event_handlers=Init(handler_keys),
        switch_handlers=Init(switch_keys), mode_devices=Init(devices), cleanup=Bool),
        invariants=[("flags: stopping only while active, starting only while not active",
                     "implies(self.stopping, self._active) and implies(self._starting, not self._active)"),
                    ("clean-up is pending only for a mode that is no longer active", "implies(self.cleanup, not self._active)"),
                    ("a start wait queue the mode has registered is held by it",
                     "implies(self._mode_start_wait_queue is not None, self._mode_start_wait_queue.waiter)")])

    def hook(nm, clears_cleanup=False):
        def m(I, env, a, k):
            if clears_cleanup:
                I.write_field(env["self"].ref, "cleanup", VBool(False))
            emit(I, "hook", name=nm)
            return NONE
        return m
    U = "user-overridable hook / set-up step (mode code and device set-up are outside; devices: C11)"
    C.ext("Mode.mode_will_start", model=hook("mode_will_start"), trusted_reason=U)
    C.ext("Mode.mode_start", model=hook("mode_start"), trusted_reason=U)
    C.ext("Mode.mode_stop", model=hook("mode_stop", True), trusted_reason=U + "; first step of the clean-up callback")
    C.ext("Mode._add_mode_devices", model=hook("_add_mode_devices"), trusted_reason=U)
    if not control_events:
        C.ext("Mode._setup_device_control_events", model=hook("_setup_device_control_events"),
              trusted_reason="registers the control events of the mode's devices through add_mode_event_handler "
                             "(verified separately: contract set C07b)")
    # ---- control events of mode devices (set C07b)
    DM = "mpf/core/device_manager.py"
    C.cls("MpfController", fields={})
    C.cls("DeviceManager", file=DM, bases=["MpfController"],
          fields=dict(collections=Init(lambda I, n: I.new_dict(())), machine=ObjS("MachineI", delay=common.DelayMgr)))
    C.cls("ControlledDevice", fields=dict(class_label=Str))

    def control_events_model(I, env, a, k):
        """(event, method, delay, device) for every control event of the devices in the config: bounded list"""
        n = I.ctx.fork(NB + 1)
        out = []
        for i in range(n):
            d = z3.Int(I.fresh_name("ce_delay%d" % i))
            I.ctx.assume(d >= 0)
            out.append(VTuple([VStr(z3.String(I.fresh_name("ce_event%d" % i))),
                               VOpaque("Fn", z3.Const(I.fresh_name("ce_method%d" % i), usort("Fn"))), VInt(d),
                               I.fresh(ObjS("ControlledDevice"), I.fresh_name("ce_device%d" % i))]))
        I.__dict__["c07_control_events"] = out
        return I.new_list(out, I.fresh_name("control_events"))
    C.ext("DeviceManager.get_device_control_events", model=control_events_model,
          trusted_reason="DeviceManager.get_device_control_events: the (event, method, delay, device) tuples of the "
                         "config (generator; here a list of at most %d)" % NB)

    def control_events_registered(I):
        """one mode handler per control event; an undelayed one calls the device method directly, a delayed one goes
        through a handler that is KNOWN (by its own contract) to put the delay into this mode's delay manager"""
        this = I.frames[0].env["self"].ref
        want = I.__dict__.get("c07_control_events", [])
        adds = events_named(I, "add_handler")
        if len(adds) != len(want):
            return VBool(False)
        own_dm = I.force(I.read_field(this, "delay"))
        conj = []
        for e, w in zip(adds, want):
            ev, method, delay, dev = w.items
            h = I.force(e.args["handler"])
            kw = e.args["kwargs"]
            m = I.force(e.args["mode"])
            if not (m.tag == "obj" and m.ref is this):
                return VBool(False)
            conj.append(I.eq(e.args["event"], ev))
            direct = I.eq(e.args["handler"], method) if h.tag == "opaque" else z3.BoolVal(False)
            delayed = z3.BoolVal(False)
            if h.tag == "fn" and h.kind == "bound" and h.name == "_control_event_handler" and "callback" in kw and \
                    "ms_delay" in kw:
                owner_ok = False
                if h.obj is this:
                    owner_ok = True          # Mode._control_event_handler: clause L5
                elif getattr(h.obj, "cls", None) == "DeviceManager" and "delay_mgr" in kw:
                    dmv = I.force(kw["delay_mgr"])
                    owner_ok = dmv.tag == "obj" and dmv.ref is own_dm.ref      # DeviceManager._control_event_handler: D1
                if owner_ok:
                    delayed = z3.And(I.eq(kw["callback"], method), I.eq(kw["ms_delay"], delay))
            nz = I.force(delay).t != 0
            conj.append(z3.If(nz, delayed, direct))
        return VBool(z3.And(*conj) if conj else z3.BoolVal(True))
    C.helpers["control_events_registered"] = control_events_registered
    if control_events:
        C.fn("Mode._setup_device_control_events",
             loops_by_text={"get_device_control_events": LoopSpec(invariant=[], unroll=True),
                            "device_manager.collections": LoopSpec(invariant=[], unroll=True),
                            "device_list": LoopSpec(invariant=[], unroll=True)},
             ensures=[("L6: every control event of the mode's devices is registered as a MODE handler (removed when the "
                       "mode stops); a delayed one through a handler whose delay lives in THIS mode's delay manager "
                       "(cleared when the mode stops) - never in the machine-wide one",
                       "control_events_registered()")],
             modifies=["self.event_handlers"], raises={}, inline_calls=True,
             bounded="BOUNDED: at most %d control events; the device collections of the mode config are empty (the "
                     "per-device add_control_events_in_mode hook is not under contract)" % NB)
        C.fn("DeviceManager._control_event_handler",
             params=dict(callback=Fn, ms_delay=Int, delay_mgr=common.DelayMgr, kwargs=Opaque("Kwargs")),
             ensures=[("D1: the delayed control event is a delay of the delay manager it was registered with",
                       "delay_added_to(delay_mgr, ms_delay, callback)")],
             modifies=["delay_mgr.pending.**"], raises={})

    def delay_added_to(I, dmv, ms, cb):
        evs = events_named(I, "delay.add")
        if len(evs) != 1 or evs[0].args["dm"] is not I.force(dmv).ref:
            return VBool(False)
        return VBool(z3.And(I.eq(evs[0].args["ms"], ms), I.eq(evs[0].args["callback"], cb)))
    C.helpers["delay_added_to"] = delay_added_to

    def on_cb(I, fn, args, kwargs):
        return NONE
    C.helpers["on_opaque_call"] = on_cb

    # ---- trace helpers
    def name_of(I):
        return I.force(I.read_field(I.frames[0].env["self"].ref, "name")).t

    def posts_are(I, *specs):
        """the posts of this call, in order: each spec is 'kind:prefix|suffix' (event = prefix + name + suffix) or
        'list:<field of config.mode>' for a configured event list"""
        this = I.frames[0].env["self"].ref
        evs = events_named(I, "post")
        want = []
        for sp in specs:
            sp = I.pyconst(I.force(sp))
            kind, rest = sp.split(":", 1)
            if kind == "list":
                cfg = I.force(I.read_field(I.force(I.read_field(this, "config")).ref, "mode")).ref
                for x in I.container(I.force(I.read_field(cfg, rest)).ref).items:
                    want.append(("post", I.force(x).t))
            elif kind == "lit":
                want.append(("post", z3.StringVal(rest)))
            else:
                pre, suf = rest.split("|")
                want.append((kind, z3.Concat(z3.StringVal(pre), name_of(I), z3.StringVal(suf))))
        if len(evs) != len(want):
            return VBool(False)
        conj = []
        for e, (kind, nm) in zip(evs, want):
            if e.args["kind"] != kind:
                return VBool(False)
            conj.append(I.force(e.args["event"]).t == nm)
        return VBool(z3.And(*conj) if conj else z3.BoolVal(True))
    C.helpers["posts_are"] = posts_are
    C.helpers["n_posts"] = lambda I: VInt(len(events_named(I, "post")))

    def post_callback_is(I, idx, meth):
        evs = events_named(I, "post")
        i = _pyint(I, idx)
        if not -len(evs) <= i < len(evs):
            return VBool(False)
        cb = I.force(evs[i].args["callback"])
        return VBool(cb.tag == "fn" and cb.kind == "bound" and cb.name == I.pyconst(I.force(meth)) and
                     cb.obj is I.frames[0].env["self"].ref)
    C.helpers["post_callback_is"] = post_callback_is

    def all_removed(which, evname, field):
        def h(I):
            """every key the mode held at entry was passed to the remover exactly once and is no longer registered"""
            this = I.frames[0].env["self"].ref
            old = I.container(I.force(I.read_field(this, field, heap=I.old_heap)).ref, heap=I.old_heap).items
            got = [key_name(I.force(e.args["key"])) for e in events_named(I, evname)]
            ok = sorted(got) == sorted(key_name(I.force(k)) for k in old)
            return VBool(z3.And(z3.BoolVal(ok), *[z3.Not(registered(I, which, I.force(k))) for k in old]))
        return h
    C.helpers["all_event_handlers_removed"] = all_removed("handlers", "remove_handler", "event_handlers")
    C.helpers["all_switch_handlers_removed"] = all_removed("switches", "remove_switch_handler", "switch_handlers")

    def all_devices_removed(I):
        this = I.frames[0].env["self"].ref
        old = I.container(I.force(I.read_field(this, "mode_devices", heap=I.old_heap)).ref, heap=I.old_heap).items
        got = [e.args["device"].name for e in events_named(I, "device_removed")]
        return VBool(sorted(got) == sorted(d.ref.name for d in old))
    C.helpers["all_devices_removed"] = all_devices_removed

    def callbacks_ran(field, via_tuple):
        def h(I):
            """each entry that was in the list at entry was called exactly once, in order"""
            this = I.frames[0].env["self"].ref
            old = I.container(I.force(I.read_field(this, field, heap=I.old_heap)).ref, heap=I.old_heap).items
            calls = events_named(I, "callback")
            want = [(I.force(x).items[0], I.force(x).items[1]) if via_tuple else (x, None) for x in old]
            if len(calls) != len(want):
                return VBool(False)
            conj = []
            for e, (fn, arg) in zip(calls, want):
                conj.append(I.eq(e.args["fn"], fn))
                if arg is not None:
                    if len(e.args["args"]) != 1:
                        return VBool(False)
                    conj.append(I.eq(e.args["args"][0], arg))
            return VBool(z3.And(*conj) if conj else z3.BoolVal(True))
        return h
    C.helpers["stop_methods_ran"] = callbacks_ran("stop_methods", True)
    C.helpers["stop_callbacks_ran"] = callbacks_ran("stop_callbacks", False)
    C.helpers["n_callbacks"] = lambda I: VInt(len(events_named(I, "callback")))
    C.helpers["n_hook"] = lambda I, nm: VInt(len([e for e in events_named(I, "hook")
                                                  if e.args["name"] == I.pyconst(I.force(nm))]))
    C.helpers["n_set_state"] = lambda I: VInt(len(events_named(I, "set_mode_state")))

    def set_state_is(I, active):
        evs = events_named(I, "set_mode_state")
        if len(evs) != 1:
            return VBool(False)
        e = evs[0]
        return VBool(z3.And(z3.BoolVal(I.force(e.args["mode"]).ref is I.frames[0].env["self"].ref),
                            I.eq(e.args["active"], active)))
    C.helpers["set_state_is"] = set_state_is
    C.helpers["n_added_handlers"] = lambda I: VInt(len(events_named(I, "add_handler")))

    def stop_handlers_registered(I):
        """one handler per configured stop event: self.stop at priority  mode priority + stop_priority + 1, tracked"""
        this = I.frames[0].env["self"].ref
        cfg = I.force(I.read_field(I.force(I.read_field(this, "config")).ref, "mode")).ref
        evs = I.container(I.force(I.read_field(cfg, "stop_events")).ref).items
        adds = events_named(I, "add_handler")
        if len(adds) != len(evs):
            return VBool(False)
        prio = I.force(I.read_field(this, "priority")).t + I.force(I.read_field(cfg, "stop_priority")).t + 1
        cur = [key_name(I.force(k)) for k in I.container(I.force(I.read_field(this, "event_handlers")).ref).items]
        conj = []
        for e, name in zip(adds, evs):
            h = I.force(e.args["handler"])
            if not (h.tag == "fn" and h.kind == "bound" and h.name == "stop" and h.obj is this):
                return VBool(False)
            if key_name(I.force(e.args["key"])) not in cur:
                return VBool(False)
            m = I.force(e.args["mode"])
            if not (m.tag == "obj" and m.ref is this):
                return VBool(False)
            conj += [I.eq(e.args["event"], name), I.force(e.args["priority"]).t == prio]
        return VBool(z3.And(*conj) if conj else z3.BoolVal(True))
    C.helpers["stop_handlers_registered"] = stop_handlers_registered
    C.helpers["delays_cleared"] = lambda I: VBool(len(events_named(I, "delay.clear")) == 1)
    C.trace_helpers = {"posts_are", "n_posts", "post_callback_is", "all_event_handlers_removed",
                       "all_switch_handlers_removed", "all_devices_removed", "stop_methods_ran", "stop_callbacks_ran",
                       "n_callbacks", "n_hook", "n_set_state", "set_state_is", "n_added_handlers",
                       "stop_handlers_registered", "delays_cleared", "handler_added", "control_events_registered",
                       "delay_added_to"}

    # ---- active setter, handler registration
    C.fn("Mode.active", is_property=True, inline=True, no_inv=True)
    C.fn("Mode.active@setter", params=dict(new_active=Bool),
         ensures=[("the flag is set and the mode controller is told exactly when it changes",
                   "self._active == new_active and (set_state_is(new_active) if old(self._active) != new_active "
                   "else n_set_state() == 0)")],
         modifies=["self._active"], raises={}, inline_calls=True, no_inv=True)

    def handler_added(I, event, handler, priority):
        adds = events_named(I, "add_handler")
        if len(adds) != 1:
            return VBool(False)
        e = adds[0]
        this = I.frames[0].env["self"].ref
        m = I.force(e.args["mode"])
        cur = [key_name(I.force(k)) for k in I.container(I.force(I.read_field(this, "event_handlers")).ref).items]
        ok = m.tag == "obj" and m.ref is this and key_name(I.force(e.args["key"])) in cur and \
            I.result is not None and key_name(I.force(I.result)) == key_name(I.force(e.args["key"]))
        return VBool(z3.And(z3.BoolVal(ok), I.eq(e.args["event"], event), I.eq(e.args["handler"], handler),
                            I.force(e.args["priority"]).t == I.force(I.read_field(this, "priority")).t +
                            I.force(priority).t))
    C.helpers["handler_added"] = handler_added
    C.fn("Mode.add_mode_event_handler", params=dict(event=Str, handler=Fn, priority=Int, kwargs=Opaque("Kwargs")),
         result=Opaque("HKey"),
         ensures=[("L1: the handler is registered at mode priority + priority, tagged with the mode, and its key is "
                   "tracked so that it is removed when the mode stops", "handler_added(event, handler, priority)"),
                  ],
         modifies=["self.event_handlers"], raises={}, inline_calls=True, bounded=B2)
    C.fn("Mode._remove_mode_event_handlers", loops={0: LoopSpec(invariant=[], unroll=True)},
         ensures=[("L2: every tracked handler key is removed from the event manager, each once",
                   "all_event_handlers_removed() and len(self.event_handlers) == 0")],
         modifies=["self.event_handlers"], raises={}, inline_calls=True, bounded=B2)
    C.fn("Mode._remove_mode_switch_handlers", loops={0: LoopSpec(invariant=[], unroll=True)},
         ensures=[("L3: every tracked switch handler is removed from the switch controller, each once",
                   "all_switch_handlers_removed() and len(self.switch_handlers) == 0")],
         modifies=["self.switch_handlers"], raises={}, inline_calls=True, bounded=B2)
    C.fn("Mode._remove_mode_devices", loops={0: LoopSpec(invariant=[], unroll=True)},
         ensures=[("L4: every mode device is told it was removed, each once",
                   "all_devices_removed() and len(self.mode_devices) == 0")],
         modifies=["self.mode_devices"], raises={}, inline_calls=True, bounded=B2)
    C.fn("Mode._control_event_handler", params=dict(callback=Fn, ms_delay=Int, kwargs=Opaque("Kwargs")),
         ensures=[("L5: a delayed control event is a delay of THIS mode's delay manager (cleared when the mode stops), "
                   "with the configured delay and callback - a NEW delay each time, never a replacement of a pending one",
                   "own_delay_added(ms_delay, callback)")],
         modifies=["self.delay.pending.**"], raises={})

    def own_delay_added(I, ms, cb):
        this = I.frames[0].env["self"].ref
        dm = I.force(I.read_field(this, "delay")).ref
        evs = events_named(I, "delay.add")
        if len(evs) != 1 or evs[0].args["dm"] is not dm:
            return VBool(False)
        # ... under a fresh (uuid) name: it can never replace a delayed call that is already pending (two control events
        # closer together than the delay both take effect), and nothing pending is removed
        if evs[0].args.get("computed_name") or not str(evs[0].args["name"]).startswith("uuid#") or \
                [e for e in I.cur_trace() if e.name in ("delay.remove", "delay.clear")]:
            return VBool(False)
        return VBool(z3.And(I.eq(evs[0].args["ms"], ms), I.eq(evs[0].args["callback"], cb)))
    C.helpers["own_delay_added"] = own_delay_added
    C.trace_helpers |= {"own_delay_added"}

    # ---- lifecycle
    CAN_START = "(not (self.config['mode']['game_mode'] and not (self.machine.game and self.player)) and " \
                "not old(self._active) and not old(self._starting))"
    SMODS = ["self._starting", "self._mode_start_wait_queue", "self._mode_start_wait_queue.waiter", "self.priority",
             "self.start_event_kwargs", "self.start_callback", "kwargs.*", "kwargs['queue'].waiter",
             "self.event_handlers", "self.stop_methods"]

    def start_kwargs(I, name):
        if I.ctx.fork(2) == 0:
            return I.new_dict(())
        q = I.fresh(QE, name + "[queue]")
        I.ctx.assume(z3.Not(I.truth(I.read_field(q.ref, "waiter"))))
        return I.new_dict((("queue", q),))
    C.globals["MODE_STARTING_EVENT_TEMPLATE"] = VStr("mode_{}_starting")
    C.globals["QueuedEvent"] = VCls("QueuedEvent")
    C.fn("Mode.start", params=dict(mode_priority=Opt(Int), callback=Opt(Fn), kwargs=Init(start_kwargs)),
         loops={0: LoopSpec(invariant=[], unroll=True), 1: LoopSpec(invariant=[], unroll=True)},
         ensures=[
             ("M1: a start request for a mode that is active, already starting, or a game mode without a game is "
              "ignored: nothing is posted or registered",
              "implies(not " + CAN_START + ", n_posts() == 0 and n_added_handlers() == 0 and "
              "self._starting == old(self._starting) and self.priority == old(self.priority))"),
             ("M2: an accepted start moves to `starting` and posts will_start, then the starting queue event whose "
              "completion is _started",
              "implies(" + CAN_START + ", self._starting and not self._active and "
              "posts_are('post:mode_|_will_start', 'post_queue:mode_|_starting') and post_callback_is(1, '_started'))"),
             ("M3: the mode's stop events are registered as mode handlers (removed again when it stops)",
              "implies(" + CAN_START + ", stop_handlers_registered())"),
             ("M4: a start is only accepted from the `stopped` state: not while the previous run's clean-up is still "
              "pending (its clean-up would remove what this start registers)",
              "implies(" + CAN_START + ", not old(self.cleanup))"),
         ],
         modifies=SMODS, raises={}, bounded=B2)
    C.fn("Mode._started", params=dict(kwargs=Opaque("Kwargs")),
         loops={0: LoopSpec(invariant=[], unroll=True)},
         requires=[("completion of the starting event", "self._starting and not self._active"),
                   ("(M4) no clean-up of an earlier run is pending", "not self.cleanup")],
         ensures=[("M5: starting -> active: the mode controller is told, then the configured events and "
                   "mode_<name>_started (completion: _mode_started_callback) are posted, each once",
                   "implies(not self.machine.is_shutting_down, self._active and not self._starting and "
                   "set_state_is(True) and posts_are('list:events_when_started', 'post:mode_|_started') and "
                   "post_callback_is(-1, '_mode_started_callback'))"),
                  ("nothing happens during shutdown", "implies(self.machine.is_shutting_down, n_posts() == 0 and "
                   "not self._active)")],
         modifies=["self._active", "self._starting"], raises={})
    C.fn("Mode._mode_started_callback", params=dict(kwargs=Opaque("Kwargs")),
         ensures=[("M6: mode_start runs once, then the start callback once", "n_hook('mode_start') == 1 and "
                   "n_callbacks() == (1 if self.start_callback is not None else 0)")],
         modifies=["self.start_event_kwargs"], raises={})
    C.fn("Mode.stop", params=dict(callback=Opt(Fn), kwargs=Init(lambda I, name: I.new_dict(()))), result=Bool,
         loops={0: LoopSpec(invariant=[], unroll=True)},
         ensures=[
             ("M7: a stop request is accepted only from `active`: then will_stop and the stopping queue event "
              "(completion: _stopped) are posted once, the switch handlers are removed and the mode's delays cleared",
              "implies(old(self._active) and not old(self.stopping), self.stopping and "
              "posts_are('post:mode_|_will_stop', 'post_queue:mode_|_stopping') and post_callback_is(1, '_stopped') "
              "and all_switch_handlers_removed() and len(self.switch_handlers) == 0 and delays_cleared())"),
             ("M8: otherwise nothing is posted (a mode that is already stopping only records the callback)",
              "implies(not (old(self._active) and not old(self.stopping)), n_posts() == 0 and "
              "self.stopping == old(self.stopping))"),
             ("returns whether the mode was running", "result == old(self._active)"),
         ],
         modifies=["self.stop_callbacks", "self.stopping", "self.mode_stop_kwargs", "self.switch_handlers",
                   "self.delay.pending.**", "self.delay.all_cleared"], raises={}, bounded=B2)
    C.fn("Mode._stopped",
         loops={0: LoopSpec(invariant=[], unroll=True), 1: LoopSpec(invariant=[], unroll=True)},
         requires=[("completion of the stopping event", "self._active and self.stopping")],
         ensures=[
             ("M9: stopping -> clean-up: the mode controller is told, every stop method runs exactly once with its "
              "argument, then events_when_stopped, mode_<name>_stopped (completion: _mode_stopped_callback) and "
              "clear(key=name) are posted, each once",
              "not self._active and not self.stopping and self.priority == 0 and set_state_is(False) and "
              "stop_methods_ran() and len(self.stop_methods) == 0 and "
              "posts_are('list:events_when_stopped', 'post:mode_|_stopped', 'lit:clear') and "
              "post_callback_is(-2, '_mode_stopped_callback') and self.cleanup"),
             ("M10: a held start wait queue is released exactly once and forgotten",
              "self._mode_start_wait_queue is None"),
         ],
         modifies=["self._active", "self.stopping", "self.priority", "self.stop_methods", "self.cleanup",
                   "self._mode_start_wait_queue", "self._mode_start_wait_queue.waiter"], raises={}, bounded=B2,
         lets={})
    C.fn("Mode._mode_stopped_callback", params=dict(kwargs=Opaque("Kwargs")),
         loops={0: LoopSpec(invariant=[], unroll=True)},
         requires=[("clean-up of a stopped mode", "self.cleanup and not self._active")],
         ensures=[
             ("M11: leaves nothing behind: mode_stop ran, every handler key registered through the mode is removed "
              "from the event manager, every mode device is told it was removed, every stop callback ran exactly once "
              "in order, and the mode's registries are empty",
              "n_hook('mode_stop') == 1 and all_event_handlers_removed() and len(self.event_handlers) == 0 and "
              "all_devices_removed() and len(self.mode_devices) == 0 and stop_callbacks_ran() and "
              "len(self.stop_callbacks) == 0 and not self.cleanup"),
             ("M13: ... nor a switch handler: stop() removes them when the stop begins, but mode_start() of a mode that is "
              "stopped from a handler of its own started event registers its switch handlers AFTER that (attract: the "
              "start button would stay live on a stopped mode) - whatever is registered by then is removed here",
              "all_switch_handlers_removed() and len(self.switch_handlers) == 0"),
             ("M12: ... and no delay of the mode is left pending: stop() clears them when the stop begins, but the mode's "
              "handlers and control events stay registered until this clean-up - whatever they added in between (e.g. a "
              "delayed control event on the very event that stops the mode) is cleared here, so nothing fires on the "
              "stopped mode or in its next run", "mode_delays_cleared()"),
         ],
         modifies=["self.mode_stop_kwargs", "self.event_handlers", "self.mode_devices", "self.stop_callbacks",
                   "self.cleanup", "self.delay.pending.**", "self.switch_handlers"], raises={}, bounded=B2)

    C.finite_checks.append(common.native_demo_check("c07_config_player_subscription_leak.py", "a mode with a conditional config-player entry leaves no event handler behind after it stopped"))
    C.finite_checks.append(common.native_demo_check(
        "c07_stop_from_started_handler.py",
        "a mode stopped from a handler of its own started event leaves no switch or event handler behind"))

    def mode_delays_cleared(I):
        this = I.frames[0].env["self"].ref
        dm = I.force(I.read_field(this, "delay")).ref
        evs = [e for e in I.cur_trace() if e.name.startswith("delay.") and e.args.get("dm") is dm]
        return VBool(bool(evs) and evs[-1].name == "delay.clear")
    C.helpers["mode_delays_cleared"] = mode_delays_cleared
    C.trace_helpers |= {"mode_delays_cleared"}

    # ------------------------------------------------------------------ ModeController.set_mode_state
    def modes_list(I, name):
        n = I.ctx.fork(2)
        return I.new_list([VObj(Obj("ModeRef", ObjS("ModeRef", priority=Int, name=Str), "%s[%d]" % (name, i)))
                           for i in range(n)], name)
    C.cls("ModeRef", fields=dict(priority=Int, name=Str))
    C.cls("MpfController", fields={})
    C.cls("ModeController", file=MC, bases=["MpfController"], fields=dict(
        active_modes=Init(modes_list), machine=ObjS("MachineController", events=ObjS("EventManager")), _debug=Bool))
    C.ext("ModeController.dump", model=common.noop, trusted_reason="debug dump")

    def sorted_desc(I):
        this = I.frames[0].env["self"].ref
        items = I.container(I.force(I.read_field(this, "active_modes")).ref).items
        conj = []
        for a, b in zip(items, items[1:]):
            pa, pb = I.force(I.read_field(a.ref, "priority")).t, I.force(I.read_field(b.ref, "priority")).t
            na, nb = I.force(I.read_field(a.ref, "name")).t, I.force(I.read_field(b.ref, "name")).t
            conj.append(z3.Or(pa > pb, z3.And(pa == pb, z3.Or(nb < na, na == nb))))
        return VBool(z3.And(*conj) if conj else z3.BoolVal(True))
    C.helpers["sorted_by_priority_desc"] = sorted_desc

    def members(I, mode, active):
        """the list holds the old members plus / minus the mode (as a multiset of objects)"""
        this = I.frames[0].env["self"].ref
        new = [x.ref for x in I.container(I.force(I.read_field(this, "active_modes")).ref).items]
        old = [x.ref for x in I.container(I.force(I.read_field(this, "active_modes", heap=I.old_heap)).ref,
                                          heap=I.old_heap).items]
        m = I.force(mode).ref
        a = I.pyconst(I.force(active))
        if a:
            want = old + [m]
        else:
            want = list(old)
            if m in want:
                want.remove(m)
        return VBool(sorted(id(x) for x in new) == sorted(id(x) for x in want))
    C.helpers["members_are"] = members
    for act in (True, False):
        pass
    C.fn("ModeController.set_mode_state", params=dict(mode=Init(lambda I, name: (
        VObj(Obj("ModeRef", ObjS("ModeRef", priority=Int, name=Str), "new_mode")) if I.ctx.fork(2) == 0 else
        (I.container(I.force(I.read_field(I.frames[0].env["self"].ref, "active_modes")).ref).items or
         [VObj(Obj("ModeRef", ObjS("ModeRef", priority=Int, name=Str), "new_mode"))])[0])),
        active=Init(lambda I, name: VBool(bool(I.ctx.fork(2))))),
         requires=[("activating adds a mode that is not in the list, deactivating removes one that is",
                    "(mode not in self.active_modes) == active")],
         ensures=[("A1: the list of active modes is the old one plus / minus this mode", "members_are(mode, active)"),
                  ("A2: ordered by (priority, name), highest first", "sorted_by_priority_desc()"),
                  ("the change is announced once", "posts_are('lit:modes_active_modes_changed')")],
         modifies=["self.active_modes", "self.active_modes.**"], raises={},
         bounded="BOUNDED: at most 1 mode already active")
    C.assume("A-RELY handlers, delays or devices that mode code registers directly on machine.events / the switch "
             "controller (not through the mode's own registries) are outside any contract")
    C.assume("'every accepted start eventually becomes active / every stop completes' (liveness through the queue "
             "events) is not decided; the per-transition contracts give the safety part")
    return C


def build_extra():
    c07b = build(control_events=True)
    c07b.pid = "C07b"
    c07b.replay_pid = "C07"
    c07b.only_verify = ["Mode._setup_device_control_events", "DeviceManager._control_event_handler"]
    # 'every ... delay, timer ... it registered is gone': a mode timer is stopped and its pending delays removed when
    # its mode stops (C13's contracts on Timer, restricted)
    from . import C13
    c13 = C13.build()
    c13.pid = "C07c"
    c13.replay_pid = "C13"
    c13.only_verify = ["Timer.device_removed_from_mode", "Timer.stop"]
    # overlapping stops: the game mode's own stop waits for every game mode, also one that is already stopping (C06's
    # game stop set); a stopping mode releases and forgets exactly the queue relays of its own context (C02's relay set)
    from . import C06, C02
    # 'leaves nothing behind' rests on handler removal by key: the key handed out by add_handler must name the list the
    # handler was filed under (the PARSED event name), and removal by key removes exactly that entry (C01's contracts)
    from . import C01
    c01 = C01.build()
    c01.pid = "C07e"
    c01.replay_pid = "C01"
    c01.only_verify = ["EventManager.add_handler", "EventManager.remove_handler_by_key"]
    return [c07b, c13, C06.game_stop_set("C07g"), C02.relay_player_set("C07q"), c01]
