"""C13 - Delays and periodic timers fire exactly when promised, or never.

Ghost model of the asyncio loop (A-ASYNCIO, trusted): call_later/call_at return a fresh handle h with
live[h], when[h]; Handle.cancel() clears live[h]; the loop runs a live handle's callback once, not before
when[h].  The DelayManager is verified against representation invariant D1 (names <-> live handles of this
manager are in bijection), from which "exactly once unless removed/replaced" follows (DESIGN 4.C13).
"""
import z3

from pyvc.contract import ContractSet, LoopSpec
from pyvc.vals import *       # noqa
from pyvc import vals as V
from pyvc.interp import TraceEv, MISSING
from pyvc.ctx import Unsupported
from . import common
from .common import emit, events_named

DELAYS = "mpf/core/delays.py"
CLOCK = "mpf/core/clock.py"
H = Opaque("Handle")
KW = Opaque("Kwargs")
ENTRY = TupleS(H, Fn)


def build():
    C = ContractSet("C13", "Delays and periodic timers fire exactly when promised, or never")
    C.ghost.update(dict(live=MapS(H, Bool), when=MapS(H, Real), mine=MapS(H, Bool), dname=MapS(H, Str),
                        dcb=MapS(H, Fn), dkw=MapS(H, KW), now=Real))

    def g(I, name, heap=None):
        return I.container(I.force(I.read_field(I.ghost, name, heap=heap)).ref, heap=heap)

    def gset(I, name, key, val):
        v = I.force(I.read_field(I.ghost, name))
        c = I.container(v.ref)
        I.set_container(v.ref, DMap(z3.Store(c.arr, key, val), c.dom, c.kshape, c.vshape))

    # ------------------------------------------------------------------ asyncio loop (trusted, A-ASYNCIO)
    C.cls("Loop", fields={})

    def _schedule(I, cb, when_t):
        I.ctx.fresh_n += 1
        h = z3.Const("handle!%d" % I.ctx.fresh_n, usort("Handle"))
        # a handle returned now has never been returned before: not live, not owned
        I.ctx.assume(z3.And(z3.Not(z3.Select(g(I, "live").arr, h)), z3.Not(z3.Select(g(I, "mine").arr, h))))
        gset(I, "live", h, z3.BoolVal(True))
        gset(I, "when", h, when_t)
        cbf = I.force(cb)
        mine = False
        if cbf.tag == "fn" and cbf.kind == "partial":
            f = I.force(cbf.fn)
            if f.tag == "fn" and f.kind == "bound" and f.name == "_process_delay_callback" and len(cbf.args) == 2 \
                    and f.obj is I.frames[0].env["self"].ref:
                mine = True
                gset(I, "dname", h, I.force(cbf.args[0]).t)
                gset(I, "dcb", h, to_term(I.force(cbf.args[1]), Fn))
                kw = cbf.kwargs.get("**")
                mk, empty = V.fn_terms()
                gset(I, "dkw", h, kw.t if kw is not None else empty)
        gset(I, "mine", h, z3.BoolVal(mine))
        emit(I, "loop.schedule", handle=VOpaque("Handle", h), callback=cb, when=VReal(when_t))
        return VOpaque("Handle", h)

    def call_later(I, env, args, kwargs):
        delay = kwargs.get("delay", args[0] if args else None)
        cb = kwargs.get("callback", args[1] if len(args) > 1 else None)
        k, t = I.num(delay)
        now = I.force(I.read_field(I.ghost, "now")).t
        return _schedule(I, cb, now + (t if k == "real" else z3.ToReal(t)))

    def call_at(I, env, args, kwargs):
        when = kwargs.get("when", args[0] if args else None)
        cb = kwargs.get("callback", args[1] if len(args) > 1 else None)
        k, t = I.num(when)
        return _schedule(I, cb, t if k == "real" else z3.ToReal(t))

    def loop_time(I, env, args, kwargs):
        return I.read_field(I.ghost, "now")

    def handle_cancel(I, env, args, kwargs):
        h = env["self"]
        gset(I, "live", h.t, z3.BoolVal(False))
        emit(I, "handle.cancel", handle=h)
        return NONE
    A = "asyncio event loop (A-ASYNCIO): fresh handle per registration; cancel() prevents the call; a live " \
        "handle's callback runs once, not before its time"
    C.ext("Loop.call_later", model=call_later, trusted_reason=A)
    C.ext("Loop.call_at", model=call_at, trusted_reason=A)
    C.ext("Loop.time", model=loop_time, trusted_reason=A)
    C.cls("Handle", fields={})
    C.ext("Handle.cancel", model=handle_cancel, trusted_reason=A)

    C.cls("ClockBase", file=CLOCK, bases=["LogMixin"], fields=dict(loop=ObjS("Loop"), _debug_to_console=Bool,
                                                                   _debug_to_file=Bool))
    C.fn("ClockBase.schedule_once", inline=True)
    C.fn("ClockBase.unschedule", inline=True)
    C.fn("ClockBase.get_time", inline=True)

    C.cls("EventManager", fields={})
    C.ext("EventManager.process_event_queue",
          model=lambda I, env, a, k: (emit(I, "process_event_queue"), NONE)[1],
          trusted_reason="event queue drain (verified under C01)")

    def uuid4(I, args, kwargs):
        """uuid4 is fresh: its string is non-empty and not the name of any existing delay (A-LIB)"""
        s = z3.String(I.fresh_name("uuid"))
        this = I.frames[0].env["self"].ref
        d = I.container(I.force(I.read_field(this, "delays")).ref)
        I.ctx.assume(z3.And(z3.Length(s) > 0, z3.Not(z3.Select(d.dom, s))))
        return VStr(s)
    C.globals["uuid"] = VFn("module", name="uuid")
    C.globals["uuid.uuid4"] = VFn("model", model=uuid4)

    # ------------------------------------------------------------------ spec helpers
    _, _, TACC = V.tuple_sort(ENTRY)
    hnd, stored_cb = TACC

    def _d(I, heap=None):
        this = I.frames[0].env["self"].ref
        return I.container(I.force(I.read_field(this, "delays", heap=heap)).ref, heap=heap)

    def D1(I):
        """names of this manager's delays and its live loop handles are in bijection, each handle carrying the
        delay's name, callback and stored kwargs"""
        d = _d(I)
        live, mine, dname, dcb, dkw = (g(I, x).arr for x in ("live", "mine", "dname", "dcb", "dkw"))
        n = z3.String("n!d1")
        h = z3.Const("h!d1", usort("Handle"))
        mk, empty = V.fn_terms()
        hn = hnd(z3.Select(d.arr, n))
        a = z3.ForAll([n], z3.Implies(z3.Select(d.dom, n),
                                      z3.And(z3.Select(live, hn), z3.Select(mine, hn), z3.Select(dname, hn) == n,
                                             stored_cb(z3.Select(d.arr, n)) ==
                                             mk(z3.Select(dcb, hn), z3.Select(dkw, hn)))),
                      patterns=[z3.Select(d.dom, n)])
        b = z3.ForAll([h], z3.Implies(z3.And(z3.Select(live, h), z3.Select(mine, h)),
                                      z3.And(z3.Select(d.dom, z3.Select(dname, h)),
                                             hnd(z3.Select(d.arr, z3.Select(dname, h))) == h)),
                      patterns=[z3.Select(live, h)])
        return VBool(z3.And(a, b))
    C.helpers["D1"] = D1

    def pending(I, name):
        d = _d(I)
        return VBool(z3.Select(d.dom, I.force(name).t))
    C.helpers["pending"] = pending

    def handle_of(I, name):
        d = _d(I)
        return VOpaque("Handle", hnd(z3.Select(d.arr, I.force(name).t)))
    C.helpers["handle_of"] = handle_of

    def gsel(field, shape):
        def f(I, h):
            return from_term(z3.Select(g(I, field).arr, I.force(h).t), shape)
        return f
    C.helpers["live"] = gsel("live", Bool)
    C.helpers["mine"] = gsel("mine", Bool)
    C.helpers["when"] = gsel("when", Real)
    C.helpers["cb_of"] = gsel("dcb", Fn)
    C.helpers["kw_of"] = gsel("dkw", KW)
    C.helpers["now"] = lambda I: I.read_field(I.ghost, "now")
    C.helpers["was_mine"] = lambda I, h: VBool(z3.Select(g(I, "mine", I.old_heap).arr, I.force(h).t))

    def others_untouched(I, *names):
        """every other delay name keeps its entry, and every loop handle other than the ones named keeps its
        liveness"""
        d, d0 = _d(I), _d(I, I.old_heap)
        n = z3.String("n!ou")
        ks = [I.force(x).t for x in names]
        return VBool(z3.ForAll([n], z3.Implies(z3.And([n != k for k in ks] + [z3.BoolVal(True)]),
                                               z3.And(z3.Select(d.dom, n) == z3.Select(d0.dom, n),
                                                      z3.Select(d.arr, n) == z3.Select(d0.arr, n)))))
    C.helpers["others_untouched"] = others_untouched

    def live_same_except(I, *handles):
        l1, l0 = g(I, "live").arr, g(I, "live", I.old_heap).arr
        h = z3.Const("h!ls", usort("Handle"))
        hs = [I.force(x).t for x in handles]
        return VBool(z3.ForAll([h], z3.Implies(z3.And([h != k for k in hs] + [z3.BoolVal(True)]),
                                               z3.Select(l1, h) == z3.Select(l0, h))))
    C.helpers["live_same_except"] = live_same_except

    def nothing_changed(I):
        d, d0 = _d(I), _d(I, I.old_heap)
        return VBool(z3.And(d.arr == d0.arr, d.dom == d0.dom, g(I, "live").arr == g(I, "live", I.old_heap).arr))
    C.helpers["nothing_changed"] = nothing_changed

    def callbacks(I):
        return [e for e in I.cur_trace() if e.name == "callback"]

    def n_callbacks(I):
        return VInt(len(callbacks(I)))
    C.helpers["n_callbacks"] = n_callbacks

    def callback_is(I, fn, kw):
        """the (single) user callback invoked on this path was fn(**kw)"""
        cbs = callbacks(I)
        if len(cbs) != 1:
            return VBool(False)
        e = cbs[0]
        mk, empty = V.fn_terms()
        got_kw = e.args["kwargs"].get("**")
        if got_kw is None and e.args["kwargs"]:
            return VBool(False)
        got = got_kw.t if got_kw is not None else empty
        if e.args["args"]:
            return VBool(False)

        def desc(f, k):
            # the call f(**k): calling the partial mk(f, k) with no further arguments is the same call
            return z3.If(k == empty, f, mk(f, k))
        gf, ef = I.force(e.args["fn"]).t, I.force(fn).t
        # axiom of partial (instances): a partial without stored kwargs behaves as the function itself
        ax = z3.And(mk(gf, empty) == gf, mk(ef, empty) == ef)
        return VBool(z3.Implies(ax, desc(gf, got) == desc(ef, I.force(kw).t)))
    C.helpers["callback_is"] = callback_is

    def at_callback(I, what, name):
        """state at the moment the user callback was invoked (snapshotted by the rely hook)"""
        cbs = callbacks(I)
        if len(cbs) != 1:
            return VBool(False)
        snap = cbs[0].args["state"]
        if what == "not_pending":
            return VBool(z3.Not(z3.Select(snap["dom"], I.force(name).t)))
        raise Unsupported(what)
    C.helpers["not_pending_at_callback"] = lambda I, name: at_callback(I, "not_pending", name)

    def handle_dead_at_callback(I, h):
        cbs = callbacks(I)
        if len(cbs) != 1:
            return VBool(False)
        return VBool(z3.Not(z3.Select(cbs[0].args["state"]["live"], I.force(h).t)))
    C.helpers["handle_dead_at_callback"] = handle_dead_at_callback

    def drained_after_callback(I):
        names = [e.name for e in I.cur_trace() if e.name in ("callback", "process_event_queue")]
        return VBool(names == ["callback", "process_event_queue"])
    C.helpers["drained_after_callback"] = drained_after_callback
    C.helpers["n_drains"] = lambda I: VInt(len([e for e in I.cur_trace() if e.name == "process_event_queue"]))

    def on_opaque_call(I, fn, args, kwargs):
        """rely: a user callback may call any public DelayManager method of any manager (so the delay map and
        the loop ghost are arbitrary afterwards, subject to D1) - snapshot the state it was called in first"""
        if I.frames[0].fc is not None and I.frames[0].fc.key.startswith("PeriodicTask."):
            # rely: the periodic callback may cancel the task (public API); it cannot un-cancel it
            this = I.frames[0].env["self"].ref
            was = I.force(I.read_field(this, "_canceled")).t
            I.havoc_field(this, "_canceled")
            I.ctx.assume(z3.Implies(was, I.force(I.read_field(this, "_canceled")).t))
            return None
        if I.frames[0].fc is None or not I.frames[0].fc.key.startswith("DelayManager."):
            return None
        d = _d(I)
        ev = I.trace[-1]
        ev.args["state"] = {"dom": d.dom, "arr": d.arr, "live": g(I, "live").arr}
        this = I.frames[0].env["self"]
        I.frames.append(I.frames[0])
        try:
            I.havoc_loc("self.delays")
            for f in ("live", "when", "mine", "dname", "dcb", "dkw"):
                I.havoc_loc("ghost." + f)
            I.ctx.assume(I.spec_bool("D1()"))
        finally:
            I.frames.pop()
        return None
    C.helpers["on_opaque_call"] = on_opaque_call

    # ------------------------------------------------------------------ the manager
    C.cls("MpfController", fields={})
    C.cls("DelayManager", file=DELAYS, bases=["MpfController"], fields=dict(
        delays=MapS(Str, ENTRY),
        machine=ObjS("MachineController", clock=ObjS("ClockBase"), events=ObjS("EventManager")),
    ), invariants=[("D1: delay names <-> live handles of this manager", "D1()")])
    GH = ["ghost.live", "ghost.when", "ghost.mine", "ghost.dname", "ghost.dcb", "ghost.dkw"]
    MOD = ["self.delays"] + GH
    P = dict(ms=Num, callback=Fn, name=Opt(Str), kwargs=KW)

    ADD_POST = [
        ("the delay is pending under the returned name", "pending(result)"),
        ("returned name is the given one (a fresh uuid when none was given)", "implies(name, result == name)"),
        ("scheduled exactly ms from now", "when(handle_of(result)) == now() + ms / 1000.0"),
        ("its handle is live", "live(handle_of(result))"),
        ("its handle is new (never one of this manager's before)", "not was_mine(handle_of(result))"),
        ("callback and arguments are stored with the handle",
         "cb_of(handle_of(result)) == callback and kw_of(handle_of(result)) == kwargs"),
        ("a delay replaced under the same name never fires",
         "implies(old(pending(result)), not live(old(handle_of(result))))"),
        ("other delays untouched", "others_untouched(result)"),
        ("no other handle cancelled or created",
         "implies(old(pending(result)), live_same_except(handle_of(result), old(handle_of(result)))) and "
         "implies(not old(pending(result)), live_same_except(handle_of(result)))"),
    ]
    C.fn("DelayManager.add", params=P, result=Str, requires=[("ms >= 0", "ms >= 0")], ensures=ADD_POST,
         modifies=MOD, raises={})
    C.fn("DelayManager.reset", params=dict(ms=Num, callback=Fn, name=Str, kwargs=KW), result=Str,
         requires=[("ms >= 0", "ms >= 0"), ("a name is given", "name")], ensures=ADD_POST, modifies=MOD, raises={})
    C.fn("DelayManager.remove", params=dict(name=Str),
         ensures=[("no longer pending", "not pending(name)"),
                  ("its handle is cancelled: a removed delay never fires",
                   "implies(old(pending(name)), not live(old(handle_of(name))))"),
                  ("other delays untouched", "others_untouched(name)"),
                  ("no other handle touched", "implies(old(pending(name)), live_same_except(old(handle_of(name)))) "
                                              "and implies(not old(pending(name)), live_same_except())")],
         modifies=["self.delays", "ghost.live"], raises={})
    C.fn("DelayManager.check", params=dict(delay=Str), result=Bool,
         ensures=[("truthful", "result == pending(delay)"), ("pure", "nothing_changed()")], modifies=[], raises={})
    C.fn("DelayManager.add_if_doesnt_exist", params=dict(ms=Num, callback=Fn, name=Str, kwargs=KW), result=Str,
         requires=[("ms >= 0", "ms >= 0"), ("a name is given", "name")],
         ensures=[("an existing delay is left alone", "implies(old(pending(name)), nothing_changed() and result == name)"),
                  ("otherwise added", "implies(not old(pending(name)), pending(result) and "
                                      "when(handle_of(result)) == now() + ms / 1000.0 and "
                                      "cb_of(handle_of(result)) == callback and kw_of(handle_of(result)) == kwargs)"),
                  ("other delays untouched", "others_untouched(name)")],
         modifies=MOD, raises={})
    C.fn("DelayManager.run_now", params=dict(name=Str),
         ensures=[("not pending: nothing happens", "implies(not old(pending(name)), n_callbacks() == 0)"),
                  ("pending: the callback runs now, once, with the stored arguments",
                   "implies(old(pending(name)), callback_is(old(cb_of(handle_of(name))), old(kw_of(handle_of(name)))))"),
                  ("run_now may be called from inside an event handler: it never drains the event queue itself "
                   "(handlers of different events must not nest)", "n_drains() == 0"),
                  ("the scheduled call is cancelled and the name freed before the callback runs",
                   "implies(old(pending(name)), not_pending_at_callback(name) and "
                   "handle_dead_at_callback(old(handle_of(name))))")],
         modifies=MOD, raises={})
    C.fn("DelayManager._process_delay_callback", params=dict(name=Str, callback=Fn, kwargs=KW),
         ensures=[("the callback is called once with the stored arguments", "callback_is(callback, kwargs)"),
                  ("the name is free when the callback runs (so check() is truthful inside it)",
                   "not_pending_at_callback(name)"),
                  ("the event queue is drained after the callback", "drained_after_callback()")],
         modifies=MOD, raises={}, no_inv=True, inline_calls=True)     # executed in line when called directly

    # ------------------------------------------------------------------ PeriodicTask (clock intervals)
    C.cls("PeriodicTask", file=CLOCK, fields=dict(_canceled=Bool, _interval=Real, _callback=Fn, _loop=ObjS("Loop"),
                                                 _last_call=Real),
          invariants=[("interval > 0", "self._interval > 0")])

    def schedules(I):
        return [e for e in I.cur_trace() if e.name == "loop.schedule"]
    C.helpers["n_scheduled"] = lambda I: VInt(len(schedules(I)))

    def scheduled_at(I):
        sc = schedules(I)
        return sc[-1].args["when"] if sc else NONE
    C.helpers["scheduled_at"] = scheduled_at

    def scheduled_run(I):
        """the callback registered with the loop is this task's own _run"""
        sc = schedules(I)
        if not sc:
            return VBool(False)
        cb = I.force(sc[-1].args["callback"])
        this = I.frames[0].env["self"].ref
        return VBool(cb.tag == "fn" and cb.kind == "bound" and cb.obj is this and cb.name == "_run")
    C.helpers["scheduled_run"] = scheduled_run

    def cb_then_schedule(I):
        names = [e.name for e in I.cur_trace() if e.name in ("callback", "loop.schedule")]
        return VBool(names in (["callback", "loop.schedule"], ["callback"]))
    C.helpers["cb_then_schedule"] = cb_then_schedule
    GHL = ["ghost.live", "ghost.when", "ghost.mine"]
    def emit_schedule(I, env, res):
        this = env["self"].ref
        if I.ctx.branch(I.force(I.read_field(this, "_canceled", heap=I.old_heap)).t):
            return
        lc = I.force(I.read_field(this, "_last_call", heap=I.old_heap)).t
        iv = I.force(I.read_field(this, "_interval", heap=I.old_heap)).t
        emit(I, "loop.schedule", handle=NONE, callback=VFn("bound", obj=this, name="_run", fc=C.fns["PeriodicTask._run"]),
             when=VReal(lc + iv))
    C.trace_helpers = {"n_scheduled", "scheduled_at", "scheduled_run", "cb_then_schedule", "n_callbacks",
                       "callback_is", "not_pending_at_callback", "handle_dead_at_callback", "drained_after_callback",
                       "n_drains"}
    C.fn("PeriodicTask._schedule", emits=emit_schedule,
         ensures=[("cancelled: nothing is scheduled", "implies(self._canceled, n_scheduled() == 0)"),
                  ("running: exactly one call of _run at the absolute time last_call + interval",
                   "implies(not self._canceled, n_scheduled() == 1 and scheduled_run() and "
                   "scheduled_at() == self._last_call + self._interval)")],
         modifies=GHL, raises={})
    C.fn("PeriodicTask.get_next_call_time", result=Real, ensures=["result == self._last_call + self._interval"],
         modifies=[], raises={})
    C.fn("PeriodicTask.cancel", ensures=[("cancelled", "self._canceled == True")], modifies=["self._canceled"],
         raises={})
    C.fn("PeriodicTask._run",
         ensures=[("the schedule advances by exactly one interval (absolute, so no drift accumulates)",
                   "self._last_call == old(self._last_call) + self._interval"),
                  ("cancelled before the tick: no callback, nothing rescheduled",
                   "implies(old(self._canceled), n_callbacks() == 0 and n_scheduled() == 0)"),
                  ("running: the callback is called exactly once, then the next tick is scheduled",
                   "implies(not old(self._canceled), n_callbacks() == 1 and cb_then_schedule())"),
                  ("the next tick is one interval after this one, unless the callback cancelled the task",
                   "implies(not old(self._canceled) and not self._canceled, n_scheduled() == 1 and "
                   "scheduled_at() == old(self._last_call) + 2 * self._interval)"),
                  ("cancelled by its own callback: not rescheduled",
                   "implies(self._canceled, n_scheduled() == 0)")],
         modifies=["self._last_call", "self._canceled"] + GHL, raises={})

    # ------------------------------------------------------------------ Timer device
    TIMER = "mpf/devices/timer.py"
    C.cls("Player", fields={})
    C.ext("Player.__setitem__", model=common.noop, trusted_reason="mirrors the tick value into a player variable (C11)")
    common.declare_events(C)
    C.ext("EventManager.process_event_queue",
          model=lambda I, env, a, k: (emit(I, "process_event_queue"), NONE)[1],
          trusted_reason="event queue drain (verified under C01)")

    def sched_interval(I, env, args, kwargs):
        emit(I, "schedule_interval", callback=args[0], secs=args[1])
        return VOpaque("PeriodicTaskRef", z3.Const(I.fresh_name("task"), usort("PeriodicTaskRef")))

    def unsched(I, env, args, kwargs):
        emit(I, "unschedule", what=args[0])
        return NONE
    C.cls("TimerClock", fields={})
    C.ext("TimerClock.schedule_interval", model=sched_interval,
          trusted_reason="ClockBase.schedule_interval -> PeriodicTask (verified above): ticks once per interval")
    C.ext("TimerClock.unschedule", model=unsched, trusted_reason="cancels the periodic task (verified above)")
    common.declare_delay_client(C, cls="DelayClient")      # the timer's own delay manager, client view
    C.cls("ModeDevice", fields={})
    C.cls("Timer", file=TIMER, bases=["ModeDevice"], fields=dict(
        running=Bool, _ticks=Int, end_value=Opt(Int), direction=Str, ticks_remaining=Opt(Int), tick_secs=Real,
        timer=Opt(Opaque("PeriodicTaskRef")), name=Str, player=Opt(ObjS("Player")), tick_var=Str,
        restart_on_complete=Bool, _debug=Bool, max_value=Opt(Int), start_value=Int,
        machine=ObjS("MachineController", clock=ObjS("TimerClock"), events=ObjS("EventManager")),
        delay=Init(lambda I, name: common.fresh_delay_manager(I, name, cls="DelayClient"))),
        invariants=[("direction is up or down", "self.direction == 'up' or self.direction == 'down'"),
                    ("a count-down timer has an end value", "implies(self.direction == 'down', self.end_value is not None)")])
    C.fn("Timer.ticks", is_property=True, inline=True, no_inv=True)
    C.fn("Timer.ticks@setter", inline=True, no_inv=True)
    C.fn("Timer._remove_system_timer", inline=True, no_inv=True)
    C.fn("Timer._create_system_timer", inline=True, no_inv=True)
    C.fn("Timer._post_tick_events", inline=True, no_inv=True)

    def tposts(I, suffix):
        """number of posts of event 'timer_<name>_<suffix>' on the path"""
        this = I.frames[0].env["self"].ref
        nm = I.force(I.read_field(this, "name")).t
        want1 = z3.Concat(z3.StringVal("timer_"), nm, z3.StringVal("_" + suffix))
        acc = z3.IntVal(0)
        for e in events_named(I, "post"):
            ev = I.force(e.args["event"])
            acc = acc + z3.If(ev.t == want1, 1, 0)
        return VInt(acc)
    for sfx in ("tick", "complete", "stopped", "started", "paused"):
        C.helpers["posted_" + sfx] = (lambda sf: (lambda I: tposts(I, sf)))(sfx)
    def stopped_first(I):
        """the first timer_<name>_stopped post precedes the first timer_<name>_complete post"""
        this = I.frames[0].env["self"].ref
        nm = I.force(I.read_field(this, "name")).t
        names = [I.force(e.args["event"]).t for e in events_named(I, "post")]
        st = z3.Concat(z3.StringVal("timer_"), nm, z3.StringVal("_stopped"))
        co = z3.Concat(z3.StringVal("timer_"), nm, z3.StringVal("_complete"))
        ok = z3.BoolVal(False)
        # exists i: names[i] == stopped and no complete among names[:i+1]
        for i in range(len(names)):
            ok = z3.Or(ok, z3.And(names[i] == st, *[names[j] != co for j in range(i)]))
        return VBool(ok)
    C.helpers["stopped_before_complete"] = stopped_first
    C.trace_helpers |= {"stopped_before_complete"}
    C.helpers["n_unscheduled"] = lambda I: VInt(len(events_named(I, "unschedule")))
    C.helpers["n_intervals"] = lambda I: VInt(len(events_named(I, "schedule_interval")))
    C.helpers["completions"] = lambda I: VInt(len(events_named(I, "timer_complete")))
    C.trace_helpers |= {"posted_tick", "posted_complete", "posted_stopped", "posted_started", "posted_paused",
                        "n_unscheduled", "n_intervals", "completions"}
    DONE = ("((self.direction == 'up' and self.end_value is not None and %s >= self.end_value) or "
            "(self.direction == 'down' and %s <= self.end_value))")
    TM = ["self.running", "self._ticks", "self.timer", "self.ticks_remaining", "self.delay.pending", "self.tick_secs"]

    def _tpost(I, env, sfx):
        emit(I, "post", kind="post", event=VStr(z3.Concat(
            z3.StringVal("timer_"), I.force(I.read_field(env["self"].ref, "name")).t, z3.StringVal("_" + sfx))),
            kwargs={}, callback=NONE)

    def emit_complete(I, env, res):
        emit(I, "timer_complete", via="contract")
        _tpost(I, env, "stopped")
        _tpost(I, env, "complete")
    CAP0 = "(self.max_value if (self.max_value is not None and self.max_value != 0 and %s > self.max_value) else %s)"
    RESTARTED = ("self.running and self.timer is not None and self._ticks == " + CAP0 % ("self.start_value", "self.start_value") +
                 " and n_intervals() >= 1 and last_interval_secs() == self.tick_secs")
    C.fn("Timer.timer_complete", params=dict(kwargs=Opaque("Kwargs")), emits=emit_complete, modifies=TM,
         ensures=[("T1: a completing timer is stopped first, then timer_<name>_complete is posted - once",
                   "posted_complete() >= 1 and stopped_before_complete() and "
                   "implies(completions() == 0, posted_complete() == 1 and posted_stopped() == 1)"),
                  ("T2: without restart_on_complete the timer is left stopped at its count: no periodic tick, no pending "
                   "un-pause", "implies(not self.restart_on_complete, not self.running and self.timer is None and "
                                "not pause_pending() and self._ticks == old(self._ticks) and completions() == 0)"),
                  ("T3: with restart_on_complete it runs again from its start value with one periodic task (unless the "
                   "start value completes it at once)",
                   "implies(self.restart_on_complete and completions() == 0, " + RESTARTED + ")")],
         raises={})
    C.fn("Timer.restart", params=dict(kwargs=Opaque("Kwargs")), modifies=TM, inline_calls=True,
         ensures=[("RS1: a restarted timer runs from its start value (capped) with a periodic task at its interval - "
                   "unless the start value completes it at once",
                   "implies(completions() == 0, " + RESTARTED + ")")],
         raises={})
    C.fn("Timer._check_for_done", result=Bool,
         lets={"done": DONE % ("self._ticks", "self._ticks")},
         ensures=[("a timer completes exactly when its count reaches (or passes) its end value in its direction",
                   "result == done and completions() == (1 if done else 0)"),
                  ("not done: nothing but the remaining-ticks bookkeeping changes",
                   "implies(not done, self._ticks == old(self._ticks) and self.running == old(self.running) and "
                   "self.timer == old(self.timer) and pause_pending() == old(pause_pending()) and "
                   "self.tick_secs == old(self.tick_secs))")],
         emits=lambda I, env, res: (emit_complete(I, env, res) if I.ctx.branch(I.force(res).t) else None),
         modifies=TM, raises={})
    C.fn("Timer.stop",
         ensures=[("stopped: not running and no periodic tick left", "self.running == False and self.timer is None"),
                  ("the pending un-pause is cancelled", "not pause_pending()"),
                  ("count unchanged", "self._ticks == old(self._ticks)"),
                  ("stopped event once", "posted_stopped() == 1")],
         modifies=["self.running", "self.timer", "self.delay.pending"], raises={},
         emits=lambda I, env, res: emit(I, "post", kind="post", event=VStr(z3.Concat(
             z3.StringVal("timer_"), I.force(I.read_field(env["self"].ref, "name")).t, z3.StringVal("_stopped"))),
             kwargs={}, callback=NONE))
    C.ext("Timer._remove_control_events", model=lambda I, env, a, k: (emit(I, "remove_control_events"), NONE)[1],
          trusted_reason="removes the handlers registered for the timer's control events (handler removal is C01)")
    C.helpers["n_control_removed"] = lambda I: VInt(len(events_named(I, "remove_control_events")))
    C.trace_helpers |= {"n_control_removed"}
    C.fn("Timer.device_removed_from_mode", params=dict(mode=Opaque("Mode")),
         ensures=[("R1: a removed timer can no longer act for the player it was loaded with: it is not running, has no "
                   "periodic tick, no pending un-pause and no control-event handler",
                   "self.running == False and self.timer is None and not pause_pending() and n_control_removed() == 1"),
                  ("the count is kept", "self._ticks == old(self._ticks)")],
         modifies=["self.running", "self.timer", "self.delay.pending"], raises={})
    C.fn("Timer.start", params=dict(kwargs=Opaque("Kwargs")), inline_calls=True,
         ensures=[("S1: a timer that is started (by hand, by a control event or by the delayed un-pause) runs with one "
                   "periodic tick (that a stale delayed start cannot fire into a later pause is pause()'s own clause PA1 "
                   "since 7360f73: every pause and stop removes a pending un-pause, so one that outlives a start can only "
                   "ever fire into a running timer, where it does nothing - S2)",
                   "implies(not old(self.running) and completions() == 0, self.running and self.timer is not None and "
                   "posted_started() == 1 and n_intervals() == 1)"),
                  ("S2: starting a running timer does nothing",
                   "implies(old(self.running), self.running and posted_started() == 0 and n_intervals() == 0 and "
                   "self.timer == old(self.timer) and self._ticks == old(self._ticks))"),
                  ("the count is not moved by a start", "implies(completions() == 0, self._ticks == old(self._ticks))")],
         modifies=TM, raises={})
    def unpause_is(I, ms):
        """the pending 'pause' delay calls this timer's start() after ms"""
        this = I.frames[0].env["self"].ref
        e = common.delay_entry(I, I.force(I.read_field(this, "delay")).ref, "pause")
        if e is None:
            return VBool(False)
        cb = I.force(e.items[1])
        ok = cb.tag == "fn" and getattr(cb, "kind", None) == "bound" and cb.obj is this and cb.name == "start"
        return VBool(z3.And(z3.BoolVal(bool(ok)), I.eq(e.items[0], ms)))
    C.helpers["unpause_calls_start_after"] = unpause_is
    C.fn("Timer.pause", params=dict(timer_value=Int, kwargs=Opaque("Kwargs")), requires=["timer_value >= 0"],
         ensures=[("paused: not running and no periodic tick left", "self.running == False and self.timer is None"),
                  ("count unchanged", "self._ticks == old(self._ticks)"),
                  ("PA1: a timed pause un-pauses by calling start() after exactly the requested time; an untimed pause has NO "
                   "un-pause pending - not even the one of an earlier timed pause that is still running (it would restart "
                   "a timer that was paused for good: ticks while paused)",
                   "unpause_calls_start_after(timer_value) if timer_value > 0 else not pause_pending()"),
                  ("paused event once", "posted_paused() == 1")],
         modifies=["self.running", "self.timer", "self.delay.pending"], raises={}, emits=lambda I, env, res: None)
    C.helpers["pause_pending"] = lambda I: VBool(common.delay_present(
        I, I.force(I.read_field(I.frames[0].env["self"].ref, "delay")).ref, "pause"))
    NEWT = "(old(self._ticks) - 1 if self.direction == 'down' else old(self._ticks) + 1)"
    C.fn("Timer._timer_tick",
         lets={"nt": "(self._ticks - 1 if self.direction == 'down' else self._ticks + 1)"},
         ensures=[
             ("never ticks while paused or stopped: the count does not move, nothing is posted, and the stray "
              "periodic task is removed",
              "implies(not old(self.running), self._ticks == old(self._ticks) and posted_tick() == 0 and "
              "completions() == 0 and self.timer is None)"),
             ("running: exactly one step in the timer's direction (unless that step completes it)",
              "implies(old(self.running) and not %s, self._ticks == nt and posted_tick() == 1 and "
              "completions() == 0)" % (DONE % ("nt", "nt"))),
             ("running: completes exactly when the step reaches the end value",
              "implies(old(self.running) and %s, completions() == 1 and posted_tick() == 0)" % (DONE % ("nt", "nt"))),
         ],
         modifies=TM, raises={})

    # ---- moving the count: add / subtract / jump / reset / restart, and changing the interval ----------------------
    C.ext("Timer._get_timer_value", model=lambda I, env, a, k: a[0], pure=True,
          trusted_reason="a plain number is returned as it is (a template is evaluated to an int: A-TEMPLATE)")
    C.ext("Timer._get_timer_tick_secs", model=lambda I, env, a, k: a[0], pure=True,
          trusted_reason="a plain number is returned as it is (a template is evaluated: A-TEMPLATE)")
    C.cls("TickTemplate", fields=dict(value=Real))
    C.ext("TickTemplate.evaluate", model=lambda I, env, a, k: I.read_field(env["self"].ref, "value"), pure=True,
          trusted_reason="template evaluation (C16)")

    def last_interval(I):
        evs = events_named(I, "schedule_interval")
        return evs[-1].args["secs"] if evs else VReal(z3.RealVal(-1))
    C.helpers["last_interval_secs"] = last_interval
    C.trace_helpers |= {"last_interval_secs"}
    CAP = "(self.max_value if (self.max_value is not None and self.max_value != 0 and %s > self.max_value) else %s)"
    ONE_TASK = ("exactly one periodic tick task afterwards, ticking at the timer's interval; the previous one is "
                "cancelled first (two tasks would tick the count twice per interval)",
                "implies(completions() == 0, self.timer is not None and n_intervals() == 1 and "
                "last_interval_secs() == self.tick_secs and n_unscheduled() == (1 if old(self.timer) is not None else 0))")

    def moved(nv):
        capped = CAP % (nv, nv)
        return [("the count moves to exactly the requested value (capped at max_value) - and the timer completes exactly "
                 "when that value reaches its end value in its direction",
                 "implies(completions() == 0, self._ticks == %s) and completions() == (1 if %s else 0)"
                 % (capped, DONE % (capped, capped))),
                ("moving the count neither starts nor stops a timer that is not complete",
                 "implies(completions() == 0, self.running == old(self.running) and "
                 "pause_pending() == old(pause_pending()))")]
    C.fn("Timer.add", params=dict(timer_value=Int, kwargs=Opaque("Kwargs")),
         ensures=moved("old(self._ticks) + timer_value") +
         [("the periodic task is left alone", "implies(completions() == 0, self.timer == old(self.timer) and "
                                              "n_intervals() == 0 and n_unscheduled() == 0)")],
         modifies=TM, raises={})
    C.fn("Timer.subtract", params=dict(timer_value=Int, kwargs=Opaque("Kwargs")),
         ensures=[("the count moves down by exactly the ticks subtracted - and the timer completes exactly when the new "
                   "count reaches its end value in its direction",
                   "implies(completions() == 0, self._ticks == old(self._ticks) - timer_value) and "
                   "completions() == (1 if %s else 0)" % (DONE % ("old(self._ticks) - timer_value",
                                                                  "old(self._ticks) - timer_value"))),
                  ("the periodic task is left alone", "implies(completions() == 0, self.timer == old(self.timer) and "
                                                      "n_intervals() == 0 and n_unscheduled() == 0 and "
                                                      "self.running == old(self.running))")],
         modifies=TM, raises={})
    C.fn("Timer.jump", params=dict(timer_value=Int, kwargs=Opaque("Kwargs")),
         ensures=moved("timer_value") + [ONE_TASK], modifies=TM, raises={}, inline_calls=True)
    C.fn("Timer.reset", params=dict(kwargs=Opaque("Kwargs")),
         ensures=moved("self.start_value") + [ONE_TASK], modifies=TM, raises={}, inline_calls=True)
    C.fn("Timer.set_tick_interval", params=dict(timer_value=Real, kwargs=Opaque("Kwargs")),
         ensures=[("the interval is the requested one (always positive) and the count is not moved",
                   "self.tick_secs == abs(timer_value) and self._ticks == old(self._ticks) and "
                   "self.running == old(self.running) and completions() == 0"), ONE_TASK],
         modifies=["self.tick_secs", "self.timer"], raises={})
    C.fn("Timer.change_tick_interval", params=dict(change=ObjS("TickTemplate"), kwargs=Opaque("Kwargs")),
         ensures=[("the interval is scaled by the factor and the count is not moved",
                   "self.tick_secs == old(self.tick_secs) * change.value and self._ticks == old(self._ticks) and "
                   "self.running == old(self.running) and completions() == 0"), ONE_TASK],
         modifies=["self.tick_secs", "self.timer"], raises={})

    # ---- control events of a timer: each entry is registered with the arguments of ITS OWN entry
    ACTIONS1 = ("add", "jump", "pause", "change_tick_interval", "start")
    ACTIONS2 = ("reset", "restart", "stop", "start", "subtract")
    VALUED = ("add", "subtract", "jump", "pause", "set_tick_interval")

    def control_entries(I, name):
        a1 = ACTIONS1[I.ctx.fork(len(ACTIONS1))]
        a2 = ACTIONS2[I.ctx.fork(len(ACTIONS2))]
        ents = []
        for i, a_ in enumerate((a1, a2)):
            ents.append(I.new_dict((("action", VStr(a_)), ("event", VStr("ctl_event%d" % i)),
                                    ("value", VOpaque("Template", z3.Const("ctl_value%d" % i, usort("Template"))))),
                                   "%s[%d]" % (name, i)))
        I.__dict__["c13_ctl"] = (a1, a2)
        return I.new_list(ents, name)

    def add_ctl_handler(I, env, a, k):
        emit(I, "ctl.add_handler", event=a[0], handler=a[1], kwargs=dict(k))
        return VOpaque("HandlerKey", z3.Const(I.fresh_name("hkey"), usort("HandlerKey")))
    C.ext("EventManager.add_handler", model=add_ctl_handler, trusted_reason="event registration (C01)")
    C.classes["Timer"].fields["event_keys"] = Seq(Opaque("HandlerKey"))
    C.classes["Timer"].fields["config"] = Rec(tick_interval=Opaque("Template"))

    def own_args(I):
        acts = I.__dict__.get("c13_ctl")
        evs = events_named(I, "ctl.add_handler")
        if acts is None or len(evs) != 2:
            return VBool(False)
        this = I.frames[0].env["self"].ref
        conj = []
        for i, (act, e) in enumerate(zip(acts, evs)):
            h = I.force(e.args["handler"])
            want_method = act
            ok = h.tag == "fn" and getattr(h, "kind", None) == "bound" and h.obj is this and h.name == want_method
            kw = e.args["kwargs"]
            val = VOpaque("Template", z3.Const("ctl_value%d" % i, usort("Template")))
            if act in VALUED:
                ok = ok and set(kw) == {"timer_value"}
                conj.append(I.eq(kw.get("timer_value", NONE), val))
            elif act == "change_tick_interval":
                ok = ok and set(kw) == {"change"}
                conj.append(I.eq(kw.get("change", NONE), val))
            else:
                ok = ok and not kw
            conj.append(z3.BoolVal(bool(ok)))
            conj.append(I.eq(e.args["event"], VStr("ctl_event%d" % i)))
        return VBool(z3.And(conj))
    C.helpers["registered_with_own_args"] = own_args
    C.trace_helpers |= {"registered_with_own_args"}
    C.fn("Timer._setup_control_events", params=dict(event_list=Init(control_entries)),
         loops={0: LoopSpec(invariant=[], unroll=True)},
         ensures=[("TC1: every control event calls the timer method of its action with the arguments of ITS OWN entry - the "
                   "value for add / subtract / jump / pause / the interval actions, NONE for start / stop / reset / restart, "
                   "whatever entry comes before it (a reset that inherits the value of the entry listed before it cannot "
                   "be called)", "registered_with_own_args()")],
         modifies=["self.event_keys"], raises={}, bounded="BOUNDED: two control event entries (25 action pairs)")

    def handle_info(I, cz, v, heap):
        out = {}
        for f, shape in (("live", Bool), ("when", Real), ("mine", Bool), ("dname", Str), ("dcb", Fn), ("dkw", KW)):
            c = I.container(I.force(I.read_field(I.ghost, f, heap=heap)).ref, heap=heap)
            out[f] = cz.val(from_term(z3.Select(c.arr, v.t), shape), 4)
        return out

    def kw_info(I, cz, v, heap):
        mk, empty = V.fn_terms()
        return {"empty": bool(z3.is_true(cz.ev(v.t == empty)))}
    C.opaque_info["Handle"] = handle_info
    C.opaque_info["Kwargs"] = kw_info

    C.finite_checks.append(common.native_demo_check(
        "c13_mode_delay_added_while_stopping.py",
        "a delay added to a mode's delay manager while the mode is stopping never fires once the mode has stopped"))
    C.finite_checks.append(common.native_demo_check("c13_reset_event_after_valued_entry.py", "a reset control event listed after a valued entry resets the timer"))
    C.finite_checks.append(common.native_demo_check(
        "c13_stale_unpause_into_untimed_pause.py",
        "a timed pause followed by an untimed pause: the timer stays paused (no tick) until it is started again"))
    C.assume("A-ASYNCIO: the loop calls a live handle's callback exactly once, not before when[h]; cancel() "
             "prevents it; handles are fresh")
    C.assume("A-LIB: uuid4() strings are fresh and non-empty")
    C.assume("A-FLOAT: times are mathematical reals")
    C.assume("A-RELY: a user callback only changes delays through the public DelayManager API (D1 preserved)")
    return C


def build_extra():
    # 'a delay does not fire after its owner stopped': Mode.stop clears the mode's delays at once, before the stopping
    # queue event can be held by anybody (C07's contract on Mode.stop, clause M7)
    from . import C07
    c07 = C07.build()
    c07.pid = "C13b"
    c07.replay_pid = "C07"
    c07.only_verify = ["Mode.stop", "Mode._control_event_handler", "Mode._mode_stopped_callback"]
    return [c07]
