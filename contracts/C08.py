"""C08 - Coils are never driven beyond their configured safety limits.

The top-level obligations are the *preconditions of the platform driver
interface* (hw_driver.pulse / enable / timed_enable), written from the
property statement.  Every function of mpf/devices/driver.py that can reach
the platform is verified against them; callers are checked against callee
contracts only.
"""
import z3

from pyvc.contract import ContractSet, LoopSpec
from pyvc.vals import *       # noqa
from pyvc import extract
from . import common
from .common import DelayMgr, delay_present, delay_entry, events_named, emit

DRIVER = "mpf/devices/driver.py"
IFACE = "mpf/platforms/interfaces/driver_platform_interface.py"

CONFIG = Rec(
    default_pulse_power=Opt(Real),      # single|float(0,1)|None   (range discharged by C12)
    max_pulse_power=Opt(Real),          # single|float(0,1)|1.0
    default_hold_power=Opt(Real),       # single|float(0,1)|None
    max_hold_power=Opt(Real),           # single|float(0,1)|None
    allow_enable=Bool,                  # single|bool|false
    pulse_with_timed_enable=Bool,
    max_pulse_ms=Opt(Int),              # single|ms|None
    max_hold_duration=Opt(Real),        # single|secs|None
    number=Opt(Str),
    psu=ObjS("PowerSupplyUnit"),
)

# limits as the statement names them.  A limit configured as 0 / 0.0 is treated as "not configured",
# exactly as the validated config does (None or falsy) - documented restriction, DESIGN.md C08.
LIM_PULSE_POWER = ("(cfg['max_pulse_power'] if cfg['max_pulse_power'] else "
                   "(cfg['default_pulse_power'] if cfg['default_pulse_power'] else 0))")
LIM_HOLD_POWER = ("(cfg['max_hold_power'] if cfg['max_hold_power'] else "
                  "(1.0 if cfg['allow_enable'] else "
                  "(cfg['default_hold_power'] if cfg['default_hold_power'] else 0)))")


def pulse_ok(p, cfg="this.config"):
    """clauses: PulseSettings p within the coil's limits"""
    lp = LIM_PULSE_POWER.replace("cfg", cfg)
    return [
        ("pulse.duration>=0", "%s.duration >= 0" % p),
        ("pulse.duration<=max_pulse_ms", "implies(%s['max_pulse_ms'], %s.duration <= %s['max_pulse_ms'])" % (cfg, p, cfg)),
        ("pulse.power>=0", "%s.power >= 0" % p),
        ("pulse.power<=max_pulse_power", "%s.power <= %s" % (p, lp)),
        ("pulse.power<=1", "%s.power <= 1" % p),
    ]


# (file, enclosing function) -> why the site is covered
SITES_UNDER_CONTRACT = {
    ("mpf/devices/driver.py", "Driver._enable_now"): "verified",
    ("mpf/devices/driver.py", "Driver._pulse_now"): "verified",
    ("mpf/devices/driver.py", "Driver.timed_enable"): "verified",
}
SITES_LISTED = {
    ("mpf/core/platform_controller.py", "SoftwareEosRepulseManager._repulse_on_eos_open"):
        "uses the rule's DriverSettings, which come from _get_configured_driver_with_hold/_no_hold (both under "
        "contract: the settings are within the coil's limits); the hand-over through set_*_rule is C10's PC1/PC2",
    ("mpf/devices/digital_output.py", "DigitalOutput.pulse"):
        "digital_outputs are not coils: no max_pulse_ms/max_*_power in their config section (constant power 1.0)",
    ("mpf/devices/digital_output.py", "DigitalOutput.enable"): "digital output, see DigitalOutput.pulse",
}


def site_check(C):
    """enumerate syntactically every <expr>.hw_driver.(pulse|enable|timed_enable)(...) under mpf/ (not tests;
    platform packages included: a platform that drives ANOTHER device's hw_driver bypasses Driver); each must be a verified site or a listed one.  A new site is a violation of the
    statement's 'no path bypasses the verification' unless it is brought under contract."""
    import ast
    import os
    from pyvc import extract
    rows = []
    found = set()
    root = os.path.join(extract.REPO, "mpf")
    for dp, dn, fn in os.walk(root):
        rel = os.path.relpath(dp, extract.REPO)
        if rel.startswith(("mpf/tests", "mpf/benchmarks")):
            continue
        for f in fn:
            if not f.endswith(".py"):
                continue
            relf = os.path.join(rel, f)
            src, tree = extract.load_module(relf)
            stack = [(tree, "")]
            while stack:
                node, qual = stack.pop()
                for ch in ast.iter_child_nodes(node):
                    q = qual
                    if isinstance(ch, (ast.ClassDef, ast.FunctionDef, ast.AsyncFunctionDef)):
                        q = (qual + "." if qual else "") + ch.name
                    if isinstance(ch, ast.Call) and isinstance(ch.func, ast.Attribute) and \
                            ch.func.attr in ("pulse", "enable", "timed_enable") and \
                            isinstance(ch.func.value, ast.Attribute) and ch.func.value.attr == "hw_driver":
                        found.add((relf, qual, ch.lineno))
                    stack.append((ch, q))
    def helper_of_verified(relf, qual, seen=()):
        """a private method whose only uses are direct calls self.<m>(...) from functions under contract (or from
        such helpers): its body is executed in line at those call sites by the verifier, so it is covered"""
        if "." not in qual or not qual.split(".")[-1].startswith("_") or qual in seen:
            return None
        cls, meth = qual.rsplit(".", 1)
        src, tree = extract.load_module(relf)
        callers, escapes = set(), False
        for n in ast.walk(tree):
            if isinstance(n, ast.ClassDef) and n.name == cls:
                for fn_ in n.body:
                    if not isinstance(fn_, (ast.FunctionDef, ast.AsyncFunctionDef)):
                        continue
                    called = {id(c.func) for c in ast.walk(fn_) if isinstance(c, ast.Call)}
                    for a in ast.walk(fn_):
                        if isinstance(a, ast.Attribute) and a.attr == meth and isinstance(a.value, ast.Name) and \
                                a.value.id == "self":
                            if id(a) in called:
                                callers.add(cls + "." + fn_.name)
                            else:
                                escapes = True
        if escapes or not callers:
            return None
        for c in callers:
            if (relf, c) in SITES_UNDER_CONTRACT:
                continue
            if helper_of_verified(relf, c, seen + (qual,)) is None:
                return None
        return "private helper called only from %s: executed in line there by the verifier" % sorted(callers)

    for relf, qual, line in sorted(found):
        key = (relf, qual)
        ok = key in SITES_UNDER_CONTRACT or key in SITES_LISTED
        why = SITES_UNDER_CONTRACT.get(key) or SITES_LISTED.get(key)
        if not ok:
            why = helper_of_verified(relf, qual)
            ok = why is not None
        if not ok:
            why = "NEW actuation site outside every contract: %s:%d in %s calls hw_driver directly" % (relf, line, qual)
        rows.append(("site[%s:%s]" % (relf, qual), ok, why))
    for key in SITES_UNDER_CONTRACT:
        if not any((r, q) == key for r, q, _ in found):
            rows.append(("site-present[%s:%s]" % key, True, "site no longer present (nothing to check)"))
    # the two switch-off timers of a coil (software-timed pulse, max_hold_duration) belong to Driver alone: 'switched off
    # again when that time is up, whatever else happens in between' can only hold if nobody else removes or resets them
    touched = []
    for dp, dn, fn in os.walk(root):
        rel = os.path.relpath(dp, extract.REPO)
        if rel.startswith(("mpf/tests", "mpf/benchmarks")):
            continue
        for f in fn:
            if not f.endswith(".py"):
                continue
            relf = os.path.join(rel, f)
            if relf == DRIVER:
                continue
            src, tree = extract.load_module(relf)
            for n in ast.walk(tree):
                # <expr>.delay.<method>(...) where <expr> is not `self` / `self.machine`: a delay manager that belongs to
                # ANOTHER device (a coil's `delay` holds its switch-off timers) is manipulated from outside
                if isinstance(n, ast.Call) and isinstance(n.func, ast.Attribute) and \
                        isinstance(n.func.value, ast.Attribute) and n.func.value.attr == "delay":
                    base = ast.unparse(n.func.value.value)
                    if base == "self":
                        continue
                    names = [a.value for a in list(n.args) + [k.value for k in n.keywords]
                             if isinstance(a, ast.Constant)]
                    timer_named = any(x in ("timed_disable", "enable_limit_reached") for x in names)
                    wipes_coil = n.func.attr == "clear" and any(w in base.lower() for w in ("coil", "driver"))
                    if timer_named or wipes_coil:
                        touched.append("%s:%d %s" % (relf, n.lineno, ast.unparse(n)[:80]))
    rows.append(("a coil's switch-off timers ('timed_disable', 'enable_limit_reached' in its own delay manager) are only "
                 "touched by Driver: no module calls <other device>.delay.*", not touched,
                 "no such call" if not touched else "; ".join(touched[:3])))
    return rows


def build():
    C = ContractSet("C08", "Coils are never driven beyond their configured safety limits")
    C.namedtuple(IFACE, "PulseSettings")
    C.namedtuple(IFACE, "HoldSettings")
    C.exc("DriverLimitsError", "AssertionError", file="mpf/exceptions/driver_limits_error.py")
    common.declare_delay_client(C)
    common.declare_noop(C, "BcpInterface", "send_driver_event")
    common.declare_noop(C, "ServiceController", "add_technical_alert")
    C.cls("Logger", fields={})
    C.ext("Logger.warning", model=common.noop, trusted_reason="logging")

    C.cls("PowerSupplyUnit", fields={})
    C.ext("PowerSupplyUnit.notify_about_instant_pulse", params=dict(pulse_ms=Num), model=common.noop,
          trusted_reason="PSU bookkeeping (mpf/devices/power_supply_unit.py) does not touch the driver")
    C.ext("PowerSupplyUnit.get_wait_time_for_pulse", params=dict(pulse_ms=Num, max_wait_ms=Opt(Num)),
          result=Num, ensures=["result >= 0"],
          trusted_reason="assumed: PSU wait time is a non-negative number (power_supply_unit.py, not verified)")

    # ---- the platform driver interface: the statement's obligations are its preconditions
    C.cls("DriverPlatformInterface", fields={})

    def hw(name):
        def model(I, env, args, kwargs):
            common.emit(I, "hw." + name, **{k: v for k, v in env.items() if k not in ("self", "**kwargs")})
            return NONE
        return model

    def sw_timed_pulse(I):
        """the enable is a software-timed pulse: a 'timed_disable' delay whose callback is this.disable is
        pending on this path (so the coil is switched off again when the time is up; C13 gives that a pending
        delay fires unless removed/replaced)"""
        this = I.frames[0].env["self"].ref
        dm = I.force(I.read_field(this, "delay")).ref
        ent = delay_entry(I, dm, "timed_disable")
        if ent is None:
            return VBool(False)
        cb = I.force(ent.items[1])
        ok = cb.tag == "fn" and cb.kind == "bound" and cb.obj is this and cb.name == "disable"
        ms_k, ms_t = I.num(ent.items[0])
        return VBool(z3.And(z3.BoolVal(ok), ms_t >= 0))
    C.helpers["sw_timed_pulse"] = sw_timed_pulse

    hold_lim = LIM_HOLD_POWER.replace("cfg", "this.config")
    C.ext("DriverPlatformInterface.pulse", params=dict(pulse_settings=TupleS()), model=hw("pulse"),
          requires=pulse_ok("pulse_settings"),
          trusted_reason="platform back end; its precondition IS the property")
    C.ext("DriverPlatformInterface.enable", params=dict(pulse_settings=TupleS(), hold_settings=TupleS()),
          model=hw("enable"),
          requires=pulse_ok("pulse_settings") + [
              ("hold.power>=0", "hold_settings.power >= 0"),
              ("hold.power<=max_hold_power or software-timed pulse",
               "hold_settings.power <= %s or sw_timed_pulse()" % hold_lim),
          ],
          trusted_reason="platform back end; its precondition IS the property")
    C.ext("DriverPlatformInterface.timed_enable", params=dict(pulse_settings=TupleS(), hold_settings=TupleS()),
          model=hw("timed_enable"),
          requires=pulse_ok("pulse_settings") + [
              ("hold.power>=0", "hold_settings.power >= 0"),
              ("hold.power<=max_hold_power", "hold_settings.power <= %s" % hold_lim),
              ("hold.duration>=0", "hold_settings.duration >= 0"),
              ("hold.duration<=max_hold_duration",
               "implies(this.config['max_hold_duration'], "
               "hold_settings.duration <= this.config['max_hold_duration'] * 1000)"),
          ],
          trusted_reason="platform back end; its precondition IS the property")
    C.ext("DriverPlatformInterface.disable", model=hw("disable"), trusted_reason="platform back end")

    C.cls("Driver", file=DRIVER, bases=["SystemWideDevice"], fields=dict(
        config=CONFIG,
        hw_driver=Opt(ObjS("DriverPlatformInterface")),
        platform=Opt(ObjS("DriverPlatform", features=Rec(max_pulse=Int))),
        delay=DelayMgr,
        _pulse_ms=Union(NoneT, Int, Real),
        _timed_enable_ms=Union(NoneT, Int, Real),
        name=Str,
        machine=ObjS("MachineController", bcp=ObjS("Bcp", interface=ObjS("BcpInterface")),
                     service=ObjS("ServiceController")),
        log=ObjS("Logger"),
    ), invariants=[
        # A-CONFIG (discharged for the scalar validators by C12): float(0,1) ranges, ms/secs non-negative
        ("cfg.default_pulse_power in [0,1]", "implies(self.config['default_pulse_power'] is not None, 0 <= self.config['default_pulse_power'] <= 1)"),
        ("cfg.max_pulse_power in [0,1]", "implies(self.config['max_pulse_power'] is not None, 0 <= self.config['max_pulse_power'] <= 1)"),
        ("cfg.default_hold_power in [0,1]", "implies(self.config['default_hold_power'] is not None, 0 <= self.config['default_hold_power'] <= 1)"),
        ("cfg.max_hold_power in [0,1]", "implies(self.config['max_hold_power'] is not None, 0 <= self.config['max_hold_power'] <= 1)"),
        ("cfg.max_pulse_ms >= 0", "implies(self.config['max_pulse_ms'] is not None, self.config['max_pulse_ms'] >= 0)"),
        ("cfg.max_hold_duration >= 0", "implies(self.config['max_hold_duration'] is not None, self.config['max_hold_duration'] >= 0)"),
        ("platform.max_pulse >= 0", "implies(self.platform is not None, self.platform.features['max_pulse'] >= 0)"),
    ])

    ANYNUM = Union(NoneT, Int, Real)
    LIMERR = {"AssertionError": True}     # DriverLimitsError derives from AssertionError

    # ---- the verifiers: result within limits on normal exit, i.e. every out-of-range request raises
    lp = LIM_PULSE_POWER.replace("cfg", "self.config")
    C.fn("Driver.get_and_verify_pulse_power", params=dict(pulse_power=ANYNUM),
         lets={"req": "pulse_power if pulse_power is not None else "
                      "(self.config['default_pulse_power'] if self.config['default_pulse_power'] is not None else 1.0)"},
         result=Num,
         ensures=[("result==request", "result == req"),
                  ("result>=0", "result >= 0"),
                  ("result<=limit", "result <= %s" % lp),
                  ("result<=1", "result <= 1")],
         raises=LIMERR, modifies=[])

    lh = LIM_HOLD_POWER.replace("cfg", "self.config")
    C.fn("Driver.get_and_verify_hold_power", params=dict(hold_power=ANYNUM),
         lets={"req": "hold_power if hold_power is not None else "
                      "(self.config['default_hold_power'] if self.config['default_hold_power'] else "
                      "(self.config['max_hold_power'] if self.config['max_hold_power'] else "
                      "(1.0 if self.config['allow_enable'] else 0.0)))"},
         result=Num,
         ensures=[("result==request", "result == req"),
                  ("result>=0", "result >= 0"),
                  ("result<=limit", "result <= %s" % lh),
                  ("result<=1", "result <= 1")],
         raises=LIMERR, modifies=[])

    C.fn("Driver.get_and_verify_pulse_ms", params=dict(pulse_ms=ANYNUM),
         lets={"req": "pulse_ms if pulse_ms is not None else self._pulse_ms"},
         result=Int,
         ensures=[("result==request", "result == req"),
                  ("result>=0", "result >= 0"),
                  ("result<=max_pulse_ms", "implies(self.config['max_pulse_ms'], result <= self.config['max_pulse_ms'])"),
                  ("platform present", "self.platform is not None")],
         raises=LIMERR, modifies=[])

    C.fn("Driver.get_and_verify_timed_enable_ms", params=dict(timed_enable_ms=ANYNUM),
         lets={"req": "timed_enable_ms if timed_enable_ms is not None else self._timed_enable_ms"},
         result=Int,
         ensures=[("result==request", "result == req"),
                  ("result>=0", "result >= 0"),
                  ("result<=max_hold_duration",
                   "implies(self.config['max_hold_duration'], result <= self.config['max_hold_duration'] * 1000)"),
                  ("platform present", "self.platform is not None")],
         raises=LIMERR, modifies=[])

    # ---- hardware rules: the DriverSettings handed to a platform rule are built from the verified values only
    PCF = "mpf/core/platform_controller.py"
    C.namedtuples["DriverRuleSettings"] = extract.namedtuple_fields(PCF, "DriverRuleSettings")
    C.namedtuples["PulseRuleSettings"] = extract.namedtuple_fields(PCF, "PulseRuleSettings")
    C.namedtuples["HoldRuleSettings"] = extract.namedtuple_fields(PCF, "HoldRuleSettings")
    C.cls("DriverSettings", fields=dict(hw_driver=Opaque("Any"), pulse_settings=Opaque("Any"),
                                        hold_settings=Opaque("Any"), recycle=Opaque("Any")))

    def driver_settings(I, a, k):
        I.ctx.fresh_n += 1
        o = Obj("DriverSettings", ObjS("DriverSettings", {}), "DriverSettings#%d" % I.ctx.fresh_n)
        I.creating_new += 1
        try:
            for i, f in enumerate(("hw_driver", "pulse_settings", "hold_settings", "recycle")):
                I.write_field(o, f, k.get(f, a[i] if i < len(a) else NONE))
        finally:
            I.creating_new -= 1
        return VObj(o)
    C.globals["DriverSettings"] = VFn("model", model=driver_settings)
    C.cls("MpfController", fields={})
    C.cls("PlatformController", file=PCF, bases=["MpfController"], fields={})
    DRS = TupleS(ObjS("Driver"), Bool, ntname="DriverRuleSettings", fields=tuple(C.namedtuples["DriverRuleSettings"][0]))
    PRS = Union(NoneT, TupleS(ANYNUM, ANYNUM, ntname="PulseRuleSettings",
                              fields=tuple(C.namedtuples["PulseRuleSettings"][0])))
    HRS = Union(NoneT, TupleS(ANYNUM, ntname="HoldRuleSettings", fields=tuple(C.namedtuples["HoldRuleSettings"][0])))
    rule_cfg = "driver.driver.config"
    RULE_PULSE = [
        ("rule pulse.duration>=0", "result.pulse_settings.duration >= 0"),
        ("rule pulse.duration<=max_pulse_ms", "implies(%s['max_pulse_ms'], result.pulse_settings.duration <= "
                                              "%s['max_pulse_ms'])" % (rule_cfg, rule_cfg)),
        ("rule pulse.power>=0", "result.pulse_settings.power >= 0"),
        ("rule pulse.power<=max_pulse_power", "result.pulse_settings.power <= %s" %
         LIM_PULSE_POWER.replace("cfg", rule_cfg)),
        ("an explicitly requested duration / power is what the rule gets (after verification)",
         "implies(pulse_setting is not None and pulse_setting.duration is not None, result.pulse_settings.duration == "
         "pulse_setting.duration) and implies(pulse_setting is not None and pulse_setting.power is not None, "
         "result.pulse_settings.power == pulse_setting.power)"),
    ]
    ACFG = ("the coil's configuration is valid (A-CONFIG, the Driver class invariant)", "invariant_of(driver.driver)")
    C.fn("PlatformController._get_configured_driver_no_hold", params=dict(driver=DRS, pulse_setting=PRS),
         requires=[ACFG], ensures=RULE_PULSE + [("no hold in a no-hold rule", "result.hold_settings is None")],
         raises=LIMERR, modifies=[], result=ObjS("DriverSettings"), no_inv=True)
    C.fn("PlatformController._get_configured_driver_with_hold",
         params=dict(driver=DRS, pulse_setting=PRS, hold_settings=HRS),
         requires=[ACFG], ensures=RULE_PULSE + [
             ("rule hold.power>0 (a rule with hold must hold)", "result.hold_settings.power > 0"),
             ("rule hold.power<=max_hold_power", "result.hold_settings.power <= %s" %
              LIM_HOLD_POWER.replace("cfg", rule_cfg))],
         raises=LIMERR, modifies=[], result=ObjS("DriverSettings"), no_inv=True)

    # ---- a light on a driver: the brightness reaches Driver.enable unchanged, so the driver's check applies
    C.cls("LightPlatformSoftwareFade", fields={})
    C.cls("CoilForLight", fields=dict(config=CONFIG))
    C.ext("CoilForLight.enable", model=lambda I, env, a, k: (common.emit(I, "light.enable", hold_power=k.get("hold_power"),
                                                                         kwargs=k, args=a), NONE)[1],
          trusted_reason="Driver.enable (verified above): refuses a hold power above the limit")
    C.ext("CoilForLight.disable", model=lambda I, env, a, k: (common.emit(I, "light.disable"), NONE)[1],
          trusted_reason="Driver.disable (verified above)")
    C.cls("DriverLight", file="mpf/platforms/driver_light_platform.py", bases=["LightPlatformSoftwareFade"],
          fields=dict(driver=ObjS("CoilForLight")), check_bases=False)

    def light_passes_on(I, brightness):
        en = events_named(I, "light.enable")
        dis = events_named(I, "light.disable")
        b = I.force(brightness)
        kk, t = I.num(b)
        pos = t > 0
        if len(en) == 1 and not dis:
            e = en[0]
            ok = set(e.args["kwargs"]) == {"hold_power"} and not e.args["args"]
            return VBool(z3.And(pos, z3.BoolVal(ok), I.eq(e.args["hold_power"], b)))
        if len(dis) == 1 and not en:
            return VBool(z3.Not(pos))
        return VBool(False)
    C.helpers["light_passes_on"] = light_passes_on
    C.trace_helpers = set(getattr(C, "trace_helpers", ())) | {"light_passes_on"}
    C.fn("DriverLight.set_brightness", params=dict(brightness=Num),
         ensures=[("a light on a driver switches the coil off for brightness <= 0 and otherwise asks the driver for "
                   "EXACTLY that hold power - never a silently clamped one - so that Driver.enable refuses a value "
                   "above max_hold_power", "light_passes_on(brightness)")],
         modifies=[], raises={}, no_inv=True)

    C.fn("Driver._notify_psu_and_get_wait_ms", params=dict(pulse_ms=Num, max_wait_ms=Opt(Num)),
         result=Num, ensures=["result >= 0"], modifies=[], raises={})

    VERIFIED_PULSE = [
        ("pulse_ms verified", "pulse_ms >= 0 and implies(self.config['max_pulse_ms'], pulse_ms <= self.config['max_pulse_ms'])"),
        ("pulse_power verified", "0 <= pulse_power <= %s and pulse_power <= 1" % lp),
    ]

    def pending(name):
        def h(I):
            this = I.frames[0].env["self"].ref
            dm = I.force(I.read_field(this, "delay")).ref
            return VBool(delay_present(I, dm, name))
        return h
    def untouched(name):
        def h(I):
            """no add/reset/remove of this delay on the path (an already running one keeps its deadline)"""
            this = I.frames[0].env["self"].ref
            dm = I.force(I.read_field(this, "delay")).ref
            p = I.force(I.read_field(dm, "pending"))
            return VBool(I.container(p.ref).get(name) is None)
        return h
    C.helpers["limit_delay_untouched"] = untouched("enable_limit_reached")
    C.helpers["limit_delay_pending"] = pending("enable_limit_reached")
    C.helpers["timed_disable_pending"] = pending("timed_disable")
    C.helpers["postponed_enable_pending"] = pending("postponed_enable")

    def trace_has(name):
        def h(I):
            return VBool(len(events_named(I, name)) > 0)
        return h
    C.trace_helpers = set(getattr(C, "trace_helpers", ())) | {"issued_hw_enable", "issued_hw_disable"}
    C.helpers["issued_hw_enable"] = trace_has("hw.enable")
    C.helpers["issued_hw_disable"] = trace_has("hw.disable")

    def emits(*names):
        def f(I, env, res):
            for nm in names:
                common.emit(I, nm, via="contract")
        return f

    def emit_maybe_enable(I, env, res):
        """callers only learn: the hardware has been enabled, or the enable is postponed"""
        if I.ctx.fork(2) == 0:
            common.emit(I, "hw.enable", via="contract")

    C.fn("Driver._enable_now", params=dict(pulse_ms=Int, pulse_power=Num, hold_power=Num), emits=emits("hw.enable"),
         requires=["self.hw_driver is not None"] + VERIFIED_PULSE + [
             ("hold_power verified", "0 < hold_power <= %s" % lh)],
         ensures=[("hardware enabled", "issued_hw_enable()"),
                  ("max_hold_duration => switch-off scheduled",
                   "implies(self.config['max_hold_duration'], limit_delay_pending())"),
                  ("a switch-off that is already scheduled is not pushed back by enabling again",
                   "implies(old(limit_delay_pending()), limit_delay_untouched())"),
                  ("a postponed enable is neither added nor removed here",
                   "postponed_enable_pending() == old(postponed_enable_pending())")],
         modifies=["self.delay.pending"], raises={})

    C.fn("Driver._enable_limit_reached", requires=["self.hw_driver is not None"], emits=emits("hw.disable"),
         ensures=[("coil disabled", "issued_hw_disable()")], modifies=["self.delay.pending"], raises={})

    C.fn("Driver.disable", requires=["self.hw_driver is not None"], emits=emits("hw.disable"),
         ensures=[("hardware disabled", "issued_hw_disable()"),
                  ("limit timer removed", "not limit_delay_pending()"),
                  ("DS2: an enable that the PSU postponed does not outlive the disable (it would switch the coil on "
                   "with nobody left to switch it off: an enable-coil ejector disables after its eject time)",
                   "not postponed_enable_pending()")],
         modifies=["self.delay.pending"], raises={})

    C.fn("Driver.event_disable", requires=["self.hw_driver is not None"], modifies=["self.delay.pending"],
         raises={})

    C.fn("Driver.enable", params=dict(pulse_ms=ANYNUM, pulse_power=ANYNUM, hold_power=ANYNUM, max_wait_ms=Opt(Num)),
         requires=["self.platform is not None"],
         ensures=[("EN3: the coil is switched on now or the enable is postponed under its own name (so that a disable "
                   "can cancel it) - never both, never neither",
                   "(issued_hw_enable() or postponed_enable_pending()) and "
                   "(not issued_hw_enable() or not postponed_enable_pending() or old(postponed_enable_pending()))")],
         emits=emit_maybe_enable, modifies=["self.delay.pending"], raises=LIMERR)
    C.fn("Driver.event_enable", params=dict(pulse_ms=ANYNUM, pulse_power=ANYNUM, hold_power=ANYNUM),
         requires=["self.platform is not None"],
         modifies=["self.delay.pending"], raises=LIMERR)

    def emit_pulse_now(I, env, res):
        """callers only learn: the hardware may have been enabled (software-timed pulse) or pulsed"""
        if I.ctx.fork(2) == 0:
            common.emit(I, "hw.enable", via="contract")

    C.fn("Driver._pulse_now", params=dict(pulse_ms=Int, pulse_power=Num), emits=emit_pulse_now,
         requires=VERIFIED_PULSE,
         ensures=[("software-timed enable => switch-off scheduled for pulse_ms",
                   "implies(issued_hw_enable(), timed_disable_pending() and timed_disable_ms() == pulse_ms)"),
                  ("PN0: the software-timed enable (the coil is switched on and HELD until a timer switches it off) is only "
                   "used for a pulse that is too long for the platform's own pulse: a pulse of 0 ms never switches a coil "
                   "on with a hold - not even for the moment until a 0 ms timer fires, and not on a coil whose "
                   "configuration forbids holding",
                   "implies(issued_hw_enable() and not self.config['pulse_with_timed_enable'], "
                   "pulse_ms > self.platform.features['max_pulse'])")],
         modifies=["self.delay.pending"], raises=LIMERR)

    C.finite_checks.append(common.native_demo_check(
        "c08_postponed_enable_after_disable.py",
        "an enable that the PSU postponed does not switch the coil on after the driver has been disabled"))
    C.finite_checks.append(common.native_demo_check(
        "c08_pulse_0_holds_coil.py", "pulse(0) sends no enable / hold command to the platform"))

    def timed_disable_ms(I):
        this = I.frames[0].env["self"].ref
        dm = I.force(I.read_field(this, "delay")).ref
        ent = delay_entry(I, dm, "timed_disable")
        return ent.items[0] if ent is not None else NONE
    C.helpers["timed_disable_ms"] = timed_disable_ms

    C.fn("Driver.pulse", params=dict(pulse_ms=ANYNUM, pulse_power=ANYNUM, max_wait_ms=Opt(Num)),
         result=Num, modifies=["self.delay.pending"], raises=LIMERR)
    C.fn("Driver.event_pulse", params=dict(pulse_ms=ANYNUM, pulse_power=ANYNUM, max_wait_ms=Opt(Num)),
         modifies=["self.delay.pending"], raises=LIMERR)

    C.fn("Driver.timed_enable", params=dict(timed_enable_ms=ANYNUM, hold_power=ANYNUM, pulse_ms=ANYNUM,
                                            pulse_power=ANYNUM, max_wait_ms=Opt(Num)),
         requires=["self.platform is not None", "self.hw_driver is not None"],
         result=Num, modifies=[], raises=LIMERR)
    C.fn("Driver.event_timed_enable", params=dict(timed_enable_ms=ANYNUM, hold_power=ANYNUM, pulse_ms=ANYNUM,
                                                  pulse_power=ANYNUM, max_wait_ms=Opt(Num)),
         requires=["self.platform is not None", "self.hw_driver is not None"],
         modifies=[], raises=LIMERR)

    # ---- call-site completeness: every hw_driver.pulse/enable/timed_enable call under mpf/ is enumerated each run
    C.finite_checks.append(site_check)

    C.assume("A-CONFIG: coil config values have the types/ranges config_spec.yaml declares (float(0,1), ms, secs, "
             "bool); discharged for the scalar validators by C12")
    C.assume("limits configured as 0/0.0 are treated as not configured (the code tests truthiness); documented")
    C.assume("A-FLOAT: Python floats modelled as mathematical reals")
    return C


CP = "mpf/config_players/coil_player.py"


def coil_player_set():
    """coil_player / show entries reach the coil unchanged: what the entry asks for is what Driver.pulse / enable is
    called with, so an entry above the coil's limits meets the driver's own check (refused with an error) and is never
    clamped on the way"""
    C = ContractSet("C08p", "coil player entries reach the driver unchanged")
    C.strings = False
    C.cls("DeviceConfigPlayer", fields={})
    C.cls("Driver", fields=dict(name=Str, config=Rec(max_pulse_ms=Opt(Int), default_pulse_ms=Opt(Int))))
    C.globals["Driver"] = VCls("Driver")
    for m_ in ("pulse", "enable", "disable"):
        C.ext("Driver." + m_, model=(lambda nm: lambda I, env, a, k: (emit(I, "coil." + nm, coil=env["self"].ref, args=list(a),
                                                                          kwargs=dict(k)), NONE)[1])(m_),
              trusted_reason="Driver.pulse / enable / disable: main set (limits checked there, DriverLimitsError)")

    def deepcopy_model(I, args, kwargs):
        v = I.force(args[0])
        if v.tag == "dict":
            return I.new_dict(tuple(I.container(v.ref).entries), "deepcopy")
        return v
    C.globals["deepcopy"] = VFn("model", model=deepcopy_model)

    def settings(I, name):
        coil = I.fresh(ObjS("Driver"), name + ".coil")
        act = ["pulse", "enable", "on", "disable", "off"][I.ctx.fork(5)]
        s = I.new_dict((("action", VStr(act)), ("pulse_ms", I.fresh(Opt(Int), name + ".pulse_ms")),
                        ("pulse_power", I.fresh(Opt(Real), name + ".pulse_power")),
                        ("hold_power", I.fresh(Opt(Real), name + ".hold_power")),
                        ("max_wait_ms", I.fresh(Opt(Int), name + ".max_wait_ms"))), name + ".s")
        I.__dict__["c08_entry"] = (I.force(coil).ref, act, I.container(I.force(s).ref))
        return I.new_dict(((coil, s),), name)
    C.cls("CoilPlayer", file=CP, bases=["DeviceConfigPlayer"], fields={})
    C.ext("CoilPlayer._get_instance_dict", model=lambda I, env, a, k: I.fresh(MapS(Str, Opaque("CoilRef")), "instances"),
          trusted_reason="per-context instance dict (which coils a show holds enabled)")

    def forwarded(I):
        coil, act, s = I.__dict__["c08_entry"]
        evs = [e for e in I.cur_trace() if e.name.startswith("coil.")]
        if len(evs) != 1 or evs[0].args["coil"] is not coil or evs[0].args["args"]:
            return VBool(False)
        kw = evs[0].args["kwargs"]
        if act == "pulse":
            want = {"pulse_ms": s.get("pulse_ms"), "pulse_power": s.get("pulse_power"), "max_wait_ms": s.get("max_wait_ms")}
            nm = "coil.pulse"
        elif act in ("enable", "on"):
            want = {"pulse_ms": s.get("pulse_ms"), "pulse_power": s.get("pulse_power"), "hold_power": s.get("hold_power")}
            nm = "coil.enable"
        else:
            want, nm = {}, "coil.disable"
        if evs[0].name != nm or set(kw) != set(want):
            return VBool(False)
        return VBool(z3.And([I.eq(kw[k_], want[k_]) for k_ in want] + [z3.BoolVal(True)]))
    C.helpers["entry_forwarded"] = forwarded
    C.trace_helpers = {"entry_forwarded"}
    C.fn("CoilPlayer.play", params=dict(settings=Init(settings), context=Str, calling_context=Str, priority=Int,
                                        kwargs=Opaque("Kwargs")),
         loops_by_text={"settings.items()": LoopSpec(invariant=[], unroll=True)},
         ensures=[("CP1: the coil's own method is called once with EXACTLY the entry's pulse_ms, pulse_power, hold_power "
                   "and max_wait_ms - nothing is clamped or replaced on the way, so a value above the coil's limits is "
                   "refused by the driver instead of being shortened silently", "entry_forwarded()")],
         modifies=[], raises={}, skip_frame=True, bounded="BOUNDED: one entry per call")
    return C


def build_extra():
    return [coil_player_set()]
