"""C02 - Queue, relay and boolean events complete exactly once and in order.

* QueuedEvent.wait / clear / is_empty: the wait-queue typestate (free <-> held).
* _run_handlers_sequential (async, bounded to 2 registered handlers): handlers run in list order, each waits
  for the wait it registered before the next one runs, and the completion callback runs exactly once on every
  normal exit.
* Protocol obligation on callers of post_queue: a wait queue that is currently HELD must not be forwarded in the
  kwargs of a nested queue event (the nested dispatcher would block on the outer wait and replace the event the
  outer dispatcher sleeps on).  Checked on Mode.start.
Relay / boolean result rules are the _run_handlers contract of C01.
"""
import os

import z3

from pyvc.contract import ContractSet, LoopSpec
from pyvc.vals import *       # noqa
from pyvc.interp import MISSING
from . import common
from .common import emit, events_named

EV = "mpf/core/events.py"
MODE = "mpf/core/mode.py"
N = 2


def build():
    C = ContractSet("C02", "Queue, relay and boolean events complete exactly once and in order")
    C.namedtuple(EV, "RegisteredHandler")

    # ------------------------------------------------------------------ QueuedEvent
    C.cls("AsyncEvent", fields=dict(flag=Bool))
    C.ext("AsyncEvent.set", model=lambda I, env, a, k: (I.write_field(env["self"].ref, "flag", VBool(True)),
                                                        emit(I, "event.set", ev=env["self"]), NONE)[2],
          trusted_reason="asyncio.Event (A-ASYNCIO)")
    QE_FIELDS = dict(waiter=Bool, event=Opt(ObjS("AsyncEvent")), debug_log=Fn)
    C.cls("QueuedEvent", file=EV, fields=QE_FIELDS)
    C.helpers["on_opaque_call"] = lambda I, fn, a, k: NONE
    C.fn("QueuedEvent.wait",
         ensures=[("the queue is held afterwards", "self.waiter == True")],
         raises={"AssertionError": "self.waiter"}, ensures_exc=["self.waiter == old(self.waiter)"],
         modifies=["self.waiter"])
    C.fn("QueuedEvent.clear",
         ensures=[("the queue is free afterwards", "self.waiter == False"),
                  ("a dispatcher sleeping on this queue is woken", "implies(self.event is not None, self.event.flag)")],
         raises={"AssertionError": "not self.waiter"}, ensures_exc=["self.waiter == old(self.waiter)"],
         modifies=["self.waiter", "self.event.flag"])
    C.fn("QueuedEvent.is_empty", result=Bool, ensures=["result == (not self.waiter)"], modifies=[], raises={})

    # ------------------------------------------------------------------ _run_handlers_sequential (bounded)
    C.cls("Cond", fields={})
    def cond_eval(I, env, a, k):
        r = VBool(z3.Bool(I.fresh_name("cond")))
        emit(I, "cond", obj=env["self"], result=r)
        return r
    C.ext("Cond.evaluate", model=cond_eval, trusted_reason="condition template (C16): reads the CURRENT variable values")
    def handler_kwargs(I, name):
        """kwargs a handler was registered with: none, or one whose name collides with a posted kwarg"""
        if I.ctx.fork(2) == 0:
            return I.new_dict(())
        return I.new_dict((("a", VInt(z3.Int(name + "[a]"))),))
    RH = TupleS(Fn, Int, Init(handler_kwargs), Opaque("UUID"), Opt(ObjS("Cond")), NoneT,
                ntname="RegisteredHandler",
                fields=("callback", "priority", "kwargs", "key", "condition", "blocking_facility"))

    def registry(I, name):
        evk = I.force(I.frames[0].env["event"])
        if I.ctx.fork(2) == 0:
            return I.new_dict(())          # every handler was removed between post and task start
        return I.new_dict(((evk, I.fresh(ListOf(RH, N), name + "[ev]")),))

    def asyncio_event(I, args, kwargs):
        o = Obj("AsyncEvent", ObjS("AsyncEvent", {}), I.fresh_name("asyncio.Event"))
        o.fresh = True
        I.heap.data[(o, "flag")] = VBool(False)
        return VObj(o)
    C.globals["asyncio"] = VFn("module", name="asyncio")
    C.globals["asyncio.Event"] = VFn("model", model=asyncio_event)

    def queued_event_new(I, args, kwargs):
        o = Obj("QueuedEvent", ObjS("QueuedEvent", QE_FIELDS), I.fresh_name("QueuedEvent"))
        o.fresh = True
        I.heap.data[(o, "waiter")] = VBool(False)
        I.heap.data[(o, "event")] = NONE
        emit(I, "new_queue", q=VObj(o))
        return VObj(o)
    C.fn("QueuedEvent.__init__", inline=True)

    def ev_wait(I, env, args, kwargs):
        """await event.wait(): the dispatcher sleeps until the flag is set; the only setter is QueuedEvent.clear()
        of the queue that owns the event, which also frees the queue (A-ASYNCIO + clear's contract)"""
        evo = env["self"].ref
        emit(I, "await", ev=env["self"])
        if I.ctx.branch(I.truth(I.read_field(evo, "flag"))):
            return VBool(True)      # Event.wait() on a set event returns at once: nobody cleared anything
        # while suspended: any queue whose event is this one gets cleared by its holder
        for (o, f), v in list(I.heap.data.items()):
            if f == "event" and isinstance(o, Obj) and o.cls == "QueuedEvent":
                fv = I.force(v) if isinstance(v, Val) else None
                if fv is not None and fv.tag == "obj" and fv.ref is evo:
                    I.heap.data[(o, "waiter")] = VBool(False)
                    I.rely_modified.add((o, "waiter"))
        I.heap.data[(evo, "flag")] = VBool(True)
        return VBool(True)
    C.ext("AsyncEvent.wait", model=ev_wait, trusted_reason="asyncio.Event.wait (A-ASYNCIO) + QueuedEvent.clear")

    def on_handler_call(I, fn, args, kwargs):
        """a queue-event handler may register a wait on the queue it is handed (rely)"""
        fc0 = I.frames[0].fc
        if fc0 is None or fc0.key != "EventManager._run_handlers_sequential":
            return NONE
        q = kwargs.get("queue")
        if q is None and I.trace and I.trace[-1].name == "callback":
            outstanding = [o for (o, f), v in I.heap.data.items()
                           if f == "waiter" and isinstance(o, Obj) and o.cls == "QueuedEvent" and
                           getattr(o, "used_by_handler", False)]
            I.trace[-1].args["earlier_waits"] = z3.Or([I.truth(I.heap.data[(o, "waiter")]) for o in outstanding] +
                                                      [z3.BoolVal(False)])
        if q is not None and I.trace and I.trace[-1].name == "callback" and I.trace[-1].args["args"] == ():
            qo = I.force(q)
            if qo.tag == "obj" and qo.ref.cls == "QueuedEvent":
                # outstanding waits of EARLIER handlers at the moment this handler is called
                outstanding = [o for (o, f), v in I.heap.data.items()
                               if f == "waiter" and isinstance(o, Obj) and o.cls == "QueuedEvent" and
                               getattr(o, "used_by_handler", False)]
                I.trace[-1].args["earlier_waits"] = z3.Or([I.truth(I.heap.data[(o, "waiter")]) for o in outstanding] +
                                                          [z3.BoolVal(False)])
                qo.ref.used_by_handler = True
                if I.ctx.fork(2) == 1:
                    I.heap.data[(qo.ref, "waiter")] = VBool(True)      # the handler called queue.wait()
                    I.rely_modified.add((qo.ref, "waiter"))
        return NONE
    C.helpers["on_opaque_call"] = on_handler_call

    def seq_ok(I):
        """handlers of the snapshot are called once each, in list order; no handler is called while an earlier
        handler's wait is outstanding; the completion callback is the last call and happens exactly once"""
        env = I.frames[0].env
        this = env["self"].ref
        reg = I.old_heap.data[(I.force(I.read_field(this, "registered_handlers", heap=I.old_heap)).ref, "$")]
        lst = reg.get(I.force(env["event"]))
        handlers = [I.force(h) for h in I.old_heap.data[(I.force(lst).ref, "$")].items] if lst is not None else []
        cb = I.force(env["callback"])
        E = [e for e in I.cur_trace() if e.name in ("callback", "cond", "await")]
        p = 0
        cs = []
        for h in handlers:
            # a handler's condition is evaluated right before its turn (after earlier handlers and their waits)
            cond_true = z3.BoolVal(True)
            calts = h.items[4].alts if isinstance(h.items[4], VUnion) else ((z3.BoolVal(True), h.items[4]),)
            cobjs = [a.ref for _, a in calts if a.tag == "obj"]
            if p < len(E) and E[p].name == "cond" and any(I.force(E[p].args["obj"]).ref is o for o in cobjs):
                cs.append(z3.Not(I.is_none(h.items[4])))
                cond_true = I.force(E[p].args["result"]).t
                p += 1
                called = p < len(E) and E[p].name == "callback" and I.force(E[p].args["fn"]).t.eq(I.force(h.items[0]).t)
                if not called:
                    cs.append(z3.Not(cond_true))
                    continue
            else:
                cs.append(I.is_none(h.items[4]))
            if not (p < len(E) and E[p].name == "callback" and I.force(E[p].args["fn"]).t.eq(I.force(h.items[0]).t)):
                return VBool(False)
            cs.append(cond_true)
            cs.append(z3.Not(E[p].args.get("earlier_waits", z3.BoolVal(False))))
            # the handler gets the posted kwargs merged with the kwargs it was registered with - its own win
            hk = I.old_heap.data[(I.force(h.items[2]).ref, "$")].get("a")
            posted = I.container(I.force(env["kwargs"]).ref).get("a")
            got = E[p].args["kwargs"].get("a")
            want = hk if hk is not None else posted
            if want is not None:
                if got is None:
                    return VBool(False)
                cs.append(I.eq(got, want))
            p += 1
            if p < len(E) and E[p].name == "await":
                p += 1
        if cb.tag != "none":
            if not (p < len(E) and E[p].name == "callback" and I.force(E[p].args["fn"]).t.eq(cb.t)):
                return VBool(False)
            cs.append(z3.Not(E[p].args.get("earlier_waits", z3.BoolVal(False))))
            p += 1
        if p != len(E):
            return VBool(False)
        return VBool(z3.And(cs + [z3.BoolVal(True)]))
    def seq_kwargs(I, name):
        if I.ctx.fork(2) == 0:
            return I.new_dict((("a", VInt(z3.Int("kw_a"))),))
        q = I.fresh(ObjS("QueuedEvent", QE_FIELDS), name + "[queue]")
        return I.new_dict((("a", VInt(z3.Int("kw_a"))), ("queue", q)))
    C.helpers["seq_ok"] = seq_ok
    C.trace_helpers = {"seq_ok", "n_posts_queue"}
    C.cls("MpfController", fields={})
    C.cls("EventManager", file=EV, bases=["MpfController"], fields=dict(
        _debug=Bool, debug_log=Fn, registered_handlers=Init(registry), callback_queue=Seq(Opaque("CbEntry")),
        _queue_tasks=Seq(Opaque("Task"))))
    C.fn("EventManager._run_handlers_sequential",
         params=dict(event=Str, callback=Opt(Fn), kwargs=Init(seq_kwargs)),
         requires=[("the posted kwargs carry no HELD wait queue (protocol obligation on post_queue callers); a free "
                    "one may be forwarded and is then shared by all handlers",
                    "'queue' not in kwargs or not kwargs['queue'].waiter")],
         ensures=[("every registered handler runs, in order, with the posted kwargs overridden by its own registered "
                   "kwargs, never while an earlier wait is outstanding, and the completion callback fires exactly once, "
                   "last", "seq_ok()")],
         modifies=[], raises={},
         bounded="%d registered handlers; each may or may not register a wait on its queue" % N)

    # ------------------------------------------------------------------ protocol obligation on Mode.start
    C.cls("EventMgrIface", fields={})

    def post(kind):
        def m(I, env, args, kwargs):
            emit(I, "post", kind=kind, event=kwargs.get("event", args[0] if args else NONE),
                 kwargs={k: v for k, v in kwargs.items() if k not in ("event", "callback")})
            return NONE
        return m
    NOFWD = ("W0: the QueuedEvent of the triggering queue event belongs to that event's dispatch only - it is never posted on "
             "as an argument of another event (mode_<name>_will_start / _starting / _started): a handler of that event that "
             "starts a mode would hand the SAME wait object to a second queue event, and the two dispatches block each other",
             "not forwards_queue()")
    C.ext("EventMgrIface.post", model=post("post"), requires=[NOFWD], trusted_reason="event posting (C01)")
    C.ext("EventMgrIface.post_queue", params=dict(event=Str, callback=Fn), model=post("post_queue"),
          requires=[NOFWD, ("a wait queue that is currently held is never forwarded into a nested queue event",
                            "not forwards_held_queue()")],
          trusted_reason="EventManager.post_queue; the precondition is the wait-queue protocol needed by "
                         "_run_handlers_sequential")

    def forwards_held_queue(I):
        kw = I.frames[-1].env.get("**kwargs") or {}
        q = kw.get("queue")
        if q is None:
            return VBool(False)
        qo = I.force(q)
        if qo.tag != "obj":
            return VBool(False)
        return VBool(I.truth(I.read_field(qo.ref, "waiter")))
    C.helpers["forwards_held_queue"] = forwards_held_queue

    def forwards_queue(I):
        kw = I.frames[-1].env.get("**kwargs") or {}
        q = kw.get("queue")
        return VBool(q is not None and I.force(q).tag == "obj")
    C.helpers["forwards_queue"] = forwards_queue

    def keeps_queue(I, d):
        dv = I.force(d)
        if dv.tag != "dict":
            return VBool(False)
        return VBool(I.container(dv.ref).get("queue") is not None)
    C.helpers["keeps_queue"] = keeps_queue

    def start_kwargs(I, name):
        if I.ctx.fork(2) == 0:
            return I.new_dict(())
        q = I.fresh(ObjS("QueuedEvent", QE_FIELDS), name + "[queue]")
        I.ctx.assume(z3.Not(I.truth(I.read_field(q.ref, "waiter"))))     # handed over free by the dispatcher
        return I.new_dict((("queue", q),))
    C.cls("ModeController", fields=dict(start_methods=ListOf(Opaque("RemoteMethod"), 0)))
    C.cls("Mode", file=MODE, fields=dict(
        config=Rec(mode=Rec(game_mode=Bool, use_wait_queue=Bool, priority=Int, stop_priority=Int,
                            stop_events=ListOf(Str, 0), events_when_started=ListOf(Str, 0))),
        machine=ObjS("MachineController", events=ObjS("EventMgrIface"), game=Opt(ObjS("Game")),
                     mode_controller=ObjS("ModeController"), is_shutting_down=Bool),
        player=Opt(ObjS("Player")), _active=Bool, _starting=Bool, name=Str, priority=Int,
        _mode_start_wait_queue=Opt(ObjS("QueuedEvent", QE_FIELDS)), start_event_kwargs=Opaque("Any"),
        start_callback=Opt(Fn), stop_methods=Seq(Opaque("Any"))), check_bases=False)
    for m in ("mode_will_start", "_add_mode_devices", "_setup_device_control_events", "add_mode_event_handler"):
        C.ext("Mode." + m, model=common.noop, trusted_reason="mode set-up hook (C07); does not touch wait queues")
    C.ext("Mode._started", model=common.noop, trusted_reason="completion callback of the starting event (C07)")
    C.cls("DelayManager", fields={})
    C.ext("DelayManager.clear", model=common.noop, trusted_reason="mode delays (C13)")
    C.ext("Mode._remove_mode_switch_handlers", model=common.noop, trusted_reason="C07")
    C.ext("Mode._stopped", model=common.noop, trusted_reason="completion callback of the stopping event (C07)")

    def cb_registered(I, cb):
        """the callback is in stop_callbacks (it will be called when the mode has stopped)"""
        this = I.frames[0].env["self"].ref
        c = I.container(I.force(I.read_field(this, "stop_callbacks")).ref)
        c0 = I.old_heap.data[(I.force(I.read_field(this, "stop_callbacks", heap=I.old_heap)).ref, "$")]
        return VBool(c.term == z3.Concat(c0.term, z3.Unit(I.force(cb).t)))

    def cbs_unchanged(I):
        this = I.frames[0].env["self"].ref
        c = I.container(I.force(I.read_field(this, "stop_callbacks")).ref)
        c0 = I.old_heap.data[(I.force(I.read_field(this, "stop_callbacks", heap=I.old_heap)).ref, "$")]
        return VBool(c.term == c0.term)
    C.helpers["cb_registered"] = cb_registered
    C.helpers["cbs_unchanged"] = cbs_unchanged
    C.helpers["n_posts_queue"] = lambda I: VInt(len([e for e in events_named(I, "post") if e.args["kind"] == "post_queue"]))
    C.classes["Mode"].fields.update(dict(stop_callbacks=Seq(Fn), stopping=Bool, mode_stop_kwargs=Opaque("Any"),
                                         delay=ObjS("DelayManager")))
    C.fn("Mode.stop", params=dict(callback=Opt(Fn), kwargs=Init(lambda I, name: I.new_dict(()))), result=Bool,
         ensures=[("a stop request on a running mode (also one that is already stopping) always registers its "
                   "completion callback, exactly once - it will fire when the mode has stopped",
                   "implies(old(self._active) and callback is not None, cb_registered(callback))"),
                  ("no callback is registered for a mode that is not running",
                   "implies(not old(self._active) or callback is None, cbs_unchanged())"),
                  ("the stopping queue event is posted once per stop, not again while already stopping",
                   "n_posts_queue() == (1 if (old(self._active) and not old(self.stopping)) else 0)"),
                  ("returns whether the mode was running", "result == old(self._active)")],
         modifies=["self.stop_callbacks", "self.stopping", "self.mode_stop_kwargs"], raises={})
    C.globals["MODE_STARTING_EVENT_TEMPLATE"] = VStr("mode_{}_starting")
    C.fn("Mode.start", params=dict(mode_priority=Opt(Int), callback=Opt(Fn), kwargs=Init(start_kwargs)),
         modifies=["self._starting", "self._mode_start_wait_queue", "self._mode_start_wait_queue.waiter", "self.priority",
                   "self.start_event_kwargs", "self.start_callback", "kwargs.*", "kwargs['queue'].waiter"],
         ensures=[("W1: ... nor is it kept in start_event_kwargs (they are posted again with mode_<name>_started)",
                   "implies(self._starting and not old(self._starting), not keeps_queue(self.start_event_kwargs))")],
         raises={}, note="only the wait-queue obligations at post / post_queue are of interest here (lifecycle: C07)")

    # ------------------------------------------------------------------ coroutine handlers (add_async_handler)
    C.exc("CancelledError", "BaseException")
    C.exc("HandlerFailure", "Exception")
    C.globals["asyncio.CancelledError"] = VCls("CancelledError")
    C.cls("Future", fields=dict(outcome=Union(Const("result"), Const("cancelled"), Const("exception"))))

    def fut_result(I, env, a, k):
        o = I.force(I.read_field(env["self"].ref, "outcome"))
        if I.ctx.branch(I.eq(o, VStr("cancelled"))):
            I.raise_("CancelledError")
        if I.ctx.branch(I.eq(o, VStr("exception"))):
            I.raise_("HandlerFailure")
        return NONE
    C.ext("Future.result", model=fut_result, trusted_reason="asyncio.Future.result (A-ASYNCIO): returns, or raises "
          "CancelledError for a cancelled task, or re-raises the coroutine's exception")
    C.ext("Future.cancelled", model=lambda I, env, a, k: VBool(I.eq(I.read_field(env["self"].ref, "outcome"),
                                                                    VStr("cancelled"))),
          trusted_reason="asyncio.Future.cancelled (A-ASYNCIO)")
    C.ext("Future.exception", model=lambda I, env, a, k: I.raise_("CancelledError")
          if I.ctx.branch(I.eq(I.read_field(env["self"].ref, "outcome"), VStr("cancelled"))) else NONE,
          trusted_reason="asyncio.Future.exception (A-ASYNCIO); the exception object itself is not modelled")
    C.fn("EventManager._async_handler_done",
         params=dict(queue=ObjS("QueuedEvent"), future=ObjS("Future")),
         requires=[("the coroutine handler registered its wait when it was called (_async_handler_coroutine)",
                    "queue.waiter")],
         ensures=[("A1: when the coroutine handler's task is done - finished OR cancelled - its wait is cleared, so the "
                   "queue event goes on to the later handlers and its completion callback",
                   "queue.waiter == False and implies(queue.event is not None, queue.event.flag)")],
         raises={"HandlerFailure": "future.outcome == 'exception'"},
         modifies=["queue.waiter", "queue.event.flag"], allow_decorators=["staticmethod"])

    C.assume("A-ASYNCIO: Event.wait() returns only once the flag is set; the flag of a wait queue's event is set only "
             "by QueuedEvent.clear(), which frees the queue first")
    C.assume("A-RELY: a queue-event handler may call queue.wait() on the queue it receives; whoever holds a queue "
             "eventually calls clear() (liveness is not decided)")
    return C


QRP = "mpf/config_players/queue_relay_player.py"


def relay_player_set(pid="C02q"):
    """queue_relay_player: every relay holds its own queue event and listens with its own handler; finishing (or
    clearing the context of) one relay releases exactly its own wait and removes exactly its own handler - relays of
    other queue events and other contexts stay held"""
    C = ContractSet(pid, "queue relay player: one wait and one handler per relay")
    C.strings = False
    C.cls("ConfigPlayer", fields={})
    NR = common.bound(2, 3)

    def reg(I):
        return I.__dict__.setdefault("c02_relay_handlers", {})      # key name -> live Bool (python)

    C.cls("QueueI", fields=dict(waiter=Bool))

    def q_wait(I, env, a, k):
        if I.ctx.branch(I.truth(I.read_field(env["self"].ref, "waiter"))):
            I.raise_("AssertionError", "Double lock")
        I.write_field(env["self"].ref, "waiter", VBool(True))
        emit(I, "queue.wait", q=env["self"].ref)
        return NONE

    def q_clear(I, env, a, k):
        if I.ctx.branch(z3.Not(I.truth(I.read_field(env["self"].ref, "waiter")))):
            I.raise_("AssertionError", "Not waiting")
        I.write_field(env["self"].ref, "waiter", VBool(False))
        emit(I, "queue.clear", q=env["self"].ref)
        return NONE
    C.ext("QueueI.wait", model=q_wait, trusted_reason="QueuedEvent typestate (C02 main set)")
    C.ext("QueueI.clear", model=q_clear, trusted_reason="QueuedEvent typestate (C02 main set)")
    C.cls("EventManager", fields={})

    def add_handler(I, env, a, k):
        key = VOpaque("HKey", z3.Const(I.fresh_name("relay_key"), usort("HKey")))
        reg(I)[str(key.t)] = True
        emit(I, "add_handler", event=a[0], handler=a[1], priority=a[2] if len(a) > 2 else NONE, kwargs=dict(k), key=key)
        return key

    def remove_by_key(I, env, a, k):
        key = I.force(a[0])
        reg(I)[str(key.t)] = False
        emit(I, "remove_by_key", key=key)
        return NONE

    def remove_handler(I, env, a, k):
        # removes EVERY handler whose callback is this method
        for kk in list(reg(I)):
            reg(I)[kk] = False
        emit(I, "remove_handler_all", method=a[0])
        return NONE
    C.ext("EventManager.add_handler", model=add_handler, trusted_reason="EventManager.add_handler (C01): fresh key")
    C.ext("EventManager.remove_handler_by_key", model=remove_by_key,
          trusted_reason="EventManager.remove_handler_by_key (C01): exactly the handler with this key")
    C.ext("EventManager.remove_handler", model=remove_handler,
          trusted_reason="EventManager.remove_handler (C01): every handler with this callback")
    C.ext("EventManager.post", model=lambda I, env, a, k: (emit(I, "post", event=a[0], kwargs=dict(k)), NONE)[1],
          trusted_reason="event posting (C01)")

    def instances(I, name):
        """relays in flight in the context at hand: queue -> handler key, all held and all listening"""
        ents = []
        for i in range(I.ctx.fork(NR + 1)):
            q = I.fresh(ObjS("QueueI"), "%s.queue%d" % (name, i))
            I.ctx.assume(I.truth(I.read_field(q.ref, "waiter")))
            key = VOpaque("HKey", z3.Const("%s.key%d" % (name, i), usort("HKey")))
            reg(I)[str(key.t)] = True
            ents.append((q, key))
        # one more relay in ANOTHER context (its instance dict is not the one handed out here)
        oq = I.fresh(ObjS("QueueI"), name + ".other_context_queue")
        I.ctx.assume(I.truth(I.read_field(oq.ref, "waiter")))
        okey = VOpaque("HKey", z3.Const(name + ".other_context_key", usort("HKey")))
        reg(I)[str(okey.t)] = True
        I.__dict__["c02_relays"] = ents
        I.__dict__["c02_other"] = (oq, okey)
        return I.new_dict(tuple(ents), name)
    C.cls("QueueRelayPlayer", file=QRP, bases=["ConfigPlayer"], fields=dict(
        machine=ObjS("MachineController", events=ObjS("EventManager")), instances_=Init(instances)))
    C.ext("QueueRelayPlayer._get_instance_dict", model=lambda I, env, a, k: I.read_field(env["self"].ref, "instances_"),
          trusted_reason="ConfigPlayer._get_instance_dict: the per-context dict of this player (C07 clean-up)")

    def reset_instances(I, env, a, k):
        d = I.force(I.read_field(env["self"].ref, "instances_"))
        I.set_container(d.ref, type(I.container(d.ref))(()))
        return NONE
    C.ext("QueueRelayPlayer._reset_instance_dict", model=reset_instances,
          trusted_reason="ConfigPlayer._reset_instance_dict: empties the per-context dict")

    def others_untouched(I, *done):
        """every relay other than the finished ones is still held and still listening (also the one of the other
        context); the finished ones are released exactly once and no longer listen"""
        done_refs = [I.force(d).ref for d in done]
        rel = list(I.__dict__.get("c02_relays", [])) + [I.__dict__["c02_other"]]
        clears = [e.args["q"] for e in events_named(I, "queue.clear")]
        cs = []
        for q, key in rel:
            live = reg(I).get(str(key.t), False)
            held = I.truth(I.read_field(q.ref, "waiter"))
            if q.ref in done_refs:
                cs.append(z3.And(z3.Not(held), z3.BoolVal(not live and clears.count(q.ref) == 1)))
            else:
                cs.append(z3.And(held, z3.BoolVal(bool(live) and clears.count(q.ref) == 0)))
        return VBool(z3.And(cs))
    C.helpers["only_these_released"] = others_untouched

    def all_of_context_released(I):
        rel = list(I.__dict__.get("c02_relays", []))
        return others_untouched(I, *[q for q, _ in rel])
    C.helpers["context_released"] = all_of_context_released
    C.trace_helpers = {"only_these_released", "context_released", "relay_started"}

    def pick_queue(I, name):
        rel = I.__dict__.get("c02_relays")
        if rel is None:
            I.force(I.read_field(I.frames[0].env["self"].ref, "instances_"))
            rel = I.__dict__["c02_relays"]
        if not rel:
            return I.__dict__["c02_other"][0]         # a queue that is not in this context's dict
        return rel[I.ctx.fork(len(rel))][0]
    C.fn("QueueRelayPlayer._callback", params=dict(queue=Init(pick_queue), context=Str, kwargs=Opaque("Kwargs")),
         ensures=[("QR1: the wait_for event of ONE relay releases exactly that relay's queue event and removes exactly "
                   "its handler; every other relay in flight - same or other context - stays held and keeps listening",
                   "only_these_released(queue) and queue not in self.instances_")],
         modifies=["self.instances_", "queue.waiter"], raises={"AssertionError": "queue not in self.instances_"},
         skip_frame=True, bounded="BOUNDED: at most %d relays in flight in the context, one in another context" % NR)
    C.fn("QueueRelayPlayer.clear_context", params=dict(context=Str),
         loops={0: LoopSpec(invariant=[], unroll=True)},
         ensures=[("QR2: clearing a context (its mode stopped) releases and forgets exactly the relays of that context; "
                   "relays of other contexts stay held and keep listening", "context_released() and "
                                                                            "len(self.instances_) == 0")],
         modifies=["self.instances_"], raises={}, skip_frame=True,
         bounded="BOUNDED: at most %d relays in flight in the context, one in another context" % NR)

    def relay_started(I, queue):
        q = I.force(queue).ref
        adds = events_named(I, "add_handler")
        waits = [e for e in events_named(I, "queue.wait") if e.args["q"] is q]
        if len(adds) != 1 or len(waits) != 1:
            return VBool(False)
        this = I.frames[0].env["self"].ref
        d = {}
        for kq, v in I.container(I.force(I.read_field(this, "instances_")).ref).entries:
            kr = I.force(kq).ref if isinstance(kq, Val) else kq
            d[id(kr)] = v
        key = adds[0].args["key"]
        ok = id(q) in d and I.force(d[id(q)]).t.eq(key.t)
        h = I.force(adds[0].args["handler"])
        kw = adds[0].args["kwargs"]
        ok2 = ok and h.tag == "fn" and h.name == "_callback" and "queue" in kw and I.force(kw["queue"]).ref is q
        return VBool(bool(ok2))
    C.helpers["relay_started"] = relay_started
    SET = Rec(priority=Int, wait_for=Str, post=Str, pass_args=Bool, args=Const(None))
    C.fn("QueueRelayPlayer.play", params=dict(
        settings=SET, context=Str, calling_context=Str, priority=Int,
        kwargs=Init(lambda I, n: I.new_dict((("queue", I.fresh(ObjS("QueueI"), n + "[queue]")),)))),
         requires=[("the queue event handed in is not held yet by this handler", "not kwargs['queue'].waiter")],
         lets={"q0": "kwargs['queue']"},
         ensures=[("QR0: a relay holds the queue event it was handed, listens for its wait_for event with its own handler "
                   "(which knows that queue) and remembers the handler's key under that queue", "relay_started(q0)")],
         modifies=["self.instances_", "kwargs.*", "kwargs['queue'].waiter"], raises={"AssertionError": True},
         skip_frame=True, bounded="BOUNDED: at most %d relays already in flight" % NR)
    return C


QEP = "mpf/config_players/queue_event_player.py"


def queue_event_player_set():
    """queue_event_player: the configured queue event is posted once with its args and a completion callback; when the
    event is done (the event manager calls the callback with the event's kwargs) events_when_finished is posted once"""
    C = ContractSet("C02e", "queue_event_player posts its queue event and its finished event")
    C.strings = False
    C.cls("ConfigPlayer", fields={})
    C.cls("EventManagerQ", fields={})

    def post_queue(I, env, a, k):
        k = dict(k)
        if len(a) >= 2:
            cb = a[1]
        elif "callback" in k:
            cb = k.pop("callback")
        else:
            I.raise_("TypeError", "post_queue() missing 1 required positional argument: 'callback'")
        emit(I, "post_queue", event=a[0] if a else k.pop("event"), callback=cb, kwargs=k)
        return NONE
    C.ext("EventManagerQ.post_queue", model=post_queue,
          trusted_reason="EventManager.post_queue(event, callback, **kwargs): the callback is a REQUIRED argument (C02 main "
                         "set: it is called once, with the event's kwargs, when the queue event is done)")
    C.ext("EventManagerQ.post", model=lambda I, env, a, k: (emit(I, "post", event=a[0], kwargs=dict(k)), NONE)[1],
          trusted_reason="EventManager.post (C01)")

    def args_init(I, name):
        if I.ctx.fork(2) == 0:
            return I.new_dict((), name)
        return I.new_dict((("x", VInt(z3.Int(name + "[x]"))),), name)
    C.cls("QueueEventPlayer", file=QEP, bases=["ConfigPlayer"], fields=dict(
        machine=ObjS("MachineController", events=ObjS("EventManagerQ"))))
    C.fn("QueueEventPlayer._callback", inline=True, no_inv=True)
    for demo_ in ("c02_mode_started_from_started_event_blocks.py", "c02_sibling_modes_share_queue.py"):
        C.finite_checks.append(common.native_demo_check(demo_, "a mode started from another mode's lifecycle event does not "
                                                               "share that mode's wait queue"))
    for demo_ in ("c02_queue_event_player_without_finished.py", "c02_queue_event_player_finished_with_args.py"):
        C.finite_checks.append(common.native_demo_check(demo_, "queue_event_player: the queue event is posted and "
                                                               "events_when_finished follows its completion"))

    def completes(I, env=None):
        """environment step: the queue event completes - the event manager calls the completion callback with the event's
        kwargs (events.py: callback(**kwargs))"""
        for e in events_named(I, "post_queue"):
            cb = I.force(e.args["callback"])
            if cb.tag == "fn":
                I.call(cb, [], dict(e.args["kwargs"]))

    def played(I, settings):
        st = I.force(settings)
        qe, fin, args = (I.getitem(st, VStr(k_)) for k_ in ("queue_event", "events_when_finished", "args"))
        pq = events_named(I, "post_queue")
        if len(pq) != 1:
            return VBool(False)
        argc = I.container(I.force(args).ref).entries
        same_kw = lambda kw: z3.And([z3.BoolVal(set(kw) == {k_ for k_, _ in argc})] +
                                    [I.eq(kw[k_], v_) for k_, v_ in argc if k_ in kw])
        posts = events_named(I, "post")
        finf = I.force(fin)
        cases = []
        for g_, alt in (finf.alts if isinstance(finf, VUnion) else ((z3.BoolVal(True), finf),)):
            if alt.tag == "none":
                cases.append(z3.And(g_, z3.BoolVal(len(posts) == 0)))
            else:
                ok = len(posts) == 1
                cases.append(z3.And(g_, z3.BoolVal(ok), *([I.eq(posts[0].args["event"], alt), same_kw(posts[0].args["kwargs"])]
                                                         if ok else [])))
        return VBool(z3.And(I.eq(pq[0].args["event"], qe), same_kw(pq[0].args["kwargs"]), z3.Or(cases)))
    C.helpers["played_and_finished"] = played
    C.trace_helpers = {"played_and_finished"}
    C.fn("QueueEventPlayer.play",
         params=dict(settings=Rec(queue_event=Str, events_when_finished=Opt(Str), args=Init(args_init)), context=Str,
                     calling_context=Str, priority=Int, kwargs=Opaque("Kwargs")),
         requires=[("an empty events_when_finished is None (config validation)",
                    "settings['events_when_finished'] is None or settings['events_when_finished'] != ''")],
         epilogue=completes,
         ensures=[("QP1: the configured queue event is posted exactly once with the configured args - with or without an "
                   "events_when_finished setting - and when it completes (the event manager calls the completion callback "
                   "with the event's kwargs) events_when_finished, if configured, is posted exactly once with those args; "
                   "nothing raises on the way", "played_and_finished(settings)")],
         modifies=[], raises={})
    return C


def build_extra():
    """relay / boolean dispatch and the priority order of the handler list are C01's contracts on _run_handlers and
    add_handler: they are verified here too (restricted copy of C01's set)"""
    from . import C01
    c01 = C01.build()
    c01.pid = "C02b"
    c01.only_verify = ["EventManager._run_handlers", "EventManager.add_handler"]
    # queue events held by other parts of the core: the ball_ending event is held until every game mode has stopped
    # (C11's ModeController contracts), queue_relay_player holds and releases one queue event per relay
    from . import C11
    # the priority suffix of an event string ('name.N', negative N included) gets its meaning in one parser (C01's set)
    return [c01, C11.mode_controller_set("C02m"), relay_player_set(), C01.parse_set("C02p"), queue_event_player_set()]
