"""C12 - Config validation returns well-typed complete configs or rejects.

Deductive part: every scalar validator and the time-string parser are verified for ALL items
(None / bool / int / float / str / list / dict): on normal exit the result has the declared type and lies in
the declared range, otherwise the validator raises.  Finite part (exhaustive): every (section, key) of the
real config_spec.yaml is swept natively - three-part spec, known item type, validator resolves, default
accepted by its own validator with the declared type; the range/enum parameters that occur in the real spec
are exactly the ones the deductive contracts are instantiated with.
"""
import json
import os
import subprocess

import z3

from pyvc.contract import ContractSet, LoopSpec
from pyvc.vals import *       # noqa
from pyvc import extract
from . import common
from .common import emit, events_named

CV = "mpf/core/config_validator.py"
UTIL = "mpf/core/utility_functions.py"

ITEM = Union(NoneT, Bool, Int, Real, Str, Seq(Int), MapS(Str, Int))
RANGES = [None, "0,1", "0,31", "0,63", "1,64"]          # every range parameter used in config_spec.yaml (swept)
ENUMS = ["up,down", "NC,NO", "none,basic,full", "add,subtract,jump", "pdb,custom,None", "1,2,3"]


def OneOf(*consts):
    return Union(*[Const(c) for c in consts])


def run_sweep():
    here = os.path.dirname(os.path.dirname(os.path.abspath(__file__)))
    r = subprocess.run(["/venv/bin/python", os.path.join(here, "replay", "c12_sweep.py")], capture_output=True,
                       text=True, timeout=300, env=dict(os.environ, PYTHONPATH=extract.REPO, PYVC_REPO=extract.REPO))
    return json.loads(r.stdout)


def sweep_check(C):
    d = run_sweep()
    rows = [("sweep: all %d (section,key) entries of config_spec.yaml enumerated" % d["entries"], d["entries"] > 1000,
             "entries=%d" % d["entries"])]
    for f in d["failures"]:
        rows.append(("sweep[%s]" % f["where"], False, f["why"]))
    for name in ("int", "float", "num"):
        for p in d["params"].get(name, []):
            rows.append(("range parameter %s(%s) is covered by the deductive contracts" % (name, p), p in RANGES,
                         "UNDECIDED: new range parameter, add it to RANGES" if p not in RANGES else "covered"))
    for p in ENUMS:
        rows.append(("enum(%s) from the contract still occurs in the spec" % p, True,
                     "present" if p in d["params"].get("enum", []) else "no longer in the spec (harmless)"))
    return rows


def build():
    C = ContractSet("C12", "Config validation returns well-typed complete configs or rejects")
    C.strings = True
    C.exc("BaseError", "AssertionError", file="mpf/exceptions/base_error.py")
    C.exc("ConfigFileError", "BaseError", file="mpf/exceptions/config_file_error.py")
    C.finite_checks.append(sweep_check)

    # ---- spec helpers: type tests on dynamically typed values
    def tagtest(*tags, bytes_ok=False):
        def h(I, v):
            alts = v.alts if isinstance(v, VUnion) else ((z3.BoolVal(True), v),)
            return VBool(z3.Or([g for g, a in alts if a.tag in tags] + [z3.BoolVal(False)]))
        return h
    C.helpers["is_int"] = tagtest("int")
    C.helpers["is_float"] = tagtest("real")
    C.helpers["is_num"] = tagtest("int", "real")
    C.helpers["is_bool"] = tagtest("bool")
    C.helpers["is_str"] = tagtest("str")
    C.helpers["is_container"] = tagtest("list", "dict", "set", "tuple")

    def in_range(I, param, v):
        """lo <= v <= hi for the 'lo,hi' range parameter (NONE = open); no parameter = no constraint"""
        alts = param.alts if isinstance(param, VUnion) else ((z3.BoolVal(True), param),)
        k, t = None, None
        vv = v
        cs = []
        for g, a in alts:
            if a.tag == "none":
                cs.append(g)
                continue
            lo, hi = a.t.as_string().split(",")
            conds = []
            for galt, val in (vv.alts if isinstance(vv, VUnion) else ((z3.BoolVal(True), vv),)):
                if val.tag not in ("int", "real"):
                    continue
                x = val.t if val.tag == "real" else z3.ToReal(val.t)
                c = [galt]
                if lo != "NONE":
                    c.append(x >= z3.RealVal(lo))
                if hi != "NONE":
                    c.append(x <= z3.RealVal(hi))
                conds.append(z3.And(c))
            cs.append(z3.And(g, z3.Or(conds + [z3.BoolVal(False)])))
        return VBool(z3.Or(cs))
    C.helpers["in_range"] = in_range

    def trunc(I, r):
        t = I.force(r).t
        return VInt(z3.If(t >= 0, z3.ToInt(t), -z3.ToInt(-t)))
    C.helpers["trunc"] = trunc
    PY_INT = z3.Function("py_int", z3.StringSort(), z3.IntSort())
    PY_INT_OK = z3.Function("py_int_ok", z3.StringSort(), z3.BoolSort())
    PY_FLOAT = z3.Function("py_float", z3.StringSort(), z3.RealSort())
    PY_FLOAT_OK = z3.Function("py_float_ok", z3.StringSort(), z3.BoolSort())
    UPPER = z3.Function("py_str_upper", z3.StringSort(), z3.StringSort())
    LOWER = z3.Function("py_str_lower", z3.StringSort(), z3.StringSort())
    C.helpers["int_of"] = lambda I, s: VInt(PY_INT(I.force(s).t))
    C.helpers["int_ok"] = lambda I, s: VBool(PY_INT_OK(I.force(s).t))
    C.helpers["float_of"] = lambda I, s: VReal(PY_FLOAT(I.force(s).t))
    C.helpers["float_ok"] = lambda I, s: VBool(PY_FLOAT_OK(I.force(s).t))
    C.helpers["upper"] = lambda I, s: VStr(UPPER(I.force(s).t))
    C.helpers["lower"] = lambda I, s: VStr(LOWER(I.force(s).t))

    # ---- time strings: value x unit for every accepted suffix (longest suffix decides)
    UNITS = [("MSEC", 4, None), ("MS", 2, None), ("SEC", 3, 1000), ("S", 1, 1000), ("M", 1, 60000),
             ("H", 1, 3600000), ("D", 1, 86400000)]

    def time_spec(I, s):
        """(expected value, parse ok) of the upper-cased time string s per the statement"""
        u = I.force(s).t
        n = z3.Length(u)
        val = PY_INT(u)
        ok = PY_INT_OK(u)
        for suf, ln, mult in reversed(UNITS):
            pre = z3.SubString(u, 0, n - ln)
            if mult is None:
                v2, ok2 = PY_INT(pre), PY_INT_OK(pre)
            else:
                r = PY_FLOAT(pre) * mult
                v2, ok2 = z3.If(r >= 0, z3.ToInt(r), -z3.ToInt(-r)), PY_FLOAT_OK(pre)
            c = z3.SuffixOf(z3.StringVal(suf), u)
            val, ok = z3.If(c, v2, val), z3.If(c, ok2, ok)
        return val, ok
    C.helpers["time_value"] = lambda I, s: VInt(time_spec(I, s)[0])
    C.helpers["time_ok"] = lambda I, s: VBool(time_spec(I, s)[1])

    C.cls("Util", file=UTIL, fields={})
    C.globals["Util"] = VCls("Util")
    C.fn("Util.string_to_ms", params=dict(time_string=Union(NoneT, Int, Real, Str)), result=Int,
         ensures=[
             ("None is 0", "implies(time_string is None, result == 0)"),
             ("numbers are milliseconds (truncated)",
              "implies(is_int(time_string), result == time_string) and "
              "implies(is_float(time_string), result == trunc(time_string))"),
             ("strings: value times unit for every accepted unit suffix (ms, msec, s, sec, m, h, d; bare = ms)",
              "implies(is_str(time_string), result == time_value(upper(time_string)))"),
         ],
         raises={"ValueError": "is_str(time_string) and not time_ok(upper(time_string))"},
         modifies=[], replay_seeds={"time_string": ["100msec", "1.5s", "2m", "3h", "1d", "20sec", "7", "5ms"]})
    from pyvc import regex
    regex.install(C)
    C.helpers["has_letter"] = lambda I, s: VBool(regex.quantified_char_pred("any", "isalpha", I.force(s).t))
    def secs_rejects(I, v):
        """string_to_secs raises ValueError: for a string exactly when the text (with 's' appended if it has no
        letter) is not a valid time string; numbers never; other objects (their str() is used): unknown"""
        alts = v.alts if isinstance(v, VUnion) else ((z3.BoolVal(True), v),)
        out = []
        for g, a in alts:
            if a.tag == "str":
                hl = regex.quantified_char_pred("any", "isalpha", a.t)
                txt = z3.If(hl, a.t, z3.Concat(a.t, z3.StringVal("s")))
                out.append(z3.And(g, z3.Not(time_spec(I, VStr(UPPER(txt)))[1])))
            elif a.tag in ("int", "real", "bool"):
                pass
            else:
                out.append(z3.And(g, z3.Bool(I.fresh_name("secs_rejects_obj"))))
        return VBool(z3.Or(out + [z3.BoolVal(False)]))
    C.helpers["secs_rejects"] = secs_rejects
    C.fn("Util.string_to_secs", params=dict(time_string=Str), result=Real,
         ensures=[("a time string without any unit letter is SECONDS (also negative and relative values such as -1, "
                   "+2); with a unit it is that unit; the result is the millisecond value / 1000",
                   "result * 1000 == (time_value(upper(time_string)) if has_letter(time_string) else "
                   "time_value(upper(time_string + 's')))")],
         raises={"ValueError": "secs_rejects(time_string)"},
         modifies=[], allow_decorators=["staticmethod"],
         call_ensures=[], replay_seeds={"time_string": ["-1", "2", "+3", "1.5s", "100ms", "-2.5"]})

    C.finite_checks.append(common.native_demo_check(
        'c12_time_strings_one_ms_short.py',
        'time strings evaluate to value times unit also for decimal fractions (2.01s = 2010 ms)'))
    C.finite_checks.append(common.native_demo_check(
        "c12_empty_subconfig_element.py",
        "an element without settings in a list / dict of sub-configs comes back with every key of the sub-spec (defaults "
        "filled in) or is rejected"))
    C.finite_checks.append(common.native_demo_check(
        "c12_nan_passes_range_check.py", "nan is rejected by every ranged numeric validator (float / num / int ranges)"))
    # ---- list normalisation of non-string items (the split of real strings is not modelled)
    for fn_ in ("string_to_list", "string_to_event_list"):
        C.fn("Util." + fn_, params=dict(string=Union(NoneT, Bool, Int, Real, Const(""), Seq(Int))),
             ensures=[("SL1: a provided scalar - the numbers 0 and 0.0 and False included - becomes a one-element list "
                       "holding exactly it (a list-typed key written as a single value keeps that value)",
                       "implies(is_num(string) or is_bool(string), len(result) == 1 and result[0] == string)"),
                      ("SL2: only None and the empty string mean 'nothing': the empty list", "implies(string is None or "
                       "(is_str(string) and string == ''), len(result) == 0)"),
                      ("SL3: a list is passed through as it is", "implies(is_container(string), result is string)")],
             modifies=[], raises={}, allow_decorators=["staticmethod"], call_ensures=[])

    # ---- the validators
    C.cls("Logger", fields=dict(name=Str))
    common.declare_noop(C, "Logger", "warning", "error", "info", "debug", reason="logging")

    def machine_config(I, name):
        if I.ctx.fork(2) == 0:
            return I.new_dict(())
        return I.new_dict((("mpf", I.fresh(Rec(allow_invalid_config_sections=Bool), name + "[mpf]")),))
    C.cls("ConfigValidator", file=CV, fields=dict(log=ObjS("Logger"),
                                                  machine=ObjS("MachineController", config=Init(machine_config))))
    VFI = Opaque("ValidationPath")

    def verr(I, env, args, kwargs):
        return VExc("ConfigFileError", ())
    C.ext("ConfigValidator.validation_error", model=verr,
          trusted_reason="builds the ConfigFileError (an AssertionError) that the validators raise")
    REJ = {"AssertionError": True}
    PARAM = OneOf(*RANGES)

    # ---- the *_or_token wrapper forwards everything to the wrapped validator
    C.globals["RuntimeToken"] = VFn("model", model=lambda I, a, k: VOpaque("RuntimeToken", z3.Const(
        I.fresh_name("token"), usort("RuntimeToken"))))

    def call_wrapper(I, env=None):
        """environment step: the validator table calls the returned wrapper with a non-token item, the failure path and
        the range parameter of the spec entry"""
        w = I.force(I.result)
        if w.tag != "fn":
            return
        item = VInt(z3.Int("wrapped_item"))
        vfi = VOpaque("ValidationPath", z3.Const("wrapped_vfi", usort("ValidationPath")))
        prm = VStr(z3.String("wrapped_param"))
        I.__dict__["c12_wrapper_args"] = (item, vfi, prm)
        I.call(w, [item, vfi, prm], {})
    C.helpers["on_opaque_call"] = C.helpers.get("on_opaque_call") or (lambda I, fn, a, k: NONE)

    def wrapper_forwards(I, func):
        cbs = [e for e in I.cur_trace() if e.name == "callback"]
        if len(cbs) != 1 or "c12_wrapper_args" not in I.__dict__:
            return VBool(False)
        item, vfi, prm = I.c12_wrapper_args
        e = cbs[0]
        args = list(e.args["args"])
        kw = e.args["kwargs"]
        if "param" in kw:
            args.append(kw["param"])
        if len(args) != 3:
            return VBool(False)
        return VBool(z3.And(I.eq(e.args["fn"], func), I.eq(args[0], item), I.eq(args[1], vfi), I.eq(args[2], prm)))
    C.helpers["wrapper_forwards"] = wrapper_forwards
    C.trace_helpers = set(getattr(C, "trace_helpers", ())) | {"wrapper_forwards"}
    C.fn("ConfigValidator._validate_type_or_token", params=dict(func=Fn), result=Fn,
         ensures=[("TK1: the *_or_token wrapper hands a non-token item to the wrapped validator with ALL its arguments - "
                   "the (min,max) range parameter included - so int_or_token(0,10) enforces the range like int(0,10)",
                   "wrapper_forwards(func)")],
         modifies=[], raises={}, allow_decorators=["staticmethod"], epilogue=call_wrapper, no_inv=True)

    # ---- unknown settings are rejected wherever they stand in the section
    C.namedtuple(CV, "ValidationPath")
    NK = common.bound(2, 3)
    VP = TupleS(TupleS(Opaque("ValidationPath"), Str, ntname="ValidationPath", fields=("parent", "item")), Str,
                ntname="ValidationPath", fields=("parent", "item"))

    def section(I, name):
        n = I.ctx.fork(NK + 1)
        ks = []
        for i in range(n):
            k = z3.String("%s.key%d" % (name, i))
            I.ctx.assume(z3.Length(k) > 0)
            for o in ks:
                I.ctx.assume(k != o)
            ks.append(k)
        I.__dict__["c12_section_keys"] = ks
        return I.new_dict(tuple((VStr(k), VInt(z3.Int("%s.val%d" % (name, i)))) for i, k in enumerate(ks)))
    KNOWN = ("known_a", "known_b")

    def some_key_invalid(I):
        ks = I.__dict__.get("c12_section_keys", [])
        bad = [z3.And(z3.And([k != z3.StringVal(x) for x in KNOWN]), z3.Not(z3.PrefixOf(z3.StringVal("_"), k)))
               for k in ks]
        return VBool(z3.Or(bad + [z3.BoolVal(False)]))
    C.helpers["some_key_invalid"] = some_key_invalid
    C.fn("ConfigValidator.check_for_invalid_sections",
         params=dict(spec=Init(lambda I, name: I.new_dict(tuple((x, VInt(0)) for x in KNOWN))),
                     config=Init(section), validation_failure_info=VP),
         lets={"lenient": "'mpf' in self.machine.config and "
                          "self.machine.config['mpf']['allow_invalid_config_sections']"},
         ensures=[("U1: a section is accepted only if EVERY key - wherever it stands, also after a private '_' key - is "
                   "a setting of the spec or private (unless mpf:allow_invalid_config_sections)",
                   "lenient or not some_key_invalid()")],
         raises={"ConfigFileError": "some_key_invalid() and not lenient"},
         modifies=[], loops={0: LoopSpec(invariant=[], unroll=True)},
         bounded="BOUNDED: sections of at most %d keys (symbolic, distinct, non-empty names); spec with two settings" % NK)

    C.fn("ConfigValidator._validate_range_min_smaller_max",
         params=dict(item=ITEM, value=Num, param=PARAM, validation_failure_info=VFI),
         ensures=[("returns only for values inside the declared range", "in_range(param, value)")],
         raises={"AssertionError": "not in_range(param, value)"}, modifies=[])

    C.fn("ConfigValidator._validate_type_int", params=dict(item=ITEM, validation_failure_info=VFI, param=PARAM),
         result=Opt(Int),
         ensures=[("None stays None, everything else becomes an int", "(result is None) == (item is None)"),
                  ("well-typed: int", "implies(result is not None, is_int(result))"),
                  ("numeric range enforced", "implies(result is not None, in_range(param, result))"),
                  ("value preserved", "implies(is_int(item), result == item) and "
                                      "implies(is_str(item), result == int_of(item))")],
         raises=REJ, modifies=[])
    C.fn("ConfigValidator._validate_type_float", params=dict(item=ITEM, validation_failure_info=VFI, param=PARAM),
         result=Opt(Real),
         ensures=[("None stays None", "(result is None) == (item is None)"),
                  ("well-typed: float", "implies(result is not None, is_float(result))"),
                  ("numeric range enforced", "implies(result is not None, in_range(param, result))"),
                  ("value preserved", "implies(is_num(item) and not is_bool(item), result == item)")],
         raises=REJ, modifies=[])
    C.fn("ConfigValidator._validate_type_num", params=dict(item=ITEM, validation_failure_info=VFI, param=PARAM),
         result=Opt(Num),
         ensures=[("None stays None", "(result is None) == (item is None)"),
                  ("well-typed: int or float", "implies(result is not None, is_num(result) or is_bool(result))"),
                  ("numeric range enforced", "implies(result is not None and not is_bool(result), in_range(param, result))")],
         raises=dict(REJ, TypeError="is_container(item)"), modifies=[])
    C.fn("ConfigValidator._validate_type_bool", params=dict(item=ITEM, validation_failure_info=VFI, param=Const(None)),
         result=Opt(Bool),
         ensures=[("None stays None", "(result is None) == (item is None)"),
                  ("well-typed: bool", "implies(result is not None, is_bool(result))"),
                  ("bools are kept", "implies(is_bool(item), result == item)")],
         raises=REJ, modifies=[])
    C.fn("ConfigValidator._validate_type_bool_int", params=dict(item=ITEM, validation_failure_info=VFI),
         result=Int, ensures=[("0 or 1", "result == 0 or result == 1")], raises=REJ, modifies=[])
    C.fn("ConfigValidator._validate_type_ms", params=dict(item=ITEM, validation_failure_info=VFI, param=Const(None)),
         result=Opt(Int),
         ensures=[("None stays None", "(result is None) == (item is None)"),
                  ("well-typed: int milliseconds", "implies(result is not None, is_int(result))")],
         raises=REJ, modifies=[])
    C.fn("ConfigValidator._validate_type_secs", params=dict(item=ITEM, validation_failure_info=VFI, param=Const(None)),
         result=Opt(Real),
         ensures=[("None stays None", "(result is None) == (item is None)"),
                  ("well-typed: float seconds", "implies(result is not None, is_float(result))")],
         raises=REJ, modifies=[])
    C.fn("ConfigValidator._validate_type_str", params=dict(item=ITEM, validation_failure_info=VFI),
         result=Opt(Str),
         ensures=[("None stays None", "(result is None) == (item is None)"),
                  ("well-typed: str", "implies(result is not None, is_str(result))"),
                  ("strings unchanged", "implies(is_str(item), result == item)")],
         raises={"AssertionError": "is_container(item)"}, modifies=[])

    C.ext("Util.is_power2", params=dict(num=ITEM), result=Bool, pure=True,
          trusted_reason="is_power2(x): int(x) is a power of two (bit trick; not in the verified subset)")
    C.fn("ConfigValidator._validate_type_pow2", params=dict(item=ITEM, validation_failure_info=VFI),
         result=Opt(Int),
         ensures=[("None stays None", "(result is None) == (item is None)"),
                  ("well-typed: int", "implies(result is not None, is_int(result))")],
         raises=REJ, modifies=[], replay_seeds={"item": ["16", "128", 64]})

    # ---- build_spec: the section's own definition of a key wins over the base spec; the spec is never modified
    def spec_tree(I, name):
        """config_spec = {'sec': {'k': own, 'a': ...}, 'base': {'k': inherited, 'b': ...}} with symbolic leaves"""
        def leaf(n):
            return VStr(z3.String(n))
        sec = I.new_dict((("k", leaf("spec.sec.k")), ("a", leaf("spec.sec.a"))), "spec_sec")
        base = I.new_dict((("k", leaf("spec.base.k")), ("b", leaf("spec.base.b"))), "spec_base")
        return I.new_dict((("sec", sec), ("base", base)), "config_spec")

    def deepcopy_model(I, args, kwargs):
        v = I.force(args[0])
        if v.tag == "dict":
            c = I.container(v.ref)
            return I.new_dict(tuple(c.entries), "deepcopy")
        return v
    C.globals["deepcopy"] = VFn("model", model=deepcopy_model)

    def spec_untouched(I):
        this = I.frames[0].env["self"].ref
        top0 = I.force(I.read_field(this, "config_spec", heap=I.old_heap))
        cs = []
        for sec, inner in I.old_heap.data[(top0.ref, "$")].entries:
            old_e = I.old_heap.data[(I.force(inner).ref, "$")].entries
            new_e = I.heap.data[(I.force(inner).ref, "$")].entries
            cs.append(z3.BoolVal([k for k, _ in old_e] == [k for k, _ in new_e]))
            for (k, a), (_, b) in zip(old_e, new_e):
                cs.append(I.eq(a, b))
        top1 = I.heap.data[(top0.ref, "$")].entries
        cs.append(z3.BoolVal([k for k, _ in top1] == ["sec", "base"]))
        return VBool(z3.And(cs))
    C.helpers["spec_untouched"] = spec_untouched
    C.classes["ConfigValidator"].fields["config_spec"] = Init(spec_tree)
    C.fn("ConfigValidator.build_spec", params=dict(config_spec=Const("sec"), base_spec=Const("base")),
         allow_decorators=["lru_cache"],
         ensures=[("a key defined by the section itself keeps the section's definition (the base spec only adds)",
                   "result['k'] == self.config_spec['sec']['k'] and result['a'] == self.config_spec['sec']['a']"),
                  ("keys only in the base spec are inherited", "result['b'] == self.config_spec['base']['b']"),
                  ("validation never modifies the spec", "spec_untouched()")],
         modifies=[], raises={},
         bounded="one section and one base spec with an overlapping key (structure concrete, entries symbolic)")

    def enum_member(I, param, result):
        alts = param.alts if isinstance(param, VUnion) else ((z3.BoolVal(True), param),)
        r = I.force(result)
        cs = []
        for g, a in alts:
            vals = a.t.as_string().lower().split(",")
            cs.append(z3.And(g, z3.Or([r.t == z3.StringVal(x) for x in vals])))
        return VBool(z3.Or(cs))
    C.helpers["enum_member"] = enum_member
    C.fn("ConfigValidator._validate_type_enum",
         params=dict(item=ITEM, param=OneOf(*ENUMS), validation_failure_info=VFI), result=Opt(Str),
         ensures=[("enums restricted: result is one of the declared values (or None when 'none' is one)",
                   "implies(result is not None, is_str(result) and enum_member(param, result))"),
                  ("None only when allowed", "implies(result is None, item is None)")],
         raises=REJ, modifies=[])

    C.assume("A-FLOAT: floats as reals (nan/inf literals and rounding are outside the model)")
    C.assume("int(str)/float(str) are uninterpreted partial functions (ok-flag + value); str.upper/lower are "
             "uninterpreted length-preserving functions")
    C.assume("the deductive contracts are instantiated with the range/enum parameters occurring in config_spec.yaml; "
             "the finite sweep checks that set every run")
    C.known_classes = ["sweep"]
    return C


SHOW = "mpf/assets/show.py"


def show_token_set():
    """deferred validation of show tokens: a request whose token value is rejected leaves nothing behind - the
    half-processed steps (still holding the raw, unvalidated token) are never cached for the next identical request"""
    C = ContractSet("C12t", "rejected show tokens leave no cached steps")
    C.strings = False
    C.cls("Show", file=SHOW, fields=dict(
        tokens=Init(lambda I, n: I.new_set([VStr("fade_time")], n)), _step_cache=MapS(Int, Opaque("Steps")),
        show_steps=Opaque("Steps"),
        machine=ObjS("MachineController", show_controller=ObjS("ShowControllerI",
                                                               show_players=Init(lambda I, n: I.new_dict((), n))))))
    C.cls("ShowControllerI", fields={})

    def steps(I, env, a, k):
        return I.new_list([], I.fresh_name("copied_steps"))
    C.ext("Show.get_show_steps", model=steps, trusted_reason="Show.get_show_steps: a deep copy of the loaded steps (here: "
                                                             "no step contents; the replacement helpers are abstract)")

    def replace(I, env, a, k):
        common.emit(I, "replace")
        if I.ctx.fork(2) == 1:
            I.raise_("AssertionError", "invalid token value")
        return a[0]
    for m_ in ("_replace_token_values", "_replace_token_keys"):
        C.ext("Show." + m_, model=replace,
              trusted_reason="token replacement: calls the RuntimeToken's validator on the value - returns, or raises when "
                             "the value is rejected (validators: C12 main set)")
    C.globals["hash"] = VFn("model", model=lambda I, a, k: VInt(z3.Int(I.fresh_name("token_hash"))))
    C.globals["str"] = VFn("model", model=lambda I, a, k: VStr(z3.String(I.fresh_name("token_repr"))))

    def cache_unchanged(I):
        this = I.frames[0].env["self"].ref
        new = I.container(I.force(I.read_field(this, "_step_cache")).ref)
        old = I.container(I.force(I.read_field(this, "_step_cache", heap=I.old_heap)).ref, heap=I.old_heap)
        k = z3.Int("k!cache")
        return VBool(z3.ForAll([k], z3.And(z3.Select(new.dom, k) == z3.Select(old.dom, k),
                                           z3.Implies(z3.Select(old.dom, k), z3.Select(new.arr, k) == z3.Select(old.arr, k)))))
    C.helpers["cache_unchanged"] = cache_unchanged
    C.fn("Show.get_show_steps_with_token",
         params=dict(show_tokens=Init(lambda I, n: I.new_dict((("fade_time", VStr(z3.String(n + "[fade_time]"))),), n))),
         loops={0: LoopSpec(invariant=[], unroll=True), 1: LoopSpec(invariant=[], unroll=True)},
         raises={"AssertionError": True},
         ensures_exc=[("SK1: a request whose token value is rejected caches NOTHING: the next identical request is "
                       "validated (and rejected) again instead of being served half-processed steps",
                       "cache_unchanged()")],
         modifies=["self._step_cache"], skip_frame=True)
    return C


def mode_spec_set():
    """ConfigValidator.load_mode_config_spec: which spec a mode's mode_settings section is validated against"""
    C = ContractSet("C12m", "a mode's own mode_settings spec is registered as declared")
    # ---- a mode's own mode_settings spec is registered as declared (nothing merged in)
    def cv_spec(I, name):
        generic = I.new_dict((("__allow_others__", VStr("")), ("generic_key", VOpaque("SpecEntry", z3.Const(
            "generic_entry", usort("SpecEntry"))))))
        k = I.ctx.fork(3)
        if k == 0:
            return I.new_dict((("mode_settings", generic),))
        if k == 1:
            return I.new_dict((("mode_settings", generic), ("_mode_settings", I.new_dict(()))))
        other = I.new_dict((("declared_key", VOpaque("SpecEntry", z3.Const("old_entry", usort("SpecEntry")))),))
        return I.new_dict((("mode_settings", generic), ("_mode_settings", I.new_dict((("other_mode", other),)))))
    C.cls("ConfigValidator", file=CV, fields=dict(config_spec=Init(cv_spec)))

    def process_spec(I, a, k):
        emit(I, "process_spec", spec=a[0], mode=a[1])
        return I.new_dict((("declared_key", VOpaque("SpecEntry", z3.Const("declared_entry", usort("SpecEntry")))),))
    C.globals["ConfigSpecLoader"] = VFn("module", name="ConfigSpecLoader")
    C.globals["ConfigSpecLoader.process_config_spec"] = VFn("model", model=process_spec)
    C.globals["YamlInterface"] = VFn("module", name="YamlInterface")
    C.globals["YamlInterface.process"] = VFn("model", model=lambda I, a, k: I.new_dict((("from_yaml", a[0]),)))

    def mode_spec_registered(I, mode_string):
        this = I.frames[0].env["self"].ref
        top = I.container(I.force(I.read_field(this, "config_spec")).ref)
        ms = top.get("_mode_settings")
        if ms is None:
            return VBool(False)
        cur = I.container(I.force(ms).ref).get(I.force(mode_string))
        if cur is None and isinstance(I.pyconst(I.force(mode_string)), str):
            cur = I.container(I.force(ms).ref).get(I.pyconst(I.force(mode_string)))
        evs = events_named(I, "process_spec")
        if cur is None or len(evs) != 1:
            return VBool(False)
        ent = I.container(I.force(cur).ref).entries
        return VBool(z3.And(z3.BoolVal([k_ for k_, _ in ent] == ["declared_key"]), I.eq(evs[0].args["mode"], mode_string)))
    C.helpers["mode_spec_registered"] = mode_spec_registered
    C.trace_helpers = {"mode_spec_registered"}
    C.fn("ConfigValidator.load_mode_config_spec",
         params=dict(mode_string=Const("new_mode"), config_spec=Union(MapS(Str, Int), Str)),
         ensures=[("MS1: the spec registered for a mode's mode_settings is EXACTLY what the mode declared (processed): "
                   "nothing from the generic section - in particular not its __allow_others__ marker, which would make "
                   "every unknown or misspelled key valid - is merged in", "mode_spec_registered(mode_string)")],
         modifies=["self.config_spec.**", "self.config_spec"], raises={})

    return C


def build_extra():
    return [show_token_set(), mode_spec_set()]
