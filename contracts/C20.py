"""C20 - Credits: balance follows the pricing table and stays within bounds.

State: U = machine variable 'credit_units' (ghost field on the machine-variable store, which is an
assumed component), P = credit_units_per_game, M = max_credits * P, tier position, pricing table.
"""
import z3

from pyvc.contract import ContractSet, LoopSpec
from pyvc.vals import *       # noqa
from pyvc.interp import MISSING
from pyvc.ctx import Unsupported
from . import common
from .common import DelayMgr, emit, events_named

CREDITS = "mpf/modes/credits/code/credits.py"

TEMPLATE_INT = ObjS("Template", value=Int)
TEMPLATE_NUM = ObjS("Template", value=Num)


def build():
    C = ContractSet("C20", "Credits: balance follows the pricing table and stays within bounds")
    common.declare_delay_client(C)
    common.declare_events(C)
    C.cls("Logger", fields={})
    C.ext("Logger.info", model=common.noop, trusted_reason="logging")
    # the composition of the game-side contracts (C06 P1-P4, re-checked as C20b) with the credits handlers, natively: one
    # credit and two start presses in the same instant admit ONE player (finite check, the history fixed in c3a53ba)
    C.finite_checks.append(common.native_demo_check(
        "c20_decimal_prices_truncated.py", "a game costs a full game price also for decimal currency values (price 0.60 with 0.10 / 0.50 coins; a 0.30 coin)"))
    C.finite_checks.append(common.native_script_check(
        "c20_tiers.py", "the pricing table built by _calculate_pricing_tiers (an assumed input of the contracts on "
                        "_add_credit_units) gives each tier, paid in full, exactly its credits and never lowers the balance; "
                        "522 tier configurations"))
    C.finite_checks.append(common.native_demo_check(
        "c20_two_adds_one_credit.py",
        "two player-add requests posted back to back are judged one after the other: one credit pays for one player"))
    C.finite_checks.append(common.native_demo_check(
        "c20_double_enable_credit_play.py", "a redundant enable_credit_play leaves ONE handler per coin switch"))
    C.finite_checks.append(common.native_demo_check(
        "c20_boot_free_play_then_coin.py", "a machine booted in free play has a price once credit play is enabled"))

    # ---- assumed components -------------------------------------------------------------
    C.cls("Template", fields={})

    def tmpl_evaluate(I, env, args, kwargs):
        return I.read_field(env["self"].ref, "value")
    C.ext("Template.evaluate", model=tmpl_evaluate,
          trusted_reason="a validated template_int/template_float evaluates to a number of its type; constant "
                         "during a call (A-CONFIG)")

    C.cls("MachineVariables", fields=dict(credit_units=Union(NoneT, Int)))

    def mv_get(I, env, args, kwargs):
        name = I.pyconst(I.force(args[0] if args else kwargs["name"]))
        if name == "credit_units":
            return I.read_field(env["self"].ref, "credit_units")
        return VOpaque("Any", z3.Const(I.fresh_name("mvar_" + str(name)), usort("Any")))

    def mv_set(I, env, args, kwargs):
        name_v = args[0] if args else kwargs["name"]
        value = args[1] if len(args) > 1 else kwargs["value"]
        name = I.pyconst(I.force(name_v))
        if name is MISSING:
            emit(I, "set_machine_var", name=name_v, value=value)
            return NONE
        if name == "credit_units":
            I.write_field(env["self"].ref, "credit_units", value)
        emit(I, "set_machine_var", name=name, value=value)
        return NONE
    R = ("client view of the machine-variable store (mpf/core/machine_vars.py): get returns the value last set, None for "
         "an unknown variable - the contracts of set_machine_var ('the value is stored') and get_machine_var proved on "
         "the real code under C15 and re-checked in this run as C20m; persistence is C15")
    C.ext("MachineVariables.get_machine_var", model=mv_get, trusted_reason=R)
    C.ext("MachineVariables.set_machine_var", model=mv_set, trusted_reason=R)
    C.ext("MachineVariables.configure_machine_var", model=common.noop, trusted_reason=R)
    C.ext("MachineVariables.remove_machine_var", model=common.noop, trusted_reason=R)

    C.cls("SettingsController", fields=dict(free_play=Bool))

    def get_setting(I, env, args, kwargs):
        name = I.pyconst(I.force(args[0]))
        if name == "free_play":
            return I.read_field(env["self"].ref, "free_play")
        raise Unsupported("setting %r" % name)

    def set_setting(I, env, args, kwargs):
        name = I.pyconst(I.force(args[0]))
        if name == "free_play":
            I.write_field(env["self"].ref, "free_play", args[1])
            return NONE
        raise Unsupported("setting %r" % name)
    C.ext("SettingsController.get_setting_value", model=get_setting, trusted_reason="settings store: get returns last set")
    C.ext("SettingsController.set_setting_value", model=set_setting, trusted_reason="settings store: get returns last set")

    C.cls("DataManager", fields={})

    def save_all(I, env, args, kwargs):
        emit(I, "save_all", data=kwargs.get("data", args[0] if args else NONE))
        return NONE
    C.ext("DataManager.save_all", model=save_all,
          trusted_reason="client view of DataManager.save_all: the dict handed over becomes the data the writer thread "
                         "saves (C15's contracts on save_all / _writing_thread, re-checked in this run as C20m)")
    common.declare_noop(C, "DigitalOutput", "enable", "disable", reason="coin inhibit output; not credit state")
    common.declare_noop(C, "SwitchController", "remove_switch_handler_by_keys",
                        reason="switch handler registry (C03); not credit state")

    # ---- spec helpers -------------------------------------------------------------------
    def _this(I):
        return I.frames[0].env["self"].ref

    def U(I):
        """current balance as the code reads it: credit_units or 0 when unset/0"""
        this = _this(I)
        mv = I.force(I.read_field(I.force(I.read_field(this, "machine")).ref, "variables")).ref
        v = I.read_field(mv, "credit_units")
        return VInt(z3.If(I.is_none(v), z3.IntVal(0), _int_of(I, v)))

    def _int_of(I, v):
        if isinstance(v, VUnion):
            t = z3.IntVal(0)
            for g, a in v.alts:
                if a.tag == "int":
                    t = z3.If(g, a.t, t)
            return t
        return v.t if v.tag == "int" else z3.IntVal(0)
    C.helpers["U"] = U

    def M(I):
        """maximum balance in credit units (0 = no maximum)"""
        this = _this(I)
        cfg = I.force(I.read_field(this, "credits_config")).ref
        mc = I.force(I.read_field(I.force(I.read_field(cfg, "max_credits")).ref, "value"))
        P = I.force(I.read_field(this, "credit_units_per_game"))
        return VInt(mc.t * P.t)
    C.helpers["M"] = M

    def table(I):
        this = _this(I)
        return I.container(I.force(I.read_field(this, "pricing_table")).ref)

    def table_ok(I):
        """pricing table has an entry >= 0 for every position 1..wrap (what _calculate_pricing_tiers builds)"""
        this = _this(I)
        t = table(I)
        w = I.force(I.read_field(this, "pricing_tiers_wrap_around")).t
        k = z3.Int("k!tbl")
        return VBool(z3.And(w >= 1, z3.ForAll([k], z3.Implies(z3.And(k >= 1, k <= w),
                                                              z3.And(z3.Select(t.dom, k), z3.Select(t.arr, k) >= 0)),
                                              patterns=[z3.Select(t.dom, k), z3.Select(t.arr, k)])))
    C.helpers["table_ok"] = table_ok

    POS = z3.Function("tier_pos", z3.IntSort(), z3.IntSort(), z3.IntSort())        # (start tier, i) -> tier
    TS = z3.Function("tier_bonus_sum", z3.IntSort(), z3.IntSort(), z3.IntSort())   # (start tier, i) -> bonus sum

    def pos(I, t0, i):
        return VInt(POS(I.force(t0).t, I.force(i).t))

    def ts(I, t0, i):
        return VInt(TS(I.force(t0).t, I.force(i).t))
    C.helpers["pos"] = pos
    C.helpers["ts"] = ts

    def tier_def(I, t0, i):
        """definition of the pricing-table walk, unfolded at step i (recursive definition of the spec functions):
        pos(0) = t0 mod wrap, ts(0) = 0, pos(i+1) = (pos(i)+1) mod wrap, ts(i+1) = ts(i) + table[pos(i)+1]"""
        this = _this(I)
        t = table(I)
        w = I.force(I.read_field(this, "pricing_tiers_wrap_around")).t
        a, j = I.force(t0).t, I.force(i).t
        return VBool(z3.And(POS(a, 0) == a % w, TS(a, 0) == 0,
                            POS(a, j + 1) == (POS(a, j) + 1) % w,
                            TS(a, j + 1) == TS(a, j) + z3.Select(t.arr, POS(a, j) + 1)))
    C.helpers["tier_def"] = tier_def

    def posted(name):
        def h(I):
            n = 0
            for e in events_named(I, "post"):
                ev = I.force(e.args["event"])
                if I.pyconst(ev) == name:
                    n += 1
            return VInt(n)
        return h
    C.helpers["posted_not_enough"] = posted("not_enough_credits")
    C.helpers["posted_max_reached"] = posted("max_credits_reached")
    C.helpers["posted_credits_added"] = posted("credits_added")

    # earnings dict helpers
    def earn(I, key):
        """earnings.get(key, 0) in the current state"""
        this = _this(I)
        c = I.container(I.force(I.read_field(this, "earnings")).ref)
        kt = to_term(I.force(key), c.kshape)
        return VReal(z3.If(z3.Select(c.dom, kt), z3.Select(c.arr, kt), z3.RealVal(0)))
    C.helpers["earn"] = earn

    def earnings_same_except(I, *keys):
        """every other key of the earnings dict is unchanged (value and presence)"""
        this = _this(I)
        new = I.container(I.force(I.read_field(this, "earnings")).ref)
        oldc = I.old_heap.data[(I.force(I.read_field(this, "earnings", heap=I.old_heap)).ref, "$")]
        k = z3.String("k!earn")
        ks = [to_term(I.force(x), new.kshape) for x in keys]
        return VBool(z3.ForAll([k], z3.Implies(z3.And([k != x for x in ks]),
                                               z3.And(z3.Select(new.arr, k) == z3.Select(oldc.arr, k),
                                                      z3.Select(new.dom, k) == z3.Select(oldc.dom, k)))))
    C.helpers["earnings_same_except"] = earnings_same_except

    # ---- the class ------------------------------------------------------------------------
    CFG = Rec(max_credits=TEMPLATE_INT, coin_inhibit_disable_output=Opt(ObjS("DigitalOutput")),
              fractional_credit_expiration_time=Int, credit_expiration_time=Int,
              free_play_string=Str, credits_string=Str, persist_credits_while_off_time=Opt(Real))
    C.cls("Credits", file=CREDITS, bases=["Mode"], fields=dict(
        machine=ObjS("MachineController", variables=ObjS("MachineVariables"), settings=ObjS("SettingsController"),
                     events=ObjS("EventManager"), switch_controller=ObjS("SwitchController")),
        credits_config=CFG,
        credit_units_per_game=Int, credit_unit=Num,
        pricing_table=MapS(Int, Int), pricing_tiers_wrap_around=Int, credit_units_for_pricing_tiers=Int,
        reset_pricing_tier_count_this_game=Bool,
        earnings=MapS(Str, Real), data_manager=ObjS("DataManager"), delay=DelayMgr, log=ObjS("Logger"),
        _switch_handlers=Seq(Opaque("SwitchHandler")),
    ), invariants=[
        ("C1: balance >= 0", "U() >= 0"),
        ("C2: balance <= maximum when one is configured", "implies(M() > 0, U() <= M())"),
        ("game price >= 0", "self.credit_units_per_game >= 0"),
        ("max_credits >= 0", "self.credits_config['max_credits'].evaluate([]) >= 0"),
        ("tier position within table", "0 <= self.credit_units_for_pricing_tiers <= self.pricing_tiers_wrap_around"),
        ("pricing table well-formed", "table_ok()"),
    ])
    MV = "self.machine.variables.credit_units"

    INIT = ("credit play initialised (_calculate_credit_units ran)",
            "self.credit_units_per_game >= 1 and self.credit_unit > 0")

    C.fn("Credits._get_credit_units", result=Int, ensures=[("returns the balance", "result == U()")],
         modifies=[], raises={}, no_inv=True)

    C.fn("Credits._control_coin_inhibit", modifies=[], raises={}, no_inv=True)
    C.fn("Credits._set_free_play_string", modifies=[], raises={}, no_inv=True)
    C.fn("Credits._update_credit_strings", requires=[], no_inv=True,
         ensures=[("display only: balance untouched", "U() == old(U())")], modifies=[], raises={})

    for nm in ("_player_add_request", "_request_to_start_game"):
        C.fn("Credits." + nm, result=Bool,
             ensures=[("approved iff a full game price is available", "result == (U() >= self.credit_units_per_game)"),
                      ("denied requests post not_enough_credits once, approved ones do not",
                       "posted_not_enough() == (0 if result else 1)"),
                      ("balance untouched", "U() == old(U())")],
             modifies=[], raises={})

    C.fn("Credits._audit_set_non_coin", params=dict(value=Str, audit_class=Str), no_inv=True,
         ensures=["earnings_same_except(audit_class)"] if False else [], modifies=["self.earnings"], raises={},
         external=True, trusted_reason="stores a display string in the earnings dict; numeric audit keys untouched "
                                       "(keys '5 ...'/'6 ...' are distinct literals); not verified because the "
                                       "earnings map is modelled with numeric values")
    C.fn("Credits._get_audit_non_coin", params=dict(audit_class=Str), result=Real, no_inv=True,
         ensures=["result == old(earn(audit_class))", "earn(audit_class) == old(earn(audit_class))",
                  "earnings_same_except(audit_class)"],
         modifies=["self.earnings"], raises={})
    C.fn("Credits._audit_increment_non_coin", params=dict(value=Num, audit_class=Str), no_inv=True,
         ensures=["earn(audit_class) == old(earn(audit_class)) + value", "earnings_same_except(audit_class)"],
         modifies=["self.earnings"], raises={})

    C.fn("Credits._audit", params=dict(value=Num, audit_class=Str, key_name=Opt(Str)), no_inv=True,
         requires=[("coin label does not alias the default audit keys",
                    "key_name is None or (key_name != '1 Total' and key_name != '2 Total')")],
         ensures=[("coin count +1", "earn('1 Total Coins ' + audit_class) == old(earn('1 Total Coins ' + audit_class)) + 1"),
                  ("earnings + value", "earn('2 Total Earnings ' + audit_class) == "
                                       "old(earn('2 Total Earnings ' + audit_class)) + value"),
                  ("nothing else but the keyed pair changes",
                   "earnings_same_except('1 Total Coins ' + audit_class, '2 Total Earnings ' + audit_class, "
                   "(key_name if key_name is not None else '') + ' Coins ' + audit_class, "
                   "(key_name if key_name is not None else '') + ' Earnings ' + audit_class)"),
                  ("keyed audit untouched without a key",
                   "implies(key_name is None, earnings_same_except('1 Total Coins ' + audit_class, "
                   "'2 Total Earnings ' + audit_class))")],
         modifies=["self.earnings"], raises={})

    C.fn("Credits._audit_event", params=dict(value=Num, audit_class=Str), no_inv=True,
         ensures=[("balance untouched", "U() == old(U())")], modifies=["self.earnings"], raises={})

    # ---- adding credits --------------------------------------------------------------------
    CAP = "(min(old(U()) + n + bonus, M()) if M() > 0 else old(U()) + n + bonus)"
    C.fn("Credits._add_credit_units", params=dict(credit_units=Num, price_tiering=Bool),
         requires=[("coins are worth >= 0 units", "credit_units >= 0")],
         defs=["tier_def(t0, 0)"],
         lets={"n": "int(credit_units)", "t0": "self.credit_units_for_pricing_tiers",
               "bonus": "ts(t0, n) if price_tiering else 0"},
         loops={0: LoopSpec(assume=["tier_def(t0, _)"], invariant=[
             "self.credit_units_for_pricing_tiers == pos(t0, _)",
             "0 <= self.credit_units_for_pricing_tiers < self.pricing_tiers_wrap_around",
             "total_credit_units == credit_units + previous_credit_units + ts(t0, _)",
             "ts(t0, _) >= 0",
         ], modifies=["self.credit_units_for_pricing_tiers"])},
         ensures=[("balance = pricing-table yield, capped at the maximum", "U() == " + CAP),
                  ("bonus is never negative", "bonus >= 0"),
                  ("tier position advanced by n", "implies(price_tiering, self.credit_units_for_pricing_tiers == pos(t0, n))"),
                  ("without tiering the tier position does not advance",
                   "implies(not price_tiering, self.credit_units_for_pricing_tiers == t0 % self.pricing_tiers_wrap_around)"),
                  ("max_credits_reached iff the cap cut something off",
                   "posted_max_reached() == (1 if (M() > 0 and old(U()) + n + bonus > M()) else 0)")],
         raises={"AssertionError": "int(credit_units) != credit_units"},
         ensures_exc=["U() == old(U())"],
         modifies=[MV, "self.credit_units_for_pricing_tiers"])

    C.fn("Credits.add_credit", params=dict(price_tiering=Bool),
         lets={"n": "self.credit_units_per_game", "t0": "self.credit_units_for_pricing_tiers",
               "bonus": "ts(t0, n) if price_tiering else 0"},
         ensures=[("one game price added (plus tier bonus), capped", "U() == " + CAP),
                  ("without tiering the tier position does not advance",
                   "implies(not price_tiering, self.credit_units_for_pricing_tiers == t0 % self.pricing_tiers_wrap_around)")],
         defs=["tier_def(t0, 0)"],
         modifies=[MV, "self.credit_units_for_pricing_tiers"], raises={})

    # ---- the three sources of credits
    C.fn("Credits._credit_switch_callback", params=dict(value=Num, audit_class=Str, key_name=Opt(Str)),
         requires=[INIT, ("coin value >= 0", "value >= 0"),
                   ("coin label does not alias the default audit keys",
                    "key_name is None or (key_name != '1 Total' and key_name != '2 Total')")],
         lets={"n": "int(value / self.credit_unit)", "t0": "self.credit_units_for_pricing_tiers",
               "bonus": "ts(t0, int(value / self.credit_unit))"},
         defs=["tier_def(t0, 0)"],
         ensures=[("money buys its value in credit units plus the pricing-tier bonus, capped", "U() == " + CAP),
                  ("earnings audits equal the coins accepted: one coin, its value",
                   "earn('1 Total Coins ' + audit_class) == old(earn('1 Total Coins ' + audit_class)) + 1 and "
                   "earn('2 Total Earnings ' + audit_class) == old(earn('2 Total Earnings ' + audit_class)) + value")],
         raises={"AssertionError": "int(value / self.credit_unit) != value / self.credit_unit"},
         modifies=[MV, "self.credit_units_for_pricing_tiers", "self.earnings", "self.delay.pending"])
    C.fn("Credits._credit_event_callback", params=dict(credits_value=TEMPLATE_NUM, audit_class=Str),
         requires=[INIT, ("award >= 0", "credits_value.value >= 0")],
         lets={"n": "int(credits_value.value * self.credit_units_per_game)", "bonus": "0",
               "t0": "self.credit_units_for_pricing_tiers"},
         ensures=[("awarded credits are added at face value (no pricing-tier bonus), capped", "U() == " + CAP),
                  ("awards do not advance the pricing tiers",
                   "self.credit_units_for_pricing_tiers == t0 % self.pricing_tiers_wrap_around")],
         raises={"AssertionError": "int(credits_value.value * self.credit_units_per_game) != "
                                   "credits_value.value * self.credit_units_per_game"},
         modifies=[MV, "self.credit_units_for_pricing_tiers", "self.earnings", "self.delay.pending"])
    C.fn("Credits._service_credit_callback", requires=[INIT],
         lets={"n": "self.credit_units_per_game", "bonus": "0", "t0": "self.credit_units_for_pricing_tiers"},
         ensures=[("a service credit is exactly one game price, no bonus, capped", "U() == " + CAP),
                  ("service credits do not advance the pricing tiers",
                   "self.credit_units_for_pricing_tiers == t0 % self.pricing_tiers_wrap_around")],
         modifies=[MV, "self.credit_units_for_pricing_tiers", "self.earnings"], raises={})

    # ---- spending credits -----------------------------------------------------------------
    C.fn("Credits._player_added",
         requires=[("audit counters are non-negative",
                    "earn('3 Total Paid Games') >= 0 and earn('4 Total Free Games') >= 0")],
         ensures=[("free play: balance untouched", "implies(old(self.machine.settings.free_play), U() == old(U()))"),
                  ("credit play: exactly one game price deducted when it was available",
                   "implies(not old(self.machine.settings.free_play) and old(U()) >= self.credit_units_per_game, "
                   "U() == old(U()) - self.credit_units_per_game)"),
                  ("never negative", "U() >= 0")],
         modifies=[MV, "self.earnings"], raises={})

    C.fn("Credits._clear_fractional_credits", requires=[INIT],
         ensures=[("fraction removed", "U() == old(U()) - old(U()) % self.credit_units_per_game")],
         modifies=[MV], raises={})
    C.fn("Credits.clear_all_credits",
         ensures=["U() == 0", "self.credit_units_for_pricing_tiers == 0"],
         modifies=[MV, "self.credit_units_for_pricing_tiers"], raises={})
    C.fn("Credits._reset_credits", ensures=["U() == 0"],
         modifies=[MV, "self.credit_units_for_pricing_tiers"], raises={})
    C.fn("Credits._game_started", ensures=["U() == old(U())", "self.credit_units_for_pricing_tiers == 0"],
         modifies=["self.credit_units_for_pricing_tiers", "self.delay.pending"], raises={})
    C.fn("Credits._reset_pricing_tier_credits", ensures=["U() == old(U())"],
         modifies=["self.credit_units_for_pricing_tiers", "self.reset_pricing_tier_count_this_game"], raises={})
    C.fn("Credits._reset_timeouts", requires=[INIT], ensures=["U() == old(U())"], modifies=["self.delay.pending"],
         raises={}, no_inv=True)
    C.fn("Credits._game_ended", requires=[INIT],
         ensures=["U() == old(U())",
                  ("GE1: every game end - whatever the balance - re-arms the pricing-tier restart for the next game (the "
                   "flag that suppresses the tier restart at ball 2 never outlives its game)",
                   "self.reset_pricing_tier_count_this_game == False")],
         modifies=["self.delay.pending", "self.reset_pricing_tier_count_this_game"], raises={})

    C.assume("machine-variable store and settings store behave as maps (get returns the last set); their own "
             "persistence is C15")
    C.assume("A-CONFIG: max_credits is a template_int >= 0, expiration times are ms ints (C12)")
    C.assume("pricing table built by _calculate_pricing_tiers has non-negative entries for positions 1..wrap "
             "(class invariant assumed at entry of every method, re-proved at exit; its establishment by "
             "_calculate_pricing_tiers is not yet under contract)")
    C.assume("no await/re-entrancy between request_to_start_game approval and player_added (single "
             "process_event_queue run): stated as rely")
    return C


def setup_set():
    """entering / leaving credit play: whatever mode the machine booted in and however often enable / disable / toggle
    requests repeat, in credit play every coin switch, the service switch and every credit event has EXACTLY ONE
    credit handler (a coin is counted once) and the price has been calculated (credit_unit > 0, a game costs >= 1
    unit); in free play no credit handler is left"""
    C = ContractSet("C20s", "credit play set-up: one handler per coin, price calculated")
    C.strings = False
    NSW = common.bound(1, 2)
    C.cls("Mode", fields={})
    C.cls("Template", fields=dict(value=Num))
    C.ext("Template.evaluate", model=lambda I, env, a, k: I.read_field(env["self"].ref, "value"),
          trusted_reason="a validated template evaluates to a number; constant during a call (A-CONFIG)")
    C.ext("Template.__eq__", model=lambda I, env, a, k: VBool(I.eq(I.read_field(env["self"].ref, "value"),
                                                                  I.read_field(I.force(a[0]).ref, "value"))),
          trusted_reason="NativeTypeTemplate equality compares the values")

    def native_template(I, a, k):
        o = Obj("Template", ObjS("Template", value=Num), I.fresh_name("native_template"))
        o.fresh = True
        I.heap.data[(o, "value")] = a[0]
        return VObj(o)
    C.globals["NativeTypeTemplate"] = VFn("model", model=native_template)

    def reg(I):
        return I.__dict__.setdefault("c20_reg", {"sw": [], "ev": {}})

    def add_switch_handler(I, env, a, k):
        key = VOpaque("SwitchKey", z3.Const(I.fresh_name("swkey"), usort("SwitchKey")))
        cb = I.force(k["callback"])
        reg(I)["sw"].append(dict(key=key, switch=I.force(k["switch"]).ref, cb=cb.name if cb.tag == "fn" else "?",
                                 live=True, kwargs=k.get("callback_kwargs")))
        return key

    def remove_switch_handlers(I, env, a, k):
        keys = [I.force(x) for x in I.iter_conc(a[0])]
        for h in reg(I)["sw"]:
            if any(x.tag == "opaque" and x.t.eq(h["key"].t) for x in keys):
                h["live"] = False
        return NONE
    C.cls("SwitchController", fields={})
    C.ext("SwitchController.add_switch_handler_obj", model=add_switch_handler,
          trusted_reason="switch controller (C03): registers one more handler and returns its key")
    C.ext("SwitchController.remove_switch_handler_by_keys", model=remove_switch_handlers,
          trusted_reason="switch controller (C03): removes exactly the handlers with these keys")

    def ev_add(I, env, a, k):
        h = I.force(k.get("handler", a[1] if len(a) > 1 else NONE))
        ev = k.get("event", a[0] if a else NONE)
        name = h.name if h.tag == "fn" else "?"
        if name == "_credit_event_callback":
            d = reg(I)["ev"]
            kk = str(I.force(ev).t)
            d[kk] = d.get(kk, 0) + 1
        return VOpaque("HKey", z3.Const(I.fresh_name("hkey"), usort("HKey")))

    def ev_remove(I, env, a, k):
        h = I.force(a[0])
        if h.tag == "fn" and h.name == "_credit_event_callback":
            reg(I)["ev"] = {}
        return NONE
    C.cls("EventManager", fields={})
    C.ext("EventManager.add_handler", model=ev_add, trusted_reason="event manager (C01): registers one more handler")
    C.ext("EventManager.remove_handler", model=ev_remove, trusted_reason="event manager (C01): removes every handler "
                                                                         "with this callback")
    C.ext("EventManager.post", model=common.noop, trusted_reason="event posting (C01)")
    C.cls("MachineVariables", fields={})
    for m_ in ("set_machine_var", "configure_machine_var", "remove_machine_var"):
        C.ext("MachineVariables." + m_, model=common.noop, trusted_reason="machine-variable store (main set / C15)")
    C.cls("SettingsController", fields=dict(free_play=Bool))
    C.ext("SettingsController.get_setting_value", model=lambda I, env, a, k: I.read_field(env["self"].ref, "free_play"),
          trusted_reason="settings store: get returns last set")
    C.ext("SettingsController.set_setting_value",
          model=lambda I, env, a, k: (I.write_field(env["self"].ref, "free_play", a[1]), NONE)[1],
          trusted_reason="settings store: get returns last set")
    C.cls("SwitchDev", fields={})

    def coin_switches(I, name):
        ents = []
        for i in range(1 + I.ctx.fork(NSW)):
            r = I.fresh(Rec(switch=ObjS("SwitchDev"), value=ObjS("Template", value=Num), type=Str, label=Str),
                        "%s[%d]" % (name, i))
            I.ctx.assume(I.num(I.read_field(I.force(I.read_field(r.ref, "value")).ref, "value"))[1] > 0)
            ents.append(r)
        return I.new_list(ents, name)

    def service_switches(I, name):
        return I.new_list([I.fresh(ObjS("SwitchDev"), name + "[0]")] if I.ctx.fork(2) else [], name)

    def credit_events(I, name):
        if I.ctx.fork(2) == 0:
            return I.new_list([], name)
        return I.new_list([I.fresh(Rec(event=Const("award_credit"), credits=ObjS("Template", value=Num), type=Str),
                                   name + "[0]")], name)

    def tiers(I, name):
        ents = []
        for i in range(I.ctx.fork(2) + 0):
            r = I.fresh(Rec(price=ObjS("Template", value=Num), credits=ObjS("Template", value=Num)), "%s[%d]" % (name, i))
            I.ctx.assume(I.num(I.read_field(I.force(I.read_field(r.ref, "price")).ref, "value"))[1] > 0)
            ents.append(r)
        return I.new_list(ents, name)

    def installed(I, name):
        """entry state of _switch_handlers: credit play is off (no handler) or on (one live handler per switch)"""
        this = I.frames[0].env["self"].ref
        cfg = I.force(I.read_field(this, "credits_config")).ref
        if I.ctx.fork(2) == 0:
            I.__dict__["c20_was_on"] = False
            return I.new_list([], name)
        I.__dict__["c20_was_on"] = True
        keys = []
        for r in I.container(I.force(I.read_field(cfg, "switches")).ref).items:
            key = VOpaque("SwitchKey", z3.Const(I.fresh_name("swkey0"), usort("SwitchKey")))
            reg(I)["sw"].append(dict(key=key, switch=I.force(I.read_field(I.force(r).ref, "switch")).ref,
                                     cb="_credit_switch_callback", live=True, kwargs=None))
            keys.append(key)
        for sw in I.container(I.force(I.read_field(cfg, "service_credits_switch")).ref).items:
            key = VOpaque("SwitchKey", z3.Const(I.fresh_name("swkey0"), usort("SwitchKey")))
            reg(I)["sw"].append(dict(key=key, switch=I.force(sw).ref, cb="_service_credit_callback", live=True,
                                     kwargs=None))
            keys.append(key)
        for r in I.container(I.force(I.read_field(cfg, "events")).ref).items:
            reg(I)["ev"][str(I.force(I.read_field(I.force(r).ref, "event")).t)] = 1
        return I.new_list(keys, name)
    C.ghost.update(dict(priced=Bool))
    CFG = Rec(switches=Init(coin_switches), service_credits_switch=Init(service_switches), events=Init(credit_events),
              pricing_tiers=Init(tiers), persist_credits_while_off_time=Opt(Real), price_tier_template=Str)
    C.cls("Credits", file=CREDITS, bases=["Mode"], fields=dict(
        machine=ObjS("MachineController", variables=ObjS("MachineVariables"), settings=ObjS("SettingsController"),
                     events=ObjS("EventManager"), switch_controller=ObjS("SwitchController")),
        credits_config=CFG, credit_units_per_game=Int, credit_unit=Num, _switch_handlers=Init(installed)))
    for m_ in ("_update_credit_strings", "_control_coin_inhibit", "_set_free_play_string", "_remove_event_handlers"):
        C.ext("Credits." + m_, model=common.noop, trusted_reason="display strings / coin inhibit / game-request handlers "
                                                                 "(main set); not the coin handlers")
    C.ext("Credits.add_mode_event_handler", model=lambda I, env, a, k: VOpaque("HKey", z3.Const(
        I.fresh_name("mkey"), usort("HKey"))), trusted_reason="Mode.add_mode_event_handler (C07 L1)")
    C.ext("Credits._get_credit_units", model=lambda I, env, a, k: VInt(z3.Int(I.fresh_name("units"))),
          trusted_reason="reads the balance (main set)")

    def pricing(I, env, a, k):
        I.write_field(I.ghost, "priced", VBool(True))
        return NONE
    C.ext("Credits._calculate_pricing_tiers", model=pricing,
          trusted_reason="builds the pricing table from credit_unit / credit_units_per_game (nested loops; the main "
                         "set assumes the table it builds as a class invariant)")
    C.fn("Credits._enable_credit_handlers", inline=True, no_inv=True)
    C.fn("Credits._disable_credit_handlers", inline=True, no_inv=True)

    def one_handler_each(I):
        this = I.frames[0].env["self"].ref
        cfg = I.force(I.read_field(this, "credits_config")).ref
        r_ = reg(I)
        live = [h for h in r_["sw"] if h["live"]]
        want = [(I.force(I.read_field(I.force(x).ref, "switch")).ref, "_credit_switch_callback")
                for x in I.container(I.force(I.read_field(cfg, "switches")).ref).items]
        want += [(I.force(x).ref, "_service_credit_callback")
                 for x in I.container(I.force(I.read_field(cfg, "service_credits_switch")).ref).items]
        got = sorted((id(h["switch"]), h["cb"]) for h in live)
        if got != sorted((id(a_), b_) for a_, b_ in want):
            return VBool(False)
        evs = [str(I.force(I.read_field(I.force(x).ref, "event")).t)
               for x in I.container(I.force(I.read_field(cfg, "events")).ref).items]
        if sorted(r_["ev"].items()) != sorted((e, 1) for e in evs):
            return VBool(False)
        # the mode remembers exactly the live keys (so that it can remove them again)
        held = [I.force(x) for x in I.container(I.force(I.read_field(this, "_switch_handlers")).ref).items]
        ok = len(held) == len(live) and all(any(x.t.eq(h["key"].t) for x in held) for h in live)
        return VBool(ok)
    C.helpers["one_credit_handler_each"] = one_handler_each

    def no_handler(I):
        this = I.frames[0].env["self"].ref
        r_ = reg(I)
        held = I.container(I.force(I.read_field(this, "_switch_handlers")).ref).items
        return VBool(not [h for h in r_["sw"] if h["live"]] and not r_["ev"] and len(held) == 0)
    C.helpers["no_credit_handler"] = no_handler
    SANE = ("both or neither: the price and the pricing table are calculated together",
            "ghost.priced == (self.credit_unit > 0) and self.credit_unit >= 0 and "
            "implies(self.credit_unit > 0, self.credit_units_per_game >= 1)")
    PRICED = "self.credit_unit > 0 and self.credit_units_per_game >= 1 and ghost.priced"
    MODS = ["self._switch_handlers", "self.credit_unit", "self.credit_units_per_game", "ghost.priced",
            "self.machine.settings.free_play"]
    C.fn("Credits._calculate_credit_units",
         ensures=[("CU1: with positive coin values and prices the credit unit is positive and a game costs at least one "
                   "unit", "self.credit_unit > 0 and self.credit_units_per_game >= 1")],
         modifies=["self.credit_unit", "self.credit_units_per_game"], raises={"AssertionError": True}, inline_calls=True)
    C.fn("Credits.enable_credit_play", params=dict(post_event=Bool, kwargs=Opaque("Kwargs")), requires=[SANE],
         ensures=[("EC1: in credit play every coin switch, the service switch and every credit event has exactly ONE "
                   "credit handler - also when credit play was already on (a coin is counted once)",
                   "one_credit_handler_each()"),
                  ("EC2: credit play is never entered without a calculated price - also on a machine that booted in "
                   "free play", PRICED),
                  ("the setting says credit play", "not self.machine.settings.free_play")],
         modifies=MODS, raises={"AssertionError": True}, inline_calls=True, skip_frame=True)
    C.fn("Credits.enable_free_play", params=dict(post_event=Bool, kwargs=Opaque("Kwargs")), requires=[SANE],
         ensures=[("EF1: in free play no credit handler is left", "no_credit_handler()"),
                  ("the setting says free play", "self.machine.settings.free_play")],
         modifies=MODS, raises={}, inline_calls=True, skip_frame=True)
    C.fn("Credits.toggle_credit_play", params=dict(kwargs=Opaque("Kwargs")), requires=[SANE],
         ensures=[("TG1: a toggle ends in the other mode, set up completely",
                   "(no_credit_handler() and self.machine.settings.free_play) if not old(self.machine.settings.free_play) "
                   "else (one_credit_handler_each() and not self.machine.settings.free_play and " + PRICED + ")")],
         modifies=MODS, raises={"AssertionError": True}, inline_calls=True, skip_frame=True)
    C.fn("Credits.mode_start", params=dict(kwargs=Opaque("Kwargs")),
         requires=[SANE, ("the mode starts with no credit handler installed", "not was_on()")],
         ensures=[("MS1: the mode comes up in the configured mode, set up completely",
                   "(no_credit_handler()) if self.machine.settings.free_play else (one_credit_handler_each() and " +
                   PRICED + ")")],
         modifies=MODS, raises={"AssertionError": True}, inline_calls=True, skip_frame=True)
    C.fn("Credits.mode_stop", params=dict(kwargs=Opaque("Kwargs")),
         ensures=[("MS2: a stopped credits mode leaves no credit handler behind", "no_credit_handler()")],
         modifies=MODS, raises={}, inline_calls=True, skip_frame=True)
    def was_on(I):
        I.force(I.read_field(I.frames[0].env["self"].ref, "_switch_handlers"))      # materialise the entry state
        return VBool(bool(I.__dict__.get("c20_was_on")))
    C.helpers["was_on"] = was_on
    C.assume("A-CONFIG: coin values and tier prices are positive numbers; at most %d coin switches, one service switch, "
             "one credit event, one pricing tier (bounded)" % NSW)
    return C


def build_extra():
    # 'a player is added only when the credits handler approved the request': the game side - a denied
    # player_add_request (the credits mode returns False when there are too few credits) adds no player, whatever the
    # state of the player list (C06's contracts P1-P3 on the player-add path, restricted)
    from . import C06
    c06 = C06.build()
    c06.pid = "C20b"
    c06.replay_pid = "C06"
    c06.only_verify = ["Game._player_add_request_complete", "Game.request_player_add", "Game._player_adding_complete"]
    # free_play is a setting: it is read from its machine variable on every access, also when the stored value is falsy
    # (credit play = False) (C16's settings contract SV1, restricted)
    from . import C16
    c16 = C16.resubscribe_set()
    c16.pid = "C20v"
    c16.replay_pid = "C16"
    c16.only_verify = ["SettingsController.get_setting_value"]
    # 'exactly ONE credit handler per coin switch / credit event' (EC1) rests on _disable_credit_handlers really removing
    # every registration of the credit callbacks - two credit events may share one event name (C01's remove_handler RH1)
    from . import C01
    c01 = C01.build()
    c01.pid = "C20e"
    c01.replay_pid = "C01"
    c01.only_verify = ["EventManager.remove_handler"]
    # 'one coin, one credit': a coin switch handler fires once per real change - a repeated report of the current state is
    # dropped in every mode of operation (C03's contract on process_switch_obj, restricted)
    from . import C03
    c03 = C03.build()
    c03.pid = "C20s"
    c03.replay_pid = "C03"
    c03.only_verify = ["SwitchController.process_switch_obj"]
    # the credit balance IS the machine variable credit_units: the map behaviour the store model above assumes (get returns
    # what set stored, None for an unknown variable; set keeps the persist flag / expiry that enable_credit_play
    # configured) is C15's contract on the real set / get / configure_machine_var, restricted
    from . import C15
    c15 = C15.build()
    c15.pid = "C20m"
    c15.replay_pid = "C15"
    # ... and the earnings audits are handed to the data manager with save_all: 'the data handed in is the latest data and a
    # write is pending' (save_all), 'whenever no write is pending and none has failed the file holds the latest data'
    # (_writing_thread D1-D3, sequential under its rely) are C15's contracts on mpf/core/data_manager.py, restricted
    c15.only_verify = ["MachineVariables.get_machine_var", "MachineVariables.set_machine_var",
                       "MachineVariables.configure_machine_var", "DataManager.save_all", "DataManager._writing_thread"]
    return [c06, setup_set(), c16, c01, c03, c15]
