"""C20 - Credits: balance follows the pricing table and stays within bounds.

State: U = machine variable 'credit_units' (ghost field on the machine-variable store, which is an
assumed component), P = credit_units_per_game, M = max_credits * P, tier position, pricing table.
"""
import z3

from pyvc.contract import ContractSet, LoopSpec
from pyvc.vals import *       # noqa
from pyvc.interp import MISSING
from pyvc.ctx import Unsupported
from . import common
from .common import DelayMgr, emit, events_named

CREDITS = "mpf/modes/credits/code/credits.py"

TEMPLATE_INT = ObjS("Template", value=Int)
TEMPLATE_NUM = ObjS("Template", value=Num)


def build():
    C = ContractSet("C20", "Credits: balance follows the pricing table and stays within bounds")
    common.declare_delay_client(C)
    common.declare_events(C)
    C.cls("Logger", fields={})
    C.ext("Logger.info", model=common.noop, trusted_reason="logging")

    # ---- assumed components -------------------------------------------------------------
    C.cls("Template", fields={})

    def tmpl_evaluate(I, env, args, kwargs):
        return I.read_field(env["self"].ref, "value")
    C.ext("Template.evaluate", model=tmpl_evaluate,
          trusted_reason="a validated template_int/template_float evaluates to a number of its type; constant "
                         "during a call (A-CONFIG)")

    C.cls("MachineVariables", fields=dict(credit_units=Union(NoneT, Int)))

    def mv_get(I, env, args, kwargs):
        name = I.pyconst(I.force(args[0] if args else kwargs["name"]))
        if name == "credit_units":
            return I.read_field(env["self"].ref, "credit_units")
        return VOpaque("Any", z3.Const(I.fresh_name("mvar_" + str(name)), usort("Any")))

    def mv_set(I, env, args, kwargs):
        name_v = args[0] if args else kwargs["name"]
        value = args[1] if len(args) > 1 else kwargs["value"]
        name = I.pyconst(I.force(name_v))
        if name is MISSING:
            emit(I, "set_machine_var", name=name_v, value=value)
            return NONE
        if name == "credit_units":
            I.write_field(env["self"].ref, "credit_units", value)
        emit(I, "set_machine_var", name=name, value=value)
        return NONE
    R = "machine-variable store (mpf/core/machine_vars.py): set then get returns the value set; persistence is C15"
    C.ext("MachineVariables.get_machine_var", model=mv_get, trusted_reason=R)
    C.ext("MachineVariables.set_machine_var", model=mv_set, trusted_reason=R)
    C.ext("MachineVariables.configure_machine_var", model=common.noop, trusted_reason=R)
    C.ext("MachineVariables.remove_machine_var", model=common.noop, trusted_reason=R)

    C.cls("SettingsController", fields=dict(free_play=Bool))

    def get_setting(I, env, args, kwargs):
        name = I.pyconst(I.force(args[0]))
        if name == "free_play":
            return I.read_field(env["self"].ref, "free_play")
        raise Unsupported("setting %r" % name)

    def set_setting(I, env, args, kwargs):
        name = I.pyconst(I.force(args[0]))
        if name == "free_play":
            I.write_field(env["self"].ref, "free_play", args[1])
            return NONE
        raise Unsupported("setting %r" % name)
    C.ext("SettingsController.get_setting_value", model=get_setting, trusted_reason="settings store: get returns last set")
    C.ext("SettingsController.set_setting_value", model=set_setting, trusted_reason="settings store: get returns last set")

    C.cls("DataManager", fields={})

    def save_all(I, env, args, kwargs):
        emit(I, "save_all", data=kwargs.get("data", args[0] if args else NONE))
        return NONE
    C.ext("DataManager.save_all", model=save_all, trusted_reason="persistence is C15")
    common.declare_noop(C, "DigitalOutput", "enable", "disable", reason="coin inhibit output; not credit state")
    common.declare_noop(C, "SwitchController", "remove_switch_handler_by_keys",
                        reason="switch handler registry (C03); not credit state")

    # ---- spec helpers -------------------------------------------------------------------
    def _this(I):
        return I.frames[0].env["self"].ref

    def U(I):
        """current balance as the code reads it: credit_units or 0 when unset/0"""
        this = _this(I)
        mv = I.force(I.read_field(I.force(I.read_field(this, "machine")).ref, "variables")).ref
        v = I.read_field(mv, "credit_units")
        return VInt(z3.If(I.is_none(v), z3.IntVal(0), _int_of(I, v)))

    def _int_of(I, v):
        if isinstance(v, VUnion):
            t = z3.IntVal(0)
            for g, a in v.alts:
                if a.tag == "int":
                    t = z3.If(g, a.t, t)
            return t
        return v.t if v.tag == "int" else z3.IntVal(0)
    C.helpers["U"] = U

    def M(I):
        """maximum balance in credit units (0 = no maximum)"""
        this = _this(I)
        cfg = I.force(I.read_field(this, "credits_config")).ref
        mc = I.force(I.read_field(I.force(I.read_field(cfg, "max_credits")).ref, "value"))
        P = I.force(I.read_field(this, "credit_units_per_game"))
        return VInt(mc.t * P.t)
    C.helpers["M"] = M

    def table(I):
        this = _this(I)
        return I.container(I.force(I.read_field(this, "pricing_table")).ref)

    def table_ok(I):
        """pricing table has an entry >= 0 for every position 1..wrap (what _calculate_pricing_tiers builds)"""
        this = _this(I)
        t = table(I)
        w = I.force(I.read_field(this, "pricing_tiers_wrap_around")).t
        k = z3.Int("k!tbl")
        return VBool(z3.And(w >= 1, z3.ForAll([k], z3.Implies(z3.And(k >= 1, k <= w),
                                                              z3.And(z3.Select(t.dom, k), z3.Select(t.arr, k) >= 0)),
                                              patterns=[z3.Select(t.dom, k), z3.Select(t.arr, k)])))
    C.helpers["table_ok"] = table_ok

    POS = z3.Function("tier_pos", z3.IntSort(), z3.IntSort(), z3.IntSort())        # (start tier, i) -> tier
    TS = z3.Function("tier_bonus_sum", z3.IntSort(), z3.IntSort(), z3.IntSort())   # (start tier, i) -> bonus sum

    def pos(I, t0, i):
        return VInt(POS(I.force(t0).t, I.force(i).t))

    def ts(I, t0, i):
        return VInt(TS(I.force(t0).t, I.force(i).t))
    C.helpers["pos"] = pos
    C.helpers["ts"] = ts

    def tier_def(I, t0, i):
        """definition of the pricing-table walk, unfolded at step i (recursive definition of the spec functions):
        pos(0) = t0 mod wrap, ts(0) = 0, pos(i+1) = (pos(i)+1) mod wrap, ts(i+1) = ts(i) + table[pos(i)+1]"""
        this = _this(I)
        t = table(I)
        w = I.force(I.read_field(this, "pricing_tiers_wrap_around")).t
        a, j = I.force(t0).t, I.force(i).t
        return VBool(z3.And(POS(a, 0) == a % w, TS(a, 0) == 0,
                            POS(a, j + 1) == (POS(a, j) + 1) % w,
                            TS(a, j + 1) == TS(a, j) + z3.Select(t.arr, POS(a, j) + 1)))
    C.helpers["tier_def"] = tier_def

    def posted(name):
        def h(I):
            n = 0
            for e in events_named(I, "post"):
                ev = I.force(e.args["event"])
                if I.pyconst(ev) == name:
                    n += 1
            return VInt(n)
        return h
    C.helpers["posted_not_enough"] = posted("not_enough_credits")
    C.helpers["posted_max_reached"] = posted("max_credits_reached")
    C.helpers["posted_credits_added"] = posted("credits_added")

    # earnings dict helpers
    def earn(I, key):
        """earnings.get(key, 0) in the current state"""
        this = _this(I)
        c = I.container(I.force(I.read_field(this, "earnings")).ref)
        kt = to_term(I.force(key), c.kshape)
        return VReal(z3.If(z3.Select(c.dom, kt), z3.Select(c.arr, kt), z3.RealVal(0)))
    C.helpers["earn"] = earn

    def earnings_same_except(I, *keys):
        """every other key of the earnings dict is unchanged (value and presence)"""
        this = _this(I)
        new = I.container(I.force(I.read_field(this, "earnings")).ref)
        oldc = I.old_heap.data[(I.force(I.read_field(this, "earnings", heap=I.old_heap)).ref, "$")]
        k = z3.String("k!earn")
        ks = [to_term(I.force(x), new.kshape) for x in keys]
        return VBool(z3.ForAll([k], z3.Implies(z3.And([k != x for x in ks]),
                                               z3.And(z3.Select(new.arr, k) == z3.Select(oldc.arr, k),
                                                      z3.Select(new.dom, k) == z3.Select(oldc.dom, k)))))
    C.helpers["earnings_same_except"] = earnings_same_except

    # ---- the class ------------------------------------------------------------------------
    CFG = Rec(max_credits=TEMPLATE_INT, coin_inhibit_disable_output=Opt(ObjS("DigitalOutput")),
              fractional_credit_expiration_time=Int, credit_expiration_time=Int,
              free_play_string=Str, credits_string=Str, persist_credits_while_off_time=Opt(Real))
    C.cls("Credits", file=CREDITS, bases=["Mode"], fields=dict(
        machine=ObjS("MachineController", variables=ObjS("MachineVariables"), settings=ObjS("SettingsController"),
                     events=ObjS("EventManager"), switch_controller=ObjS("SwitchController")),
        credits_config=CFG,
        credit_units_per_game=Int, credit_unit=Num,
        pricing_table=MapS(Int, Int), pricing_tiers_wrap_around=Int, credit_units_for_pricing_tiers=Int,
        reset_pricing_tier_count_this_game=Bool,
        earnings=MapS(Str, Real), data_manager=ObjS("DataManager"), delay=DelayMgr, log=ObjS("Logger"),
        _switch_handlers=Seq(Opaque("SwitchHandler")),
    ), invariants=[
        ("C1: balance >= 0", "U() >= 0"),
        ("C2: balance <= maximum when one is configured", "implies(M() > 0, U() <= M())"),
        ("game price >= 0", "self.credit_units_per_game >= 0"),
        ("max_credits >= 0", "self.credits_config['max_credits'].evaluate([]) >= 0"),
        ("tier position within table", "0 <= self.credit_units_for_pricing_tiers <= self.pricing_tiers_wrap_around"),
        ("pricing table well-formed", "table_ok()"),
    ])
    MV = "self.machine.variables.credit_units"

    INIT = ("credit play initialised (_calculate_credit_units ran)",
            "self.credit_units_per_game >= 1 and self.credit_unit > 0")

    C.fn("Credits._get_credit_units", result=Int, ensures=[("returns the balance", "result == U()")],
         modifies=[], raises={}, no_inv=True)

    C.fn("Credits._control_coin_inhibit", modifies=[], raises={}, no_inv=True)
    C.fn("Credits._set_free_play_string", modifies=[], raises={}, no_inv=True)
    C.fn("Credits._update_credit_strings", requires=[], no_inv=True,
         ensures=[("display only: balance untouched", "U() == old(U())")], modifies=[], raises={})

    for nm in ("_player_add_request", "_request_to_start_game"):
        C.fn("Credits." + nm, result=Bool,
             ensures=[("approved iff a full game price is available", "result == (U() >= self.credit_units_per_game)"),
                      ("denied requests post not_enough_credits once, approved ones do not",
                       "posted_not_enough() == (0 if result else 1)"),
                      ("balance untouched", "U() == old(U())")],
             modifies=[], raises={})

    C.fn("Credits._audit_set_non_coin", params=dict(value=Str, audit_class=Str), no_inv=True,
         ensures=["earnings_same_except(audit_class)"] if False else [], modifies=["self.earnings"], raises={},
         external=True, trusted_reason="stores a display string in the earnings dict; numeric audit keys untouched "
                                       "(keys '5 ...'/'6 ...' are distinct literals); not verified because the "
                                       "earnings map is modelled with numeric values")
    C.fn("Credits._get_audit_non_coin", params=dict(audit_class=Str), result=Real, no_inv=True,
         ensures=["result == old(earn(audit_class))", "earn(audit_class) == old(earn(audit_class))",
                  "earnings_same_except(audit_class)"],
         modifies=["self.earnings"], raises={})
    C.fn("Credits._audit_increment_non_coin", params=dict(value=Num, audit_class=Str), no_inv=True,
         ensures=["earn(audit_class) == old(earn(audit_class)) + value", "earnings_same_except(audit_class)"],
         modifies=["self.earnings"], raises={})

    C.fn("Credits._audit", params=dict(value=Num, audit_class=Str, key_name=Opt(Str)), no_inv=True,
         requires=[("coin label does not alias the default audit keys",
                    "key_name is None or (key_name != '1 Total' and key_name != '2 Total')")],
         ensures=[("coin count +1", "earn('1 Total Coins ' + audit_class) == old(earn('1 Total Coins ' + audit_class)) + 1"),
                  ("earnings + value", "earn('2 Total Earnings ' + audit_class) == "
                                       "old(earn('2 Total Earnings ' + audit_class)) + value"),
                  ("nothing else but the keyed pair changes",
                   "earnings_same_except('1 Total Coins ' + audit_class, '2 Total Earnings ' + audit_class, "
                   "(key_name if key_name is not None else '') + ' Coins ' + audit_class, "
                   "(key_name if key_name is not None else '') + ' Earnings ' + audit_class)"),
                  ("keyed audit untouched without a key",
                   "implies(key_name is None, earnings_same_except('1 Total Coins ' + audit_class, "
                   "'2 Total Earnings ' + audit_class))")],
         modifies=["self.earnings"], raises={})

    C.fn("Credits._audit_event", params=dict(value=Num, audit_class=Str), no_inv=True,
         ensures=[("balance untouched", "U() == old(U())")], modifies=["self.earnings"], raises={})

    # ---- adding credits --------------------------------------------------------------------
    CAP = "(min(old(U()) + n + bonus, M()) if M() > 0 else old(U()) + n + bonus)"
    C.fn("Credits._add_credit_units", params=dict(credit_units=Num, price_tiering=Bool),
         requires=[("coins are worth >= 0 units", "credit_units >= 0")],
         defs=["tier_def(t0, 0)"],
         lets={"n": "int(credit_units)", "t0": "self.credit_units_for_pricing_tiers",
               "bonus": "ts(t0, n) if price_tiering else 0"},
         loops={0: LoopSpec(assume=["tier_def(t0, _)"], invariant=[
             "self.credit_units_for_pricing_tiers == pos(t0, _)",
             "0 <= self.credit_units_for_pricing_tiers < self.pricing_tiers_wrap_around",
             "total_credit_units == credit_units + previous_credit_units + ts(t0, _)",
             "ts(t0, _) >= 0",
         ], modifies=["self.credit_units_for_pricing_tiers"])},
         ensures=[("balance = pricing-table yield, capped at the maximum", "U() == " + CAP),
                  ("bonus is never negative", "bonus >= 0"),
                  ("tier position advanced by n", "implies(price_tiering, self.credit_units_for_pricing_tiers == pos(t0, n))"),
                  ("without tiering the tier position does not advance",
                   "implies(not price_tiering, self.credit_units_for_pricing_tiers == t0 % self.pricing_tiers_wrap_around)"),
                  ("max_credits_reached iff the cap cut something off",
                   "posted_max_reached() == (1 if (M() > 0 and old(U()) + n + bonus > M()) else 0)")],
         raises={"AssertionError": "int(credit_units) != credit_units"},
         ensures_exc=["U() == old(U())"],
         modifies=[MV, "self.credit_units_for_pricing_tiers"])

    C.fn("Credits.add_credit", params=dict(price_tiering=Bool),
         lets={"n": "self.credit_units_per_game", "t0": "self.credit_units_for_pricing_tiers",
               "bonus": "ts(t0, n) if price_tiering else 0"},
         ensures=[("one game price added (plus tier bonus), capped", "U() == " + CAP),
                  ("without tiering the tier position does not advance",
                   "implies(not price_tiering, self.credit_units_for_pricing_tiers == t0 % self.pricing_tiers_wrap_around)")],
         defs=["tier_def(t0, 0)"],
         modifies=[MV, "self.credit_units_for_pricing_tiers"], raises={})

    # ---- the three sources of credits
    C.fn("Credits._credit_switch_callback", params=dict(value=Num, audit_class=Str, key_name=Opt(Str)),
         requires=[INIT, ("coin value >= 0", "value >= 0"),
                   ("coin label does not alias the default audit keys",
                    "key_name is None or (key_name != '1 Total' and key_name != '2 Total')")],
         lets={"n": "int(value / self.credit_unit)", "t0": "self.credit_units_for_pricing_tiers",
               "bonus": "ts(t0, int(value / self.credit_unit))"},
         defs=["tier_def(t0, 0)"],
         ensures=[("money buys its value in credit units plus the pricing-tier bonus, capped", "U() == " + CAP),
                  ("earnings audits equal the coins accepted: one coin, its value",
                   "earn('1 Total Coins ' + audit_class) == old(earn('1 Total Coins ' + audit_class)) + 1 and "
                   "earn('2 Total Earnings ' + audit_class) == old(earn('2 Total Earnings ' + audit_class)) + value")],
         raises={"AssertionError": "int(value / self.credit_unit) != value / self.credit_unit"},
         modifies=[MV, "self.credit_units_for_pricing_tiers", "self.earnings", "self.delay.pending"])
    C.fn("Credits._credit_event_callback", params=dict(credits_value=TEMPLATE_NUM, audit_class=Str),
         requires=[INIT, ("award >= 0", "credits_value.value >= 0")],
         lets={"n": "int(credits_value.value * self.credit_units_per_game)", "bonus": "0",
               "t0": "self.credit_units_for_pricing_tiers"},
         ensures=[("awarded credits are added at face value (no pricing-tier bonus), capped", "U() == " + CAP),
                  ("awards do not advance the pricing tiers",
                   "self.credit_units_for_pricing_tiers == t0 % self.pricing_tiers_wrap_around")],
         raises={"AssertionError": "int(credits_value.value * self.credit_units_per_game) != "
                                   "credits_value.value * self.credit_units_per_game"},
         modifies=[MV, "self.credit_units_for_pricing_tiers", "self.earnings", "self.delay.pending"])
    C.fn("Credits._service_credit_callback", requires=[INIT],
         lets={"n": "self.credit_units_per_game", "bonus": "0", "t0": "self.credit_units_for_pricing_tiers"},
         ensures=[("a service credit is exactly one game price, no bonus, capped", "U() == " + CAP),
                  ("service credits do not advance the pricing tiers",
                   "self.credit_units_for_pricing_tiers == t0 % self.pricing_tiers_wrap_around")],
         modifies=[MV, "self.credit_units_for_pricing_tiers", "self.earnings"], raises={})

    # ---- spending credits -----------------------------------------------------------------
    C.fn("Credits._player_added",
         requires=[("audit counters are non-negative",
                    "earn('3 Total Paid Games') >= 0 and earn('4 Total Free Games') >= 0")],
         ensures=[("free play: balance untouched", "implies(old(self.machine.settings.free_play), U() == old(U()))"),
                  ("credit play: exactly one game price deducted when it was available",
                   "implies(not old(self.machine.settings.free_play) and old(U()) >= self.credit_units_per_game, "
                   "U() == old(U()) - self.credit_units_per_game)"),
                  ("never negative", "U() >= 0")],
         modifies=[MV, "self.earnings"], raises={})

    C.fn("Credits._clear_fractional_credits", requires=[INIT],
         ensures=[("fraction removed", "U() == old(U()) - old(U()) % self.credit_units_per_game")],
         modifies=[MV], raises={})
    C.fn("Credits.clear_all_credits",
         ensures=["U() == 0", "self.credit_units_for_pricing_tiers == 0"],
         modifies=[MV, "self.credit_units_for_pricing_tiers"], raises={})
    C.fn("Credits._reset_credits", ensures=["U() == 0"],
         modifies=[MV, "self.credit_units_for_pricing_tiers"], raises={})
    C.fn("Credits._game_started", ensures=["U() == old(U())", "self.credit_units_for_pricing_tiers == 0"],
         modifies=["self.credit_units_for_pricing_tiers", "self.delay.pending"], raises={})
    C.fn("Credits._reset_pricing_tier_credits", ensures=["U() == old(U())"],
         modifies=["self.credit_units_for_pricing_tiers", "self.reset_pricing_tier_count_this_game"], raises={})
    C.fn("Credits._reset_timeouts", requires=[INIT], ensures=["U() == old(U())"], modifies=["self.delay.pending"],
         raises={}, no_inv=True)
    C.fn("Credits._game_ended", requires=[INIT], ensures=["U() == old(U())"],
         modifies=["self.delay.pending", "self.reset_pricing_tier_count_this_game"], raises={})

    C.assume("machine-variable store and settings store behave as maps (get returns the last set); their own "
             "persistence is C15")
    C.assume("A-CONFIG: max_credits is a template_int >= 0, expiration times are ms ints (C12)")
    C.assume("pricing table built by _calculate_pricing_tiers has non-negative entries for positions 1..wrap "
             "(class invariant assumed at entry of every method, re-proved at exit; its establishment by "
             "_calculate_pricing_tiers is not yet under contract)")
    C.assume("no await/re-entrancy between request_to_start_game approval and player_added (single "
             "process_event_queue run): stated as rely")
    return C


def build_extra():
    # 'a player is added only when the credits handler approved the request': the game side - a denied
    # player_add_request (the credits mode returns False when there are too few credits) adds no player, whatever the
    # state of the player list (C06's contracts P1-P3 on the player-add path, restricted)
    from . import C06
    c06 = C06.build()
    c06.pid = "C20b"
    c06.replay_pid = "C06"
    c06.only_verify = ["Game._player_add_request_complete", "Game.request_player_add"]
    return [c06]
